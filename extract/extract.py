#!/usr/bin/env python3
"""
extract.py — regenerate lean/TantivyModel/Gen/*.lean from the Rust sources of the working tree.

Restricted, mechanical translation of the parts of tantivy that are literally data or closed
integer expressions: named constants, constant tables, guards. Every item names the source file
and a pattern; an item whose pattern no longer matches is reported as a failure (the Gen module
is then written without it, so that every proof depending on it stops checking) — it is never
silently defaulted.

usage: extract.py [--repo /repo] [--out /verif/lean/TantivyModel/Gen] [--status status.json]
Writes a file only when its content changed (keeps lake's incremental build effective).
"""
import hashlib, json, os, re, sys

def arg(name, default):
    if name in sys.argv:
        return sys.argv[sys.argv.index(name) + 1]
    return default

REPO = arg('--repo', os.environ.get('VERIF_REPO', '/repo'))
OUT = arg('--out', os.path.join(os.path.dirname(os.path.abspath(__file__)), '..', 'lean', 'TantivyModel', 'Gen'))
STATUS = arg('--status', None)

_cache = {}
def src(path):
    if path not in _cache:
        with open(os.path.join(REPO, path), encoding='utf-8') as f:
            _cache[path] = f.read()
    return _cache[path]

def strip_comments(text):
    text = re.sub(r'//[^\n]*', '', text)
    return re.sub(r'/\*.*?\*/', '', text, flags=re.S)

class Fail(Exception):
    pass

def int_lit(s):
    s = s.strip().replace('_', '')
    s = re.sub(r'(u8|u16|u32|u64|usize|i32|i64|u128)$', '', s)
    if s.startswith('0x'):
        return int(s, 16)
    if s.startswith('0b'):
        return int(s, 2)
    return int(s)

def eval_const_expr(expr, env):
    """closed integer expressions: literals, named constants already extracted, + - * / << >> ( )"""
    e = expr.strip()
    e = re.sub(r'\bas\s+(u8|u16|u32|u64|usize|i32|i64|u128)\b', '', e)
    e = re.sub(r'(\d)_(?=\d)', r'\1', e)
    e = re.sub(r'(?<=[0-9a-fA-F])(u8|u16|u32|u64|usize|i32|i64|u128)\b', '', e)
    e = re.sub(r'\b(u8|u16|u32|u64|usize|i32|i64)::MAX\b',
               lambda m: str({'u8': 2**8-1, 'u16': 2**16-1, 'u32': 2**32-1, 'u64': 2**64-1,
                              'usize': 2**64-1, 'i32': 2**31-1, 'i64': 2**63-1}[m.group(1)]), e)
    def name(m):
        n = m.group(0)
        if n in env:
            return str(env[n])
        raise Fail(f'unknown name {n} in constant expression {expr!r}')
    e2 = re.sub(r'\b[A-Za-z_][A-Za-z0-9_]*\b', lambda m: m.group(0) if re.fullmatch(r'0x[0-9a-fA-F]+|0b[01]+', m.group(0)) else name(m), e)
    if not re.fullmatch(r'[0-9a-fA-Fx\s+\-*/()<>]*', e2):
        raise Fail(f'expression outside the closed subset: {expr!r}')
    return int(eval(e2.replace('/', '//'), {'__builtins__': {}}))

def const(path, name, env=None):
    """`const NAME: T = <expr>;` (pub / pub(crate) / static allowed)"""
    text = strip_comments(src(path))
    m = re.search(r'\b(?:const|static)\s+' + re.escape(name) + r'\s*:\s*[^=;]+=\s*([^;]+);', text)
    if not m:
        raise Fail(f'{path}: const {name} not found')
    return eval_const_expr(m.group(1), env or {})

def table(path, name):
    """`const NAME: [T; N] = [ ... ];` of integer literals"""
    text = strip_comments(src(path))
    m = re.search(r'\b(?:const|static)\s+' + re.escape(name) + r'\s*:\s*\[[^\]]*\]\s*=\s*\[(.*?)\]\s*;', text, flags=re.S)
    if not m:
        raise Fail(f'{path}: table {name} not found')
    return [int_lit(x) for x in m.group(1).split(',') if x.strip()]

def fn_body(path, fn_name):
    text = strip_comments(src(path))
    m = re.search(r'\bfn\s+' + re.escape(fn_name) + r'\b[^{;]*\{', text)
    if not m:
        raise Fail(f'{path}: fn {fn_name} not found')
    i = m.end(); depth = 1
    while depth and i < len(text):
        c = text[i]
        depth += (c == '{') - (c == '}')
        i += 1
    return text[m.end():i - 1]

def fingerprint(path, fn_name):
    body = fn_body(path, fn_name)
    toks = re.findall(r'[A-Za-z_][A-Za-z0-9_]*|\d+|\S', body)
    return hashlib.sha256(' '.join(toks).encode()).hexdigest()[:16]

# ------------------------------------------------------------------------------------------
# items, grouped by generated module
# ------------------------------------------------------------------------------------------
MODULES = {}
def module(name):
    def deco(f):
        MODULES[name] = f
        return f
    return deco

def D(name, value, comment=''):
    c = f'  -- {comment}' if comment else ''
    return f'def {name} : Nat := {value}{c}'

def DL(name, values, comment=''):
    c = f'/-- {comment} -/\n' if comment else ''
    rows = []
    for i in range(0, len(values), 8):
        rows.append('  ' + ', '.join(str(v) for v in values[i:i + 8]))
    return f'{c}def {name} : List Nat := [\n' + ',\n'.join(rows) + ']'

# items live in extract/items/*.py; each file registers one or more Gen modules with @module('Name')
def load_items():
    import glob
    d = os.path.join(os.path.dirname(os.path.abspath(__file__)), 'items')
    for path in sorted(glob.glob(os.path.join(d, '*.py'))):
        code = compile(open(path, encoding='utf-8').read(), path, 'exec')
        exec(code, globals())

def main():
    load_items()
    os.makedirs(OUT, exist_ok=True)
    status = {'repo': REPO, 'modules': {}, 'failures': [], 'items': 0}
    for mod, gen in MODULES.items():
        items = []
        gen(items)
        lines = [f'-- GENERATED by /verif/extract/extract.py from {REPO} — do not edit.',
                 'namespace TantivyModel.Gen']
        ok = 0
        for it in items:
            try:
                lines.append(it())
                ok += 1
            except Fail as e:
                status['failures'].append({'module': mod, 'error': str(e)})
                lines.append(f'-- EXTRACTION FAILED: {e}')
            except FileNotFoundError as e:
                status['failures'].append({'module': mod, 'error': str(e)})
                lines.append(f'-- EXTRACTION FAILED: {e}')
        lines.append('end TantivyModel.Gen')
        text = '\n'.join(lines) + '\n'
        path = os.path.join(OUT, mod + '.lean')
        old = open(path).read() if os.path.exists(path) else None
        changed = old != text
        if changed:
            with open(path, 'w') as f:
                f.write(text)
        status['modules'][mod] = {'items': ok, 'changed': changed}
        status['items'] += ok
    # the driver imports every Gen module: the same fully qualified name in two modules breaks it
    seen = {}
    for mod in MODULES:
        ns = ['TantivyModel.Gen']
        try:
            lines = open(os.path.join(OUT, mod + '.lean'), encoding='utf-8').read().splitlines()
        except OSError:
            continue
        for line in lines:
            m = re.match(r'namespace\s+(\S+)', line)
            if m and m.group(1) != 'TantivyModel.Gen':
                ns.append(m.group(1))
            m = re.match(r'end\s+(\S+)', line)
            if m and len(ns) > 1 and ns[-1] == m.group(1):
                ns.pop()
            m = re.match(r'(?:def|abbrev|theorem)\s+(\S+)', line)
            if m:
                fq = '.'.join(ns) + '.' + m.group(1)
                if fq in seen and seen[fq] != mod:
                    status['failures'].append({'module': mod, 'error': f'{fq} is also generated by Gen/{seen[fq]}.lean'})
                seen[fq] = mod
    out = json.dumps(status, indent=1)
    if STATUS:
        with open(STATUS, 'w') as f:
            f.write(out)
    else:
        print(out)
    return 0

if __name__ == '__main__':
    sys.exit(main())
