"""
rs2lean.py — a small translator from a closed subset of Rust to Lean 4.

Subset: free functions (or associated fns without `self`) whose parameters and results are
u8/u16/u32/u64/usize/i64/bool/f64 (or tuples of them) and whose body is a sequence of
`let x [: T] = e;` and `assert!(c, …);` statements followed by a result expression built from
integer/bool literals, parameters, local lets, named constants (resolved by the caller),
`T::MAX`, unary `! -`, binary `| ^ & << >> + - * == != < <= > >= && ||`, `as T` casts,
`if c { e } else { e }`, parentheses, tuples, and the methods `.min(e) .max(e)
.leading_zeros() .wrapping_add/sub/mul(e) .to_bits() .is_sign_positive() .is_sign_negative()`,
`f64::from_bits(e)`, `u64::from(e)`/`u32::from(e)`…, `.trailing_zeros()`; with `newtypes`, methods of a
one-field tuple struct `struct T(uN)` taking `self` by value (`T(e)`, `x.0`, and calls of
previously translated methods / associated functions of `T`)

Semantics: uN / iN / usize → `BitVec N` (usize = 64, i64 two's complement; signed comparison and
`>>` on i64 use the signed BitVec operations); `+ - *` are the wrapping BitVec operations (release
semantics; debug-mode overflow panics are not modelled); f64 values are represented by their
IEEE bit pattern (`BitVec 64`) and only the bit-level methods above are supported; `assert!`
conditions are collected into a separate `<fn>_pre` definition.

Anything outside the subset raises `Unsupported` — the extractor then reports the item as failed
(never silently skipped).
"""
import re


class Unsupported(Exception):
    pass


INT_BITS = {'u8': 8, 'u16': 16, 'u32': 32, 'u64': 64, 'usize': 64, 'i64': 64, 'i32': 32, 'u128': 128}
SIGNED = {'i64', 'i32'}

TOKEN_RE = re.compile(r'''
    (?P<num>0x[0-9a-fA-F_]+(?:u8|u16|u32|u64|usize|i32|i64|u128)?|0b[01_]+(?:u8|u16|u32|u64|usize|i32|i64|u128)?|\d[\d_]*(?:u8|u16|u32|u64|usize|i32|i64|u128)?)
  | (?P<id>[A-Za-z_][A-Za-z0-9_]*)
  | (?P<op><<|>>|<=|>=|==|!=|&&|\|\||::|->|[-+*/%^&|!<>=(){},;:.\[\]])
  | (?P<str>"(?:[^"\\]|\\.)*")
  | (?P<ws>\s+)
''', re.X)


def tokenize(text):
    text = re.sub(r'//[^\n]*', '', text)
    text = re.sub(r'/\*.*?\*/', '', text, flags=re.S)
    pos = 0
    toks = []
    while pos < len(text):
        m = TOKEN_RE.match(text, pos)
        if not m:
            raise Unsupported(f'cannot tokenize at: {text[pos:pos+30]!r}')
        pos = m.end()
        if m.lastgroup == 'ws':
            continue
        toks.append((m.lastgroup, m.group(m.lastgroup)))
    return toks


# ---------------------------------------------------------------------------- AST
class Node:
    def __init__(self, kind, **kw):
        self.kind = kind
        self.__dict__.update(kw)

    def __repr__(self):
        return f'Node({self.kind}, {{k: v for k, v in self.__dict__.items() if k != "kind"}})'


class Parser:
    def __init__(self, toks, newtypes=None):
        self.t = toks
        self.i = 0
        self.newtypes = newtypes or {}   # struct name -> inner type (`struct T(u64)`), incl. 'Self'

    def peek(self, k=0):
        return self.t[self.i + k] if self.i + k < len(self.t) else ('eof', '')

    def next(self):
        tok = self.peek()
        self.i += 1
        return tok

    def accept(self, val):
        if self.peek()[1] == val:
            self.i += 1
            return True
        return False

    def expect(self, val):
        if not self.accept(val):
            raise Unsupported(f'expected {val!r}, found {self.peek()[1]!r}')

    def parse_type(self):
        if self.accept('('):
            items = []
            while not self.accept(')'):
                items.append(self.parse_type())
                self.accept(',')
            return ('tuple', items)
        kind, v = self.next()
        if kind == 'id' and v in self.newtypes:
            return self.newtypes[v]
        if kind != 'id' or (v not in INT_BITS and v not in ('bool', 'f64')):
            raise Unsupported(f'type {v!r} outside the subset')
        return v

    # block: { stmt* expr }
    def parse_block(self):
        self.expect('{')
        stmts = []
        result = None
        while True:
            if self.accept('}'):
                break
            if self.peek()[1] == 'let':
                self.next()
                if self.peek()[1] == 'mut':
                    raise Unsupported('let mut')
                if self.peek()[1] == '(':
                    self.next()
                    names = []
                    while not self.accept(')'):
                        names.append(self.next()[1])
                        self.accept(',')
                    pat = names
                else:
                    pat = self.next()[1]
                ty = None
                if self.accept(':'):
                    ty = self.parse_type()
                self.expect('=')
                e = self.parse_expr()
                self.expect(';')
                stmts.append(Node('let', pat=pat, ty=ty, e=e))
            elif self.peek()[1] in ('assert', 'debug_assert') and self.peek(1)[1] == '!':
                is_debug = self.peek()[1] == 'debug_assert'
                self.next(); self.next()
                self.expect('(')
                cond = self.parse_expr()
                depth = 1
                while depth:   # skip the message arguments
                    k, v = self.next()
                    if k == 'eof':
                        raise Unsupported('unterminated assert!')
                    depth += (v == '(') - (v == ')')
                self.accept(';')
                stmts.append(Node('assert', cond=cond, debug=is_debug))
            else:
                e = self.parse_expr()
                if self.accept(';'):
                    raise Unsupported('expression statement')
                self.expect('}')
                result = e
                break
        if result is None:
            raise Unsupported('block without result expression')
        return Node('block', stmts=stmts, result=result)

    PREC = [['||'], ['&&'], ['==', '!=', '<', '<=', '>', '>='], ['|'], ['^'], ['&'], ['<<', '>>'],
            ['+', '-'], ['*', '/', '%']]

    def parse_expr(self, level=0):
        if level == len(self.PREC):
            return self.parse_cast()
        lhs = self.parse_expr(level + 1)
        while self.peek()[0] == 'op' and self.peek()[1] in self.PREC[level]:
            op = self.next()[1]
            rhs = self.parse_expr(level + 1)
            lhs = Node('bin', op=op, a=lhs, b=rhs)
            if level == 2:
                break   # comparisons do not chain
        return lhs

    def parse_cast(self):
        e = self.parse_unary()
        while self.peek()[1] == 'as':
            self.next()
            e = Node('cast', e=e, ty=self.parse_type())
        return e

    def parse_unary(self):
        if self.accept('!'):
            return Node('not', e=self.parse_unary())
        if self.accept('-'):
            return Node('neg', e=self.parse_unary())
        return self.parse_postfix()

    def parse_postfix(self):
        e = self.parse_primary()
        while True:
            if self.peek()[1] == '.' and self.peek(1)[0] == 'id':
                self.next()
                name = self.next()[1]
                self.expect('(')
                args = []
                while not self.accept(')'):
                    args.append(self.parse_expr())
                    self.accept(',')
                e = Node('method', recv=e, name=name, args=args)
            elif self.newtypes and self.peek()[1] == '.' and self.peek(1) == ('num', '0'):
                self.next(); self.next()     # `x.0` of a one-field tuple struct: the inner value
            else:
                return e

    def parse_primary(self):
        kind, v = self.peek()
        if v == '(':
            self.next()
            items = [self.parse_expr()]
            is_tuple = False
            while self.accept(','):
                is_tuple = True
                if self.peek()[1] == ')':
                    break
                items.append(self.parse_expr())
            self.expect(')')
            return Node('tuple', items=items) if is_tuple else items[0]
        if v == 'if':
            self.next()
            c = self.parse_expr()
            t = self.parse_block()
            self.expect('else')
            if self.peek()[1] == 'if':
                f = Node('block', stmts=[], result=self.parse_primary())
            else:
                f = self.parse_block()
            return Node('if', c=c, t=t, f=f)
        if v == '{':
            return self.parse_block()
        if kind == 'num':
            self.next()
            m = re.match(r'(0x[0-9a-fA-F_]+|0b[01_]+|\d[\d_]*)(u8|u16|u32|u64|usize|i32|i64|u128)?$', v)
            digits = m.group(1).replace('_', '')
            val = int(digits, 16) if digits.startswith('0x') else int(digits, 2) if digits.startswith('0b') else int(digits)
            return Node('lit', val=val, ty=m.group(2))
        if kind == 'id':
            self.next()
            if v in ('true', 'false'):
                return Node('bool', val=(v == 'true'))
            if self.peek()[1] == '::':
                self.next()
                name = self.next()[1]
                if self.peek()[1] == '(':
                    self.next()
                    args = []
                    while not self.accept(')'):
                        args.append(self.parse_expr())
                        self.accept(',')
                    return Node('assoc_call', ty=v, name=name, args=args)
                return Node('assoc_const', ty=v, name=name)
            if self.peek()[1] == '(' and v in self.newtypes:
                self.next()
                inner = self.parse_expr()
                self.expect(')')
                return Node('newtype_ctor', e=inner, ty=self.newtypes[v])
            if self.peek()[1] == '(':
                raise Unsupported(f'call to {v}()')
            return Node('var', name=v)
        raise Unsupported(f'unexpected token {v!r}')


# ---------------------------------------------------------------------------- translation
def lean_ty(ty):
    if isinstance(ty, tuple):
        return ' × '.join(lean_ty(t) for t in ty[1])
    if ty == 'bool':
        return 'Bool'
    if ty == 'f64':
        return 'BitVec 64'
    return f'BitVec {INT_BITS[ty]}'


def bits(ty):
    return 64 if ty == 'f64' else INT_BITS[ty]


class Tr:
    def __init__(self, consts, calls=None, newtypes=None):
        self.consts = consts    # name -> (value, type)
        self.pre = []
        # previously translated functions: ('T', 'name') for `T::name(args)` / ('.', 'name') for
        # `recv.name(args)` (receiver = first parameter) -> (lean_name, [param types], result type)
        self.calls = calls or {}
        self.newtypes = newtypes or {}

    def call(self, key, arg_nodes, env):
        lean_name, ptys, rty = self.calls[key]
        if len(arg_nodes) != len(ptys):
            raise Unsupported(f'arity of {key}')
        parts = []
        for a, pty in zip(arg_nodes, ptys):
            t, ty = self.expr(a, env, pty)
            if ty != pty:
                raise Unsupported(f'argument of {key}: {ty} for {pty}')
            parts.append(t)
        return '(' + ' '.join([lean_name] + parts) + ')', rty

    def lit(self, val, ty):
        return f'{val}#{bits(ty)}'

    def expr(self, n, env, expected=None):
        """returns (lean_term, type)"""
        k = n.kind
        if k == 'lit':
            ty = n.ty or expected
            if ty is None or ty == 'bool':
                raise Unsupported(f'cannot infer the type of literal {n.val}')
            return self.lit(n.val, ty), ty
        if k == 'bool':
            return ('true' if n.val else 'false'), 'bool'
        if k == 'var':
            if n.name in env:
                return env[n.name]
            if n.name in self.consts:
                val, ty = self.consts[n.name]
                return self.lit(val, ty), ty
            raise Unsupported(f'unknown name {n.name}')
        if k == 'assoc_const':
            if n.ty in INT_BITS and n.name == 'MAX':
                if n.ty in SIGNED:
                    return self.lit(2 ** (INT_BITS[n.ty] - 1) - 1, n.ty), n.ty
                return self.lit(2 ** INT_BITS[n.ty] - 1, n.ty), n.ty
            if n.ty in INT_BITS and n.name == 'MIN' and n.ty not in SIGNED:
                return self.lit(0, n.ty), n.ty
            if n.ty in INT_BITS and n.name == 'BITS':
                return self.lit(INT_BITS[n.ty], 'u32'), 'u32'
            raise Unsupported(f'{n.ty}::{n.name}')
        if k == 'newtype_ctor':
            t, ty = self.expr(n.e, env, n.ty)
            if ty != n.ty:
                raise Unsupported(f'constructor argument {ty} for {n.ty}')
            return t, ty
        if k == 'assoc_call' and (n.ty, n.name) in self.calls:
            return self.call((n.ty, n.name), n.args, env)
        if k == 'assoc_call':
            if n.ty == 'f64' and n.name == 'from_bits' and len(n.args) == 1:
                t, ty = self.expr(n.args[0], env, 'u64')
                if ty != 'u64':
                    raise Unsupported('f64::from_bits of non-u64')
                return t, 'f64'
            if n.ty in INT_BITS and n.name == 'from' and len(n.args) == 1:
                t, ty = self.expr(n.args[0], env)
                return self.cast(t, ty, n.ty), n.ty
            raise Unsupported(f'{n.ty}::{n.name}(…)')
        if k == 'tuple':
            exp = expected[1] if isinstance(expected, tuple) else [None] * len(n.items)
            parts = [self.expr(x, env, e) for x, e in zip(n.items, exp)]
            return '(' + ', '.join(p[0] for p in parts) + ')', ('tuple', [p[1] for p in parts])
        if k == 'not':
            t, ty = self.expr(n.e, env, expected)
            return (f'(!{t})', 'bool') if ty == 'bool' else (f'(~~~{t})', ty)
        if k == 'neg':
            t, ty = self.expr(n.e, env, expected)
            if ty not in SIGNED:
                raise Unsupported('negation of unsigned')
            return f'(-{t})', ty
        if k == 'cast':
            t, ty = self.expr(n.e, env, None if n.e.kind != 'lit' else n.ty)
            return self.cast(t, ty, n.ty), n.ty
        if k == 'if':
            c, cty = self.expr(n.c, env, 'bool')
            if cty != 'bool':
                raise Unsupported('non-bool condition')
            t, tty = self.block(n.t, env, expected)
            f, fty = self.block(n.f, env, expected or tty)
            if tty != fty:
                raise Unsupported(f'if branches of different types {tty} / {fty}')
            return f'(if {c} then {t} else {f})', tty
        if k == 'block':
            return self.block(n, env, expected)
        if k == 'method':
            return self.method(n, env, expected)
        if k == 'bin':
            return self.binop(n, env, expected)
        raise Unsupported(f'node {k}')

    def cast(self, t, frm, to):
        if frm == 'bool':
            if to == 'bool':
                return t
            return f'(if {t} then {self.lit(1, to)} else {self.lit(0, to)})'
        if to == 'bool' or to == 'f64' or frm == 'f64':
            raise Unsupported(f'cast {frm} as {to}')
        fb, tb = bits(frm), bits(to)
        if fb == tb:
            return t
        if frm in SIGNED and tb > fb:
            return f'(BitVec.signExtend {tb} {t})'
        return f'(BitVec.setWidth {tb} {t})'

    def method(self, n, env, expected):
        if ('.', n.name) in self.calls:
            return self.call(('.', n.name), [n.recv] + n.args, env)
        r, rty = self.expr(n.recv, env, expected if n.name in ('min', 'max', 'wrapping_add', 'wrapping_sub', 'wrapping_mul') else None)
        name = n.name
        if name in ('min', 'max') and len(n.args) == 1:
            a, aty = self.expr(n.args[0], env, rty)
            if aty != rty:
                raise Unsupported(f'.{name} on different types')
            le = f'BitVec.sle {r} {a}' if rty in SIGNED else f'BitVec.ule {r} {a}'
            return (f'(if {le} then {r} else {a})' if name == 'min' else f'(if {le} then {a} else {r})'), rty
        if name in ('wrapping_add', 'wrapping_sub', 'wrapping_mul') and len(n.args) == 1:
            a, aty = self.expr(n.args[0], env, rty)
            op = {'wrapping_add': '+', 'wrapping_sub': '-', 'wrapping_mul': '*'}[name]
            return f'({r} {op} {a})', rty
        if name == 'leading_zeros' and not n.args and rty in INT_BITS:
            return f'(BitVec.setWidth 32 (BitVec.clz {r}))', 'u32'
        if name == 'trailing_zeros' and not n.args and rty in INT_BITS:
            return f'(BitVec.setWidth 32 (BitVec.ctz {r}))', 'u32'
        if name == 'to_bits' and rty == 'f64':
            return r, 'u64'
        if name == 'is_sign_positive' and rty == 'f64':
            return f'(!(BitVec.msb {r}))', 'bool'
        if name == 'is_sign_negative' and rty == 'f64':
            return f'(BitVec.msb {r})', 'bool'
        raise Unsupported(f'method .{name}() on {rty}')

    def binop(self, n, env, expected):
        op = n.op
        if op in ('&&', '||'):
            a, _ = self.expr(n.a, env, 'bool')
            b, _ = self.expr(n.b, env, 'bool')
            return f'({a} {op} {b})', 'bool'
        if op in ('<<', '>>'):
            a, aty = self.expr(n.a, env, expected)
            b, bty = self.expr(n.b, env, 'u32')
            if aty == 'bool':
                raise Unsupported('shift of bool')
            if n.b.kind != 'lit' and not (n.b.kind == 'var' and n.b.name in self.consts):
                self.pre.append(f'decide (({b}).toNat < {bits(aty)})')
            if op == '<<':
                return f'({a} <<< ({b}).toNat)', aty
            if aty in SIGNED:
                return f'(BitVec.sshiftRight {a} ({b}).toNat)', aty
            return f'({a} >>> ({b}).toNat)', aty
        # operands of equal type: infer from whichever side is not a bare literal
        if n.a.kind == 'lit' and n.a.ty is None:
            b, ty = self.expr(n.b, env, expected if op not in ('==', '!=', '<', '<=', '>', '>=') else None)
            a, _ = self.expr(n.a, env, ty)
        else:
            a, ty = self.expr(n.a, env, expected if op not in ('==', '!=', '<', '<=', '>', '>=') else None)
            b, bty = self.expr(n.b, env, ty)
            if bty != ty:
                raise Unsupported(f'operands of different types {ty} {op} {bty}')
        if op in ('==', '!='):
            return (f'({a} == {b})' if op == '==' else f'({a} != {b})'), 'bool'
        if op in ('<', '<=', '>', '>='):
            if ty == 'bool' or ty == 'f64':
                raise Unsupported('comparison of bool/f64')
            s = ty in SIGNED
            lt, le = ('BitVec.slt', 'BitVec.sle') if s else ('BitVec.ult', 'BitVec.ule')
            return {'<': f'({lt} {a} {b})', '<=': f'({le} {a} {b})',
                    '>': f'({lt} {b} {a})', '>=': f'({le} {b} {a})'}[op], 'bool'
        if ty == 'bool':
            if op in ('&', '|', '^'):
                return f'({a} {"&&" if op == "&" else "||" if op == "|" else "^^"} {b})', 'bool'
            raise Unsupported(f'bool {op}')
        if ty == 'f64':
            raise Unsupported('float arithmetic')
        lean_op = {'|': '|||', '^': '^^^', '&': '&&&', '+': '+', '-': '-', '*': '*'}.get(op)
        if lean_op is None:
            if op in ('/', '%') and ty not in SIGNED:
                return f'({a} {op} {b})', ty
            raise Unsupported(f'operator {op}')
        return f'({a} {lean_op} {b})', ty

    def block(self, blk, env, expected):
        env = dict(env)
        lets = []
        pre_start = len(self.pre)
        for s in blk.stmts:
            if s.kind == 'assert':
                c, _ = self.expr(s.cond, env, 'bool')
                # close over the lets seen so far
                for name, term in reversed(lets):
                    c = f'(let {name} := {term}; {c})'
                self.pre.append(c)
            else:
                t, ty = self.expr(s.e, env, s.ty)
                if s.ty is not None and s.ty != ty:
                    raise Unsupported(f'let annotation {s.ty} vs inferred {ty}')
                if isinstance(s.pat, list):
                    if not isinstance(ty, tuple) or len(ty[1]) != len(s.pat):
                        raise Unsupported('tuple pattern mismatch')
                    tmp = '_t_' + '_'.join(s.pat)
                    lets.append((tmp, t))
                    acc = tmp
                    for i, name in enumerate(s.pat):
                        proj = f'{acc}.1' if i < len(s.pat) - 1 else acc
                        lets.append((name + "'", proj))
                        env[name] = (name + "'", ty[1][i])
                        if i < len(s.pat) - 1:
                            acc = f'{acc}.2'
                else:
                    lets.append((s.pat + "'", t))
                    env[s.pat] = (s.pat + "'", ty)
        r, rty = self.expr(blk.result, env, expected)
        for name, term in reversed(lets):
            r = f'(let {name} := {term}; {r})'
        # side conditions met while translating this block (shift amounts, asserts of inner
        # blocks) may mention its lets: close them over the lets (re-binding is harmless)
        for i in range(pre_start, len(self.pre)):
            c = self.pre[i]
            for name, term in reversed(lets):
                if re.search(r'(?<![A-Za-z0-9_])' + re.escape(name) + r'(?![A-Za-z0-9_\'])', c):
                    c = f'(let {name} := {term}; {c})'
            self.pre[i] = c
        return r, rty


def translate_expr(expr_text, env_types, consts=None, newtypes=None, calls=None, expected=None):
    """translate one expression; `env_types`: name -> (lean term, type). returns (term, type)"""
    prs = Parser(tokenize(expr_text), newtypes or {})
    node = prs.parse_expr()
    if prs.peek()[0] != 'eof':
        raise Unsupported(f'trailing tokens after expression: {prs.peek()[1]!r}')
    tr = Tr(consts or {}, calls, newtypes)
    out = tr.expr(node, dict(env_types), expected)
    if tr.pre:
        raise Unsupported('expression with a side condition')
    return out


def find_fn(text, fn_name):
    text = re.sub(r'//[^\n]*', '', text)
    m = re.search(r'\bfn\s+' + re.escape(fn_name) + r'\s*\(', text)
    if not m:
        raise Unsupported(f'fn {fn_name} not found')
    i = text.index('{', m.end())
    sig = text[m.end() - 1:i]
    depth = 1
    j = i + 1
    while depth and j < len(text):
        depth += (text[j] == '{') - (text[j] == '}')
        j += 1
    return sig, text[i:j]


def impl_block(text, struct):
    """the text of the first inherent `impl <struct> { … }` block"""
    text = re.sub(r'//[^\n]*', '', text)
    m = re.search(r'\bimpl\s+' + re.escape(struct) + r'\s*\{', text)
    if not m:
        raise Unsupported(f'impl {struct} not found')
    i = m.end() - 1
    depth = 1
    j = i + 1
    while depth and j < len(text):
        depth += (text[j] == '{') - (text[j] == '}')
        j += 1
    return text[i:j]


def translate_fn(src_text, fn_name, consts=None, lean_name=None, newtypes=None, calls=None, sigs=None):
    """returns Lean source: `def <lean_name> (args) : T := …` (+ `<lean_name>_pre` if asserts).
    `newtypes`: one-field tuple structs seen as their inner type ('Self' included by the caller);
    a bare `self` parameter then has the type of `Self`. `calls`: see `Tr`. If `sigs` is a dict,
    the signature (lean_name, param types, result type) is stored under `fn_name`."""
    consts = consts or {}
    newtypes = newtypes or {}
    sig, body = find_fn(src_text, fn_name)
    sig = sig.strip()
    depth = 0
    close = None
    for idx, ch in enumerate(sig):
        depth += (ch == '(') - (ch == ')')
        if depth == 0:
            close = idx
            break
    if close is None or not sig.startswith('('):
        raise Unsupported(f'signature of {fn_name}: {sig!r}')
    rest = sig[close + 1:].strip()
    rm = re.match(r'->\s*(.*)$', rest, flags=re.S)
    class _M:
        def __init__(self, a, b): self.g = (None, a, b)
        def group(self, i): return self.g[i]
    m = _M(sig[1:close], rm.group(1).strip() if rm else None)
    params = []
    ptxt = m.group(1).strip()
    if ptxt:
        for p in re.split(r',(?![^()]*\))', ptxt):
            p = p.strip()
            if not p:
                continue
            if p == 'self' and 'Self' in newtypes:
                params.append(('self', newtypes['Self']))
                continue
            pm = re.match(r'(mut\s+)?([A-Za-z_][A-Za-z0-9_]*)\s*:\s*(.+)$', p)
            if not pm or pm.group(1):
                raise Unsupported(f'parameter {p!r}')
            ty = Parser(tokenize(pm.group(3)), newtypes).parse_type()
            params.append((pm.group(2), ty))
    if not m.group(2):
        raise Unsupported('function without result type')
    rty = Parser(tokenize(m.group(2)), newtypes).parse_type()
    blk = Parser(tokenize(body), newtypes).parse_block()
    tr = Tr(consts, calls, newtypes)
    params = [('self_' if name == 'self' else name, ty) for name, ty in params]
    env = {('self' if name == 'self_' else name): (name, ty) for name, ty in params}
    term, ty = tr.block(blk, env, rty)
    if ty != rty:
        raise Unsupported(f'{fn_name}: result type {rty} vs inferred {ty}')
    lean_name = lean_name or fn_name
    if sigs is not None:
        sigs[fn_name] = (lean_name, [ty for _, ty in params], rty)
    args = ' '.join(f'({name} : {lean_ty(ty)})' for name, ty in params)
    out = [f'def {lean_name} {args} : {lean_ty(rty)} :=\n  {term}']
    if tr.pre:
        out.append(f'def {lean_name}_pre {args} : Bool :=\n  ' + ' && '.join(tr.pre))
    return '\n'.join(out)


if __name__ == '__main__':
    import sys
    path, fn = sys.argv[1], sys.argv[2]
    print(translate_fn(open(path).read(), fn, {'HIGHEST_BIT': (1 << 63, 'u64')}))
