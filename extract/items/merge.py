# Gen/MergeGuards.lean — structural guards of the merge / end_merge protocol (C04) and of the
# stack-vs-k-way decision of sorted merges (C17). Each guard is 1 when the source still has the
# shape the Lean model mirrors, 0 otherwise; the models select their behaviour by these flags, so
# the theorems are re-checked against what the code says now.
# helpers available: const, table, fn_body, fingerprint, eval_const_expr, D, DL, Fail, module, re, src, strip_comments
@module('MergeGuards')
def gen_merge_guards(items):
    su = 'src/indexer/segment_updater.rs'
    sm = 'src/indexer/segment_manager.rs'
    sr = 'src/indexer/segment_register.rs'
    mg = 'src/indexer/merger.rs'

    def pos(body, pat, start=0):
        m = re.search(pat, body[start:])
        return (m.start() + start) if m else None

    def cursor_after_advance():
        body = fn_body(su, 'merge')
        adv = pos(body, r'advance_deletes\s*\(\s*segment\s*,\s*segment_entry\s*,\s*target_opstamp\s*\)')
        cur = [m.start() for m in re.finditer(r'segment_entries\s*\[\s*0\s*\]\s*\.\s*delete_cursor\(\)\s*\.\s*clone\(\)', body)]
        v = 1 if (adv is not None and len(cur) == 1 and cur[0] > adv) else 0
        return D('MERGE_CURSOR_AFTER_ADVANCE', v,
                 'segment_updater.rs::merge: the merged entry clones segment_entries[0].delete_cursor() AFTER the advance_deletes loop')
    items.append(cursor_after_advance)

    def committed_target():
        body = fn_body(su, 'consider_merge_options')
        a = re.search(r'let\s+commit_opstamp\s*=\s*self\s*\.\s*load_meta\(\)\s*\.\s*opstamp\s*;', body)
        b = re.search(r'compute_merge_candidates\(\s*&committed_segments\s*\)(.*?)merge_candidates\s*\.\s*extend', body, flags=re.S)
        c = re.search(r'let\s+current_opstamp\s*=\s*self\s*\.\s*stamper\s*\.\s*stamp\(\)\s*;', body)
        u = re.search(r'compute_merge_candidates\(\s*&uncommitted_segments\s*\)(.*?)\.collect\(\)', body, flags=re.S)
        ok = bool(a and b and c and u
                  and re.search(r'MergeOperation::new\(\s*&self\.merge_operations\s*,\s*commit_opstamp\s*,', b.group(1))
                  and re.search(r'MergeOperation::new\(\s*&self\.merge_operations\s*,\s*current_opstamp\s*,', u.group(1)))
        return D('MERGE_TARGET_BY_REGISTER', 1 if ok else 0,
                 'consider_merge_options: committed candidates target load_meta().opstamp, uncommitted candidates the fresh stamp')
    items.append(committed_target)

    def status_contains_all():
        body = fn_body(sm, 'segments_status')
        u = pos(body, r'self\s*\.\s*uncommitted\s*\.\s*contains_all\(\s*segment_ids\s*\)')
        c = pos(body, r'self\s*\.\s*committed\s*\.\s*contains_all\(\s*segment_ids\s*\)')
        reg = fn_body(sr, 'contains_all')
        allq = re.search(r'segment_ids\s*\.\s*iter\(\)\s*\.\s*all\(\s*\|\s*segment_id\s*\|\s*self\s*\.\s*segment_states\s*\.\s*contains_key\(\s*segment_id\s*\)\s*\)', reg)
        em = fn_body(sm, 'end_merge')
        uses = re.search(r'\.\s*segments_status\(\s*before_merge_segment_ids\s*\)\s*\.\s*ok_or_else', em)
        v = 1 if (u is not None and c is not None and u < c and allq and uses) else 0
        return D('END_MERGE_REQUIRES_ALL_SOURCES', v,
                 'segment_manager.rs::end_merge: cancelled unless ONE register contains_all (every id) of the sources')
    items.append(status_contains_all)

    def reconciles():
        body = fn_body(su, 'end_merge')
        a = pos(body, r'delete_operation\s*\.\s*opstamp\s*<\s*committed_opstamp')
        b = pos(body, r'advance_deletes\(\s*segment\s*,\s*after_merge_segment_entry\s*,\s*committed_opstamp\s*,?\s*\)')
        c = pos(body, r'\.\s*segment_manager\s*\.\s*end_merge\(')
        v = 1 if (a is not None and b is not None and c is not None and a < b < c) else 0
        return D('END_MERGE_RECONCILES', v,
                 'segment_updater.rs::end_merge: a delete older than the committed opstamp triggers advance_deletes on the merged segment before the swap')
    items.append(reconciles)

    def scan_shapes():
        body = fn_body(mg, 'segment_has_live_nulls')
        c = pos(body, r'reader\s*\.\s*doc_ids_alive\(\)\s*\.\s*any\(\s*\|\s*doc_id\s*\|\s*col\s*\.\s*first\(\s*doc_id\s*\)\s*\.\s*is_none\(\)\s*\)\s*$')
        nret = len(re.findall(r'\breturn\b', body))
        nif = len(re.findall(r'\bif\b', body))
        # shape of the pinned tree: non-Optional => false; no deletes => true; else scan alive docs
        a = pos(body, r'if\s+col\s*\.\s*get_cardinality\(\)\s*!=\s*columnar::Cardinality::Optional\s*\{\s*return\s+false\s*;\s*\}')
        b = pos(body, r'if\s*!\s*reader\s*\.\s*has_deletes\(\)\s*\{\s*return\s+true\s*;\s*\}')
        old = (a is not None and b is not None and c is not None and a < b < c and nret == 2 and nif == 2)
        # repaired shape: only Full => false; Optional without deletes => true; else scan alive docs
        l = pos(body, r'let\s+cardinality\s*=\s*col\s*\.\s*get_cardinality\(\)\s*;')
        a2 = pos(body, r'if\s+cardinality\s*==\s*columnar::Cardinality::Full\s*\{\s*return\s+false\s*;\s*\}')
        b2 = pos(body, r'if\s+cardinality\s*==\s*columnar::Cardinality::Optional\s*&&\s*!\s*reader\s*\.\s*has_deletes\(\)\s*\{\s*return\s+true\s*;\s*\}')
        new = (l is not None and a2 is not None and b2 is not None and c is not None and l < a2 < b2 < c and nret == 2 and nif == 2)
        return old, new

    def live_nulls_scan():
        old, new = scan_shapes()
        return D('LIVE_NULLS_SCAN_SHAPE', 1 if (old or new) else 0,
                 'merger.rs::segment_has_live_nulls: cardinality test, no-deletes shortcut for Optional, else any alive doc with first() == None (nothing else)')
    items.append(live_nulls_scan)

    def live_nulls_multivalued():
        old, new = scan_shapes()
        return D('LIVE_NULLS_SCANS_MULTIVALUED', 1 if new else 0,
                 'merger.rs::segment_has_live_nulls: only a Full column is exempt from the scan (0: every non-Optional column is, the pinned tree)')
    items.append(live_nulls_multivalued)

    def stack_guard():
        body = fn_body(mg, 'is_disjunct_and_sorted_on_sort_property')
        a = pos(body, r'if\s*!\s*values_disjunct\s*\{\s*return\s+Ok\(\s*false\s*\)\s*;\s*\}')
        b = pos(body, r'\.\s*any\(\s*\|\s*\(\s*segment_ord\s*,\s*col\s*\)\s*\|\s*self\s*\.\s*segment_has_live_nulls\(\s*\*segment_ord\s*,\s*col\s*\)\s*\)')
        c = pos(body, r'Ok\(\s*!\s*has_live_nulls\s*\)\s*$')
        w = re.search(r'if\s+asc\s*\{\s*col1\s*\.\s*max_value\(\)\s*<=\s*col2\s*\.\s*min_value\(\)\s*\}\s*else\s*\{\s*col1\s*\.\s*min_value\(\)\s*>=\s*col2\s*\.\s*max_value\(\)\s*\}', body)
        v = 1 if (a is not None and b is not None and c is not None and w and a < b < c) else 0
        return D('STACK_DECISION_SHAPE', v,
                 'merger.rs::is_disjunct_and_sorted_on_sort_property: windows max<=min (asc) / min>=max (desc), then no reader with live nulls')
    items.append(stack_guard)
