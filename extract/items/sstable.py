# Gen/SSTable.lean — sstable constants and the literal bit rules of the keep/add byte (C15)
# helpers available: const, table, fn_body, fingerprint, eval_const_expr, D, DL, Fail, module, re
@module('SSTable')
def gen_sstable(items):
    d = 'sstable/src/delta.rs'
    items.append(lambda: D('FOUR_BIT_LIMITS', const(d, 'FOUR_BIT_LIMITS'), d))
    items.append(lambda: D('VINT_MODE', const(d, 'VINT_MODE'), d))
    items.append(lambda: D('BLOCK_LEN', const(d, 'BLOCK_LEN'), d))
    items.append(lambda: D('VINT_CONTINUE_BIT', const('sstable/src/vint.rs', 'CONTINUE_BIT'), 'sstable/src/vint.rs'))
    items.append(lambda: D('STORE_BLOCK_LEN', const('sstable/src/index/v3.rs', 'STORE_BLOCK_LEN'), 'sstable/src/index/v3.rs'))
    items.append(lambda: D('SSTABLE_VERSION', const('sstable/src/lib.rs', 'SSTABLE_VERSION'), 'sstable/src/lib.rs'))

    def keep_add_pack_shift():
        body = fn_body(d, 'encode_keep_add')
        m = re.search(r'if\s+keep_len\s*<\s*FOUR_BIT_LIMITS\s*&&\s*add_len\s*<\s*FOUR_BIT_LIMITS\s*\{\s*let\s+b\s*=\s*\(\s*keep_len\s*\|\s*\(\s*add_len\s*<<\s*(\d+)\s*\)\s*\)\s*as\s+u8\s*;', body)
        if not m:
            raise Fail(f'{d}: one-byte rule of encode_keep_add not recognised')
        return D('KEEP_ADD_PACK_SHIFT', int(m.group(1)), 'encode_keep_add: b = keep | (add << SHIFT), guarded by keep < LIMIT && add < LIMIT')
    items.append(keep_add_pack_shift)

    def keep_add_unpack():
        body = fn_body(d, 'read_keep_add')
        m = re.search(r'let\s+keep\s*=\s*\(\s*b\s*&\s*(0b[01]+|0x[0-9a-fA-F]+|\d+)\s*\)\s*as\s+usize\s*;\s*let\s+add\s*=\s*\(\s*b\s*>>\s*(\d+)\s*\)\s*as\s+usize\s*;', body)
        if not m:
            raise Fail(f'{d}: nibble rule of read_keep_add not recognised')
        if not re.search(r'match\s+b\s*\{\s*VINT_MODE\s*=>', body):
            raise Fail(f'{d}: read_keep_add no longer dispatches on VINT_MODE')
        mask = eval_const_expr(m.group(1), {})
        return D('KEEP_MASK', mask, 'read_keep_add: keep = b & MASK') + '\n' + \
            D('ADD_UNPACK_SHIFT', int(m.group(2)), 'read_keep_add: add = b >> SHIFT')
    items.append(keep_add_unpack)

    def flush_guard():
        body = fn_body(d, 'flush_block_if_required')
        if not re.search(r'if\s+self\.block\.len\(\)\s*>\s*self\.block_len\s*\{', body):
            raise Fail(f'{d}: flush_block_if_required guard is not `block.len() > block_len`')
        return D('FLUSH_IS_STRICT_GT', 1, 'flush_block_if_required: block.len() > block_len')
    items.append(flush_guard)

    def compress_threshold():
        body = fn_body(d, 'flush_block')
        m = re.search(r'block_len\s*>\s*(\d[\d_]*)', body)
        if not m:
            raise Fail(f'{d}: compression threshold not found')
        return D('COMPRESS_THRESHOLD', int(m.group(1).replace('_', '')), 'flush_block: zstd only if value+key bytes > threshold')
    items.append(compress_threshold)

    def footer_len():
        body = fn_body('sstable/src/dictionary.rs', 'open')
        m = re.search(r'split_from_end\(\s*(\d+)\s*\)', body)
        if not m:
            raise Fail('sstable/src/dictionary.rs: footer length of Dictionary::open not found')
        return D('SSTABLE_FOOTER_LEN', int(m.group(1)), 'Dictionary::open: index_offset u64, num_terms u64, version u32')
    items.append(footer_len)

    def inverted_guard():
        # does file_slice_for_range return an empty slice when the lower bound's block lies after the
        # upper bound's block (instead of building a slice whose start is after its end)?
        body = fn_body('sstable/src/dictionary.rs', 'file_slice_for_range')
        if not re.search(r'self\.sstable_slice\.slice\(\(\s*start_bound\s*,\s*end_bound\s*\)\)', body):
            raise Fail('sstable/src/dictionary.rs: file_slice_for_range no longer ends in sstable_slice.slice((start_bound, end_bound))')
        g = re.search(r'if\s+let\s+\(\s*Some\((\w+)\)\s*,\s*Some\((\w+)\)\s*\)\s*=\s*\(\s*first_block_id\s*,\s*last_block_id\s*\)\s*\{\s*if\s+\1\s*>\s*\2\s*\{\s*return\s+FileSlice::empty\(\)\s*;', body)
        return D('RANGE_INVERTED_GUARD', 1 if g else 0, 'file_slice_for_range: `first_block_id > last_block_id => return FileSlice::empty()` present (1) or absent (0)')
    items.append(inverted_guard)

    def separator_assert():
        # find_shorter_str_in_between asserts `left < right`: the only order check for the first key of
        # a block (previous_key is cleared when a block is flushed)
        body = fn_body('sstable/src/index/mod.rs', 'find_shorter_str_in_between')
        g = re.search(r'assert!\(\s*&left\[\.\.\]\s*<\s*right\s*\)\s*;', body)
        return D('SEPARATOR_ASSERT', 1 if g else 0, 'find_shorter_str_in_between: `assert!(&left[..] < right)` present (1) or absent (0)')
    items.append(separator_assert)

    def separator_call():
        # Writer::insert_key shortens the last block's key (and thereby runs the assert) for the first key of
        # every block, and SSTableIndexBuilder passes the stored last key of the last block
        body = fn_body('sstable/src/lib.rs', 'insert_key')
        g1 = re.search(r'if\s+self\.first_ordinal_of_the_block\s*==\s*self\.num_terms\s*\{\s*self\.index_builder\s*\.shorten_last_block_key_given_next_key\(\s*key\s*\)\s*;\s*\}', body)
        b2 = fn_body('sstable/src/index/mod.rs', 'shorten_last_block_key_given_next_key')
        g2 = re.search(r'if\s+let\s+Some\(last_block\)\s*=\s*self\.blocks\.last_mut\(\)\s*\{\s*find_shorter_str_in_between\(\s*&mut\s+last_block\.last_key_or_greater\s*,\s*next_key\s*\)\s*;', b2)
        return D('SEPARATOR_CHECK_AT_BLOCK_START', 1 if (g1 and g2) else 0, 'insert_key: first key of a block => shorten_last_block_key_given_next_key(key) => find_shorter_str_in_between(last key, key)')
    items.append(separator_call)

    def increasing_assert():
        body = fn_body('sstable/src/lib.rs', 'insert_key')
        g1 = re.search(r'let\s+increasing_keys\s*=\s*add_len\s*>\s*0\s*&&\s*\(\s*self\.previous_key\.len\(\)\s*==\s*keep_len\s*\)\s*\|\|\s*self\.previous_key\.is_empty\(\)\s*\|\|\s*self\.previous_key\[keep_len\]\s*<\s*key\[keep_len\]\s*;', body)
        g2 = re.search(r'assert!\(\s*increasing_keys\s*,', body)
        return D('INCREASING_KEYS_ASSERT', 1 if (g1 and g2) else 0, 'insert_key: the increasing_keys expression has the modelled shape and is asserted')
    items.append(increasing_assert)
