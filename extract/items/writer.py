# Gen/WriterGuards.lean — the opstamp comparisons of the delete machinery (C02, C04)
# helpers available: const, table, fn_body, fingerprint, eval_const_expr, D, DL, Fail, module, re
#
# Each guard is emitted as a comparison code (0 `<`, 1 `<=`, 2 `>`, 3 `>=`) so that the model of
# the index writer evaluates the comparison the code has NOW; the theorems of Props/C02.lean need
# the codes the proofs were made for (`C02_extracted_guards`), so a change of one of these
# operators breaks a proof obligation instead of passing unnoticed.
@module('WriterGuards')
def gen_writer_guards(items):
    CODE = {'<': 0, '<=': 1, '>': 2, '>=': 3}
    OP = r'(<=|>=|<|>)'

    def guard(name, path, fn, pattern, what):
        def f():
            body = fn_body(path, fn)
            ms = re.findall(pattern, body)
            if len(ms) != 1:
                raise Fail(f'{path}::{fn}: expected exactly one comparison `{what}`, found {len(ms)}')
            return D(name, CODE[ms[0]], f'{path}::{fn}: `{what.replace("OP", ms[0])}`')
        return f

    # DocToOpstampMapping::is_deleted:  doc_opstamp < delete_opstamp
    items.append(guard('IS_DELETED_CMP', 'src/indexer/doc_opstamp_mapping.rs', 'is_deleted',
                       r'doc_opstamp\s*' + OP + r'\s*delete_opstamp', 'doc_opstamp OP delete_opstamp'))
    # DeleteCursor::is_behind_opstamp (skip_to):  operation.opstamp < target_opstamp
    items.append(guard('SKIP_TO_CMP', 'src/indexer/delete_queue.rs', 'is_behind_opstamp',
                       r'operation\.opstamp\s*' + OP + r'\s*target_opstamp', 'operation.opstamp OP target_opstamp'))
    # compute_deleted_bitset:  if delete_op.opstamp > target_opstamp { break; }
    items.append(guard('COMPUTE_DELETED_BREAK_CMP', 'src/indexer/index_writer.rs', 'compute_deleted_bitset',
                       r'delete_op\.opstamp\s*' + OP + r'\s*target_opstamp', 'delete_op.opstamp OP target_opstamp'))
    # SegmentUpdater::end_merge catch-up:  if delete_operation.opstamp < committed_opstamp { advance_deletes }
    items.append(guard('END_MERGE_CATCHUP_CMP', 'src/indexer/segment_updater.rs', 'end_merge',
                       r'delete_operation\.opstamp\s*' + OP + r'\s*committed_opstamp',
                       'delete_operation.opstamp OP committed_opstamp'))
