# Gen/Agg.lean — aggregation defaults and limits (C14)
# helpers available: const, table, fn_body, fingerprint, eval_const_expr, D, DL, Fail, module, re
@module('Agg')
def gen_agg(items):
    col = 'src/aggregation/collector.rs'
    items.append(lambda: D('AGG_DEFAULT_BUCKET_LIMIT', const(col, 'DEFAULT_BUCKET_LIMIT'), col))
    items.append(lambda: D('AGG_DEFAULT_MEMORY_LIMIT', const(col, 'DEFAULT_MEMORY_LIMIT'), col))
    t = 'src/aggregation/bucket/term_agg/mod.rs'
    def from_req(pattern, name, what):
        def f():
            body = fn_body(t, 'from_req')
            m = re.search(pattern, body)
            if not m:
                raise Fail(f'{t}: {what} not found in TermsAggregationInternal::from_req')
            return D(name, int(m.group(1)), f'{t}::from_req {what}')
        return f
    items.append(from_req(r'req\.size\.unwrap_or\((\d+)\)', 'AGG_TERMS_DEFAULT_SIZE', 'default size'))
    items.append(from_req(r'req\.segment_size\.unwrap_or\(size\s*\*\s*(\d+)\)', 'AGG_TERMS_SEGMENT_SIZE_FACTOR', 'segment_size = size * k'))
    items.append(from_req(r'req\.min_doc_count\.unwrap_or\((\d+)\)', 'AGG_TERMS_DEFAULT_MIN_DOC_COUNT', 'default min_doc_count'))
    def seg_max():
        body = fn_body(t, 'from_req')
        if not re.search(r'segment_size\s*=\s*segment_size\.max\(size\)', body):
            raise Fail(f'{t}: segment_size.max(size) guard not found')
        return D('AGG_TERMS_SEGMENT_SIZE_AT_LEAST_SIZE', 1, 'segment_size = segment_size.max(size)')
    items.append(seg_max)
    h = 'src/aggregation/bucket/histogram/histogram.rs'
    def hist_norm_first():
        # statement order in normalize_histogram_req: a plain `histogram` on a date column is converted
        # from ms to ns (normalize_date_time) BEFORE the collect-time bounds and the offset are read
        body = fn_body(h, 'normalize_histogram_req')
        i = body.find('normalize_date_time()')
        j = body.find('req_data.bounds =')
        k = body.find('req_data.offset =')
        if i < 0 or j < 0 or k < 0:
            raise Fail(f'{h}: normalize_histogram_req: normalize_date_time / req_data.bounds / req_data.offset not found')
        if not (i < j and i < k):
            raise Fail(f'{h}: normalize_histogram_req reads hard_bounds / offset BEFORE normalize_date_time (ms bounds against ns values)')
        return D('AGG_HIST_NORMALIZE_BEFORE_BOUNDS', 1, f'{h}::normalize_histogram_req: normalize_date_time precedes req_data.bounds / req_data.offset')
    items.append(hist_norm_first)
