# Gen/Agg.lean — aggregation defaults and limits (C14)
# helpers available: const, table, fn_body, fingerprint, eval_const_expr, D, DL, Fail, module, re
@module('Agg')
def gen_agg(items):
    col = 'src/aggregation/collector.rs'
    items.append(lambda: D('AGG_DEFAULT_BUCKET_LIMIT', const(col, 'DEFAULT_BUCKET_LIMIT'), col))
    items.append(lambda: D('AGG_DEFAULT_MEMORY_LIMIT', const(col, 'DEFAULT_MEMORY_LIMIT'), col))
    t = 'src/aggregation/bucket/term_agg/mod.rs'
    def from_req(pattern, name, what):
        def f():
            body = fn_body(t, 'from_req')
            m = re.search(pattern, body)
            if not m:
                raise Fail(f'{t}: {what} not found in TermsAggregationInternal::from_req')
            return D(name, int(m.group(1)), f'{t}::from_req {what}')
        return f
    items.append(from_req(r'req\.size\.unwrap_or\((\d+)\)', 'AGG_TERMS_DEFAULT_SIZE', 'default size'))
    items.append(from_req(r'req\.segment_size\.unwrap_or\(size\s*\*\s*(\d+)\)', 'AGG_TERMS_SEGMENT_SIZE_FACTOR', 'segment_size = size * k'))
    items.append(from_req(r'req\.min_doc_count\.unwrap_or\((\d+)\)', 'AGG_TERMS_DEFAULT_MIN_DOC_COUNT', 'default min_doc_count'))
    def seg_max():
        body = fn_body(t, 'from_req')
        if not re.search(r'segment_size\s*=\s*segment_size\.max\(size\)', body):
            raise Fail(f'{t}: segment_size.max(size) guard not found')
        return D('AGG_TERMS_SEGMENT_SIZE_AT_LEAST_SIZE', 1, 'segment_size = segment_size.max(size)')
    items.append(seg_max)
