# Gen/BoolWeight.lean — guards of BooleanWeight::scorer that the C03 compile model follows.
# helpers available: const, table, fn_body, fingerprint, eval_const_expr, D, DL, Fail, module, re
@module('BoolWeight')
def gen_boolweight(items):
    f = 'src/query/boolean_query/boolean_weight.rs'

    def single_clause_guard():
        # the `weights.len() == 1` branch of `impl Weight for BooleanWeight :: scorer`
        body = ' '.join(fn_body(f, 'scorer').split())
        m = re.search(r'else if self\.weights\.len\(\) == 1 \{(.*?)\} else if self\.scoring_enabled', body)
        if not m:
            raise Fail(f'{f}: single-clause branch of BooleanWeight::scorer not found')
        br = m.group(1).strip()
        head = r'let &\(occur, ref weight\) = &self\.weights\[0\]; '
        tail = r' \{ Ok\(Box::new\(EmptyScorer\)\) \} else \{ weight\.scorer\(reader, boost\) \}'
        # pinned form: only a MUST_NOT clause yields the empty scorer (msm ignored — DESIGN F4)
        if re.fullmatch(head + r'if occur == Occur::MustNot' + tail, br):
            return D('BOOL_SINGLE_CLAUSE_HONOURS_MSM', 0, 'BooleanWeight::scorer, weights.len() == 1: minimum_number_should_match ignored')
        # repaired form: empty as soon as the minimum exceeds the number of SHOULD clauses (0 or 1)
        if re.fullmatch(head + r'let num_should = usize::from\(occur == Occur::Should\); '
                        r'if occur == Occur::MustNot \|\| self\.minimum_number_should_match > num_should' + tail, br):
            return D('BOOL_SINGLE_CLAUSE_HONOURS_MSM', 1, 'BooleanWeight::scorer, weights.len() == 1: guard `minimum_number_should_match > num_should`')
        raise Fail(f'{f}: single-clause branch of BooleanWeight::scorer has an unknown shape: {br!r}')
    items.append(single_clause_guard)
    items.append(lambda: f'def fp_boolean_weight_scorer : String := "{fingerprint(f, "scorer")}"')
    items.append(lambda: f'def fp_boolean_weight_complex_scorer : String := "{fingerprint(f, "complex_scorer")}"')


@module('PhraseScorer')
def gen_phrasescorer(items):
    f = 'src/query/phrase_query/phrase_scorer.rs'

    def slops_reset():
        # compute_phrase_match must start by loading the first term's positions and, when a slop is
        # set, clearing the per-document `left_slops` state (otherwise the carried slops of the
        # previous document leak into the next one)
        body = ' '.join(fn_body(f, 'compute_phrase_match').split())
        pat = (r'^\{ self\.intersection_docset \.docset_mut_specialized\(0\) \.positions\(&mut self\.left_positions\); '
               r'if self\.has_slop\(\) \{ self\.left_slops\.clear\(\); \} \} for i in 1\.\.self\.num_terms - 1 \{')
        if not re.search(pat, body):
            raise Fail(f'{f}: compute_phrase_match no longer starts with loading term 0 and `if self.has_slop() {{ self.left_slops.clear(); }}`: {body[:200]!r}')
        return D('PHRASE_LEFT_SLOPS_RESET_AT_START', 1, 'compute_phrase_match clears left_slops before folding the terms of a document')
    items.append(slops_reset)
    items.append(lambda: f'def fp_compute_phrase_match : String := "{fingerprint(f, "compute_phrase_match")}"')
    items.append(lambda: f'def fp_intersection_count_with_carrying_slop : String := "{fingerprint(f, "intersection_count_with_carrying_slop")}"')
    items.append(lambda: f'def fp_intersection_exists_with_slop : String := "{fingerprint(f, "intersection_exists_with_slop")}"')


@module('JsonRange')
def gen_jsonrange(items):
    f = 'src/query/range_query/range_query_fastfield.rs'

    def norm(name):
        return ' '.join(fn_body(f, name).split())

    def u64_lower():
        body = norm('search_on_json_numerical_field')
        if 'return TransformBound::NewBound(Bound::Excluded(i64::MAX as u64));' in body:
            return D('JSON_U64_LOWER_ON_I64_NO_HITS', 0, 'u64 lower bound > i64::MAX on an i64 column: Excluded(i64::MAX as u64) (pinned)')
        if 'return TransformBound::NewBound(Bound::Excluded(i64::MAX.to_u64()));' in body:
            return D('JSON_U64_LOWER_ON_I64_NO_HITS', 1, 'u64 lower bound > i64::MAX on an i64 column: Excluded(i64::MAX.to_u64())')
        raise Fail(f'{f}: search_on_json_numerical_field: the u64-bound-above-i64::MAX lower closure has an unknown shape')
    items.append(u64_lower)

    def f64_below():
        body = norm('transform_from_f64_bounds')
        if 'if upper_bound < T::min().to_f64() { return TransformBound::NewBound(Bound::Unbounded); }' in body:
            return D('JSON_F64_UPPER_BELOW_MIN_NO_HITS', 0, 'f64 upper bound below T::min: Unbounded (pinned)')
        if 'if upper_bound < T::min().to_f64() { return TransformBound::NewBound(Bound::Excluded(T::min().to_u64())); }' in body:
            return D('JSON_F64_UPPER_BELOW_MIN_NO_HITS', 1, 'f64 upper bound below T::min: Excluded(T::min().to_u64())')
        raise Fail(f'{f}: transform_from_f64_bounds: the upper-bound-below-minimum case has an unknown shape')
    items.append(f64_below)

    def f64_round():
        body = norm('transform_from_f64_bounds')
        lo_t = 'Bound::Included(T::from_f64(lower_bound.trunc()).to_u64())' in body
        hi_t = 'Bound::Included(T::from_f64(upper_bound.trunc()).to_u64())' in body
        lo_c = 'Bound::Included(T::from_f64(lower_bound.ceil()).to_u64())' in body
        hi_f = 'Bound::Included(T::from_f64(upper_bound.floor()).to_u64())' in body
        if lo_t and hi_t and not lo_c and not hi_f:
            return D('JSON_F64_FRACTIONAL_ROUNDS_INWARD', 0, 'fractional f64 bounds: Included(trunc) on both ends (pinned)')
        if lo_c and hi_f and not lo_t and not hi_t:
            return D('JSON_F64_FRACTIONAL_ROUNDS_INWARD', 1, 'fractional f64 bounds: lower ceil, upper floor')
        raise Fail(f'{f}: transform_from_f64_bounds: rounding of fractional bounds has an unknown shape')
    items.append(f64_round)
    items.append(lambda: f'def fp_search_on_json_numerical_field : String := "{fingerprint(f, "search_on_json_numerical_field")}"')
    items.append(lambda: f'def fp_transform_from_f64_bounds : String := "{fingerprint(f, "transform_from_f64_bounds")}"')


@module('FastRange')
def gen_fastrange(items):
    f = 'src/query/range_query/range_query_fastfield.rs'

    def shortcut_cards():
        # search_on_u64_ff: "the range covers [column min, column max]" becomes an AllScorer only under a
        # condition on the column's cardinality; read for which cardinalities the shortcut is taken
        body = ' '.join(fn_body(f, 'search_on_u64_ff').split())
        m = re.search(r'if col_min_value >= \*value_range\.start\(\) && col_max_value <= \*value_range\.end\(\) \{ '
                      r'if (.*?) \{ if boost != 1\.0f32 \{ return Ok\(Box::new\(ConstScorer::new\( AllScorer::new\(column\.num_docs\(\)\), boost, \)\)\); \} '
                      r'else \{ return Ok\(Box::new\(AllScorer::new\(column\.num_docs\(\)\)\)\); \} \} else \{ \} \} '
                      r'let docset = RangeDocSet::new\(value_range, column\);', body)
        if not m:
            raise Fail(f'{f}: search_on_u64_ff: the AllScorer shortcut has an unknown shape: {body[-700:]!r}')
        cond = m.group(1).strip()
        cards = ['Full', 'Optional', 'Multivalued']
        mm = re.fullmatch(r'column\.index\.get_cardinality\(\) (==|!=) Cardinality::(Full|Optional|Multivalued)', cond)
        if not mm:
            raise Fail(f'{f}: search_on_u64_ff: the cardinality condition of the AllScorer shortcut has an unknown shape: {cond!r}')
        on = {c: int((c == mm.group(2)) == (mm.group(1) == '==')) for c in cards}
        return '\n'.join(D(f'RANGE_ALL_SHORTCUT_ON_{c.upper()}', on[c], f'search_on_u64_ff: AllScorer shortcut taken for a {c} column (condition `{cond}`)') for c in cards)
    items.append(shortcut_cards)
    items.append(lambda: f'def fp_search_on_u64_ff : String := "{fingerprint(f, "search_on_u64_ff")}"')
