# Gen/BoolWeight.lean — guards of BooleanWeight::scorer that the C03 compile model follows.
# helpers available: const, table, fn_body, fingerprint, eval_const_expr, D, DL, Fail, module, re
@module('BoolWeight')
def gen_boolweight(items):
    f = 'src/query/boolean_query/boolean_weight.rs'

    def single_clause_guard():
        # the `weights.len() == 1` branch of `impl Weight for BooleanWeight :: scorer`
        body = ' '.join(fn_body(f, 'scorer').split())
        m = re.search(r'else if self\.weights\.len\(\) == 1 \{(.*?)\} else if self\.scoring_enabled', body)
        if not m:
            raise Fail(f'{f}: single-clause branch of BooleanWeight::scorer not found')
        br = m.group(1).strip()
        head = r'let &\(occur, ref weight\) = &self\.weights\[0\]; '
        tail = r' \{ Ok\(Box::new\(EmptyScorer\)\) \} else \{ weight\.scorer\(reader, boost\) \}'
        # pinned form: only a MUST_NOT clause yields the empty scorer (msm ignored — DESIGN F4)
        if re.fullmatch(head + r'if occur == Occur::MustNot' + tail, br):
            return D('BOOL_SINGLE_CLAUSE_HONOURS_MSM', 0, 'BooleanWeight::scorer, weights.len() == 1: minimum_number_should_match ignored')
        # repaired form: empty as soon as the minimum exceeds the number of SHOULD clauses (0 or 1)
        if re.fullmatch(head + r'let num_should = usize::from\(occur == Occur::Should\); '
                        r'if occur == Occur::MustNot \|\| self\.minimum_number_should_match > num_should' + tail, br):
            return D('BOOL_SINGLE_CLAUSE_HONOURS_MSM', 1, 'BooleanWeight::scorer, weights.len() == 1: guard `minimum_number_should_match > num_should`')
        raise Fail(f'{f}: single-clause branch of BooleanWeight::scorer has an unknown shape: {br!r}')
    items.append(single_clause_guard)
    items.append(lambda: f'def fp_boolean_weight_scorer : String := "{fingerprint(f, "scorer")}"')
    items.append(lambda: f'def fp_boolean_weight_complex_scorer : String := "{fingerprint(f, "complex_scorer")}"')
