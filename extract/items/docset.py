# Gen/DocSet.lean — DocSet constants (C13, C03, C06)
# helpers available: const, table, fn_body, fingerprint, eval_const_expr, D, DL, Fail, module, re
@module('DocSet')
def gen_docset(items):
    f = 'src/docset.rs'
    u = 'src/query/union/buffered_union.rs'
    env = {}
    def c(name, path, lean_name=None):
        def it():
            v = const(path, name, env)
            env[name] = v
            return D(lean_name or name, v, path)
        return it
    items.append(c('TERMINATED', f))
    items.append(c('COLLECT_BLOCK_BUFFER_LEN', f))
    items.append(c('BLOCK_NUM_TINYBITSETS', f))
    items.append(c('BLOCK_WINDOW', f))
    # HORIZON is declared after HORIZON_NUM_TINYBITSETS in the source: extract it first
    items.append(c('HORIZON', u, 'UNION_HORIZON'))
    def nb():
        e = dict(env)
        v = const(u, 'HORIZON_NUM_TINYBITSETS', e)
        return D('UNION_HORIZON_NUM_TINYBITSETS', v, u)
    items.append(nb)
    # guard of `refill`: a child is drained while `doc < min_doc + HORIZON`
    def refill_guard():
        body = strip_comments(src(u))
        if not re.search(r'let\s+horizon\s*=\s*min_doc\s*\+\s*HORIZON\s*;', body):
            raise Fail(f'{u}: refill no longer computes `horizon = min_doc + HORIZON`')
        m = re.search(r'if\s+doc\s*(>=|>)\s*horizon\s*\{\s*return\s+false\s*;', body)
        if not m:
            raise Fail(f'{u}: refill guard `if doc >= horizon {{ return false; }}` not found')
        return D('UNION_REFILL_STOP_INCLUSIVE', 1 if m.group(1) == '>=' else 0, 'refill stops draining a child at doc >= horizon (1) / doc > horizon (0)')
    items.append(refill_guard)
    # guard of the in-horizon branch of `seek`: `gap < HORIZON`
    def seek_guard():
        text = strip_comments(src(u))
        m = re.search(r'fn\s+seek\s*\(&mut self,\s*target:\s*DocId\)\s*->\s*DocId\s*\{(.*?)\n    \}', text, flags=re.S)
        if not m:
            raise Fail(f'{u}: fn seek not found')
        body = m.group(1)
        g = re.search(r'let\s+gap\s*=\s*target\s*-\s*self\.window_start_doc\s*;\s*if\s+gap\s*(<=|<)\s*HORIZON\s*\{', body)
        if not g:
            raise Fail(f'{u}: in-horizon guard `gap < HORIZON` of seek not found')
        return D('UNION_SEEK_IN_HORIZON_STRICT', 1 if g.group(1) == '<' else 0, 'seek treats target as buffered iff target - window_start < HORIZON (1) / <= (0)')
    items.append(seek_guard)
    # which targets `seek_danger` answers from the buffered window: `is_in_horizon(target)` only (0),
    # or also targets below the window start (1)
    def danger_guard():
        body = fn_body(u, 'seek_danger')
        m = re.search(r'if\s+(target\s*<\s*self\.window_start_doc\s*\|\|\s*)?self\.is_in_horizon\(target\)\s*\{', body)
        if not m:
            raise Fail(f'{u}: buffered-window guard of seek_danger not found')
        return D('UNION_SEEK_DANGER_BELOW_WINDOW_BUFFERED', 1 if m.group(1) else 0, 'seek_danger treats target < window_start as buffered (1) or as beyond the horizon (0)')
    items.append(danger_guard)
    # out-of-horizon branch of `seek`: children are sought only `if docset.doc() < target` (0), or every
    # child is re-validated with `docset.seek(docset.doc().max(target))` (1)
    def seek_children_guard():
        text = strip_comments(src(u))
        m = re.search(r'fn\s+seek\s*\(&mut self,\s*target:\s*DocId\)\s*->\s*DocId\s*\{(.*?)\n    \}', text, flags=re.S)
        if not m:
            raise Fail(f'{u}: fn seek not found')
        body = m.group(1)
        if re.search(r'if\s+docset\.doc\(\)\s*<\s*target\s*\{\s*docset\.seek\(target\);\s*\}', body):
            return D('UNION_SEEK_REVALIDATES_CHILDREN', 0, 'out-of-horizon seek: children sought only if doc() < target')
        if re.search(r'docset\.doc\(\)\.max\(target\)', body) and re.search(r'docset\.seek\(', body):
            return D('UNION_SEEK_REVALIDATES_CHILDREN', 1, 'out-of-horizon seek: every child re-validated by seek(max(doc, target))')
        raise Fail(f'{u}: child handling of the out-of-horizon branch of seek not recognised')
    items.append(seek_children_guard)
    # BitSetDocSet::seek past max_value: only `doc = TERMINATED` (0) or the cursor is exhausted too (1)
    def bitset_guard():
        b = 'src/query/bitset/mod.rs'
        text = strip_comments(src(b))
        m = re.search(r'if\s+target\s*>=\s*self\.docs\.max_value\(\)\s*\{(.*?)return\s+TERMINATED\s*;', text, flags=re.S)
        if not m:
            raise Fail(f'{b}: `target >= max_value` branch of seek not found')
        blk = m.group(1)
        if 'self.doc = TERMINATED' not in blk.replace('  ', ' '):
            raise Fail(f'{b}: seek past max_value no longer sets doc = TERMINATED')
        return D('BITSET_SEEK_PAST_MAX_EXHAUSTS_CURSOR', 1 if re.search(r'self\.cursor_tinybitset\s*=\s*TinySet::empty\(\)', blk) else 0, b)
    items.append(bitset_guard)
    # density threshold of Intersection::count_including_deleted
    def density():
        body = fn_body('src/query/intersection.rs', 'count_including_deleted')
        m = re.search(r'const\s+DENSITY_THRESHOLD_INVERSE\s*:\s*u32\s*=\s*([0-9_]+)\s*;', body)
        if not m:
            raise Fail('src/query/intersection.rs: DENSITY_THRESHOLD_INVERSE not found')
        return D('INTERSECTION_DENSITY_THRESHOLD_INVERSE', int(m.group(1).replace('_', '')), 'src/query/intersection.rs')
    items.append(density)
