# Gen/Postings.lean — constants and tables of the postings / positions / fieldnorm codecs (C07)
# helpers available: const, table, fn_body, fingerprint, eval_const_expr, D, DL, Fail, module, re
# All items live in the sub-namespace `TantivyModel.Gen.Postings` (no clashes with other Gen modules).
def _fn_body2(path, fn_name):
    """like fn_body, but tolerates `;` inside the parameter list (array types)"""
    text = strip_comments(src(path))
    m = re.search(r'\bfn\s+' + re.escape(fn_name) + r'\b', text)
    if not m:
        raise Fail(f'{path}: fn {fn_name} not found')
    i = text.index('(', m.end()); depth = 0
    while True:
        depth += (text[i] == '(') - (text[i] == ')')
        i += 1
        if depth == 0:
            break
    i = text.index('{', i) + 1
    start = i; depth = 1
    while depth and i < len(text):
        depth += (text[i] == '{') - (text[i] == '}')
        i += 1
    return text[start:i - 1]


@module('Postings')
def gen_postings(items):
    import glob as _glob
    comp = 'src/postings/compression/mod.rs'
    skip = 'src/postings/skip.rs'
    items.append(lambda: 'namespace Postings')

    def block_size():
        text = strip_comments(src(comp))
        m = re.search(r'\bconst\s+COMPRESSION_BLOCK_SIZE\s*:\s*usize\s*=\s*([^;]+);', text)
        if not m:
            raise Fail(f'{comp}: const COMPRESSION_BLOCK_SIZE not found')
        rhs = m.group(1).strip()
        if rhs == 'BitPacker4x::BLOCK_LEN':
            # the value comes from the external crate `bitpacking`, version pinned by Cargo.lock
            lock = src('Cargo.lock')
            mv = re.search(r'name = "bitpacking"\s*\nversion = "([^"]+)"', lock)
            if not mv:
                raise Fail('Cargo.lock: bitpacking version not found')
            cands = _glob.glob(os.path.expanduser(f'~/.cargo/registry/src/*/bitpacking-{mv.group(1)}/src/bitpacker4x.rs'))
            if not cands:
                raise Fail(f'bitpacking-{mv.group(1)} sources not found in the cargo registry')
            t = strip_comments(open(cands[0], encoding='utf-8').read())
            mb = re.search(r'\bconst\s+BLOCK_LEN\s*:\s*usize\s*=\s*([^;]+);', t)
            if not mb:
                raise Fail('bitpacking: const BLOCK_LEN not found')
            return D('COMPRESSION_BLOCK_SIZE', eval_const_expr(mb.group(1), {}),
                     f'{comp} = BitPacker4x::BLOCK_LEN (bitpacking-{mv.group(1)})')
        return D('COMPRESSION_BLOCK_SIZE', eval_const_expr(rhs, {}), comp)
    items.append(block_size)

    def positions_block_size():
        f = 'src/positions/mod.rs'
        text = strip_comments(src(f))
        m = re.search(r'\bconst\s+COMPRESSION_BLOCK_SIZE\s*:\s*usize\s*=\s*([^;]+);', text)
        if not m:
            raise Fail(f'{f}: const COMPRESSION_BLOCK_SIZE not found')
        if m.group(1).strip() != 'BitPacker4x::BLOCK_LEN':
            raise Fail(f'{f}: positions block size is no longer BitPacker4x::BLOCK_LEN')
        return '-- src/positions/mod.rs: COMPRESSION_BLOCK_SIZE = BitPacker4x::BLOCK_LEN (same as postings)'
    items.append(positions_block_size)

    items.append(lambda: D('TERMINATED', const('src/docset.rs', 'TERMINATED'), 'src/docset.rs'))
    items.append(lambda: D('POSITION_GAP', const('src/postings/postings_writer.rs', 'POSITION_GAP'), 'src/postings/postings_writer.rs'))
    items.append(lambda: D('POSITION_END', const('src/postings/recorder.rs', 'POSITION_END'), 'src/postings/recorder.rs'))
    items.append(lambda: D('MAX_TOKEN_LEN', const('src/tokenizer/mod.rs', 'MAX_TOKEN_LEN'), 'src/tokenizer/mod.rs'))
    items.append(lambda: D('TERMINFO_BLOCK_LEN', const('src/termdict/fst_termdict/term_info_store.rs', 'BLOCK_LEN'), 'term_info_store.rs'))
    items.append(lambda: D('VINT_STOP_BIT', const('common/src/vint.rs', 'STOP_BIT'), 'common/src/vint.rs'))

    items.append(lambda: D('EXPULL_FIRST_BLOCK_NUM', const('stacker/src/expull.rs', 'FIRST_BLOCK_NUM'), 'stacker/src/expull.rs'))
    items.append(lambda: D('ARENA_NUM_BITS_PAGE_ADDR', const('stacker/src/memory_arena.rs', 'NUM_BITS_PAGE_ADDR'), 'stacker/src/memory_arena.rs'))

    def expull_shape():
        f = 'stacker/src/expull.rs'
        body = _fn_body2(f, 'get_block_size')
        m = re.search(r'block_num\.min\((\d+)u32\)', body)
        if not m or '(1u32 << exp) as u16' not in body:
            raise Fail(f'{f}: get_block_size outside the recognised shape (1 << min(block_num, MAX))')
        ens = _fn_body2(f, 'ensure_capacity')
        if 'arena.allocate_space(allocate as usize + mem::size_of::<Addr>())' not in ens or 'arena.write_at(eull.tail, new_block_addr)' not in ens:
            raise Fail(f'{f}: ensure_capacity outside the recognised shape (block + Addr allocated, next pointer written at the old tail)')
        rd = _fn_body2(f, 'read_to_end')
        if 'for block_num in FIRST_BLOCK_NUM + 1..self.block_num' not in rd or 'arena.read(addr.offset(cap as u32))' not in rd:
            raise Fail(f'{f}: read_to_end outside the recognised shape')
        return D('EXPULL_MAX_EXP', int(m.group(1)), f + ': get_block_size')
    items.append(expull_shape)

    def vint_radix():
        body = _fn_body2('common/src/vint.rs', 'serialize_into')
        m = re.search(r'remaining\s*%\s*(\d+)u64', body)
        m2 = re.search(r'remaining\s*/=\s*(\d+)u64', body)
        if not m or not m2 or m.group(1) != m2.group(1):
            raise Fail('common/src/vint.rs: radix of VInt::serialize_into not found')
        return D('VINT_RADIX', int(m.group(1)), 'VInt::serialize_into: remaining % R, remaining /= R')
    items.append(vint_radix)

    def postings_vint_radix():
        f = 'src/postings/compression/vint.rs'
        body = fn_body(f, 'compress_unsorted')
        m = re.search(r'to_encode\s*%\s*(\d+)u32', body)
        m2 = re.search(r'to_encode\s*/=\s*(\d+)u32', body)
        m3 = re.search(r'next_byte\s*\|\s*(\d+)u8', body)
        if not m or not m2 or not m3 or m.group(1) != m2.group(1):
            raise Fail(f'{f}: radix / stop bit of compress_unsorted not found')
        return D('PVINT_RADIX', int(m.group(1)), f) + '\n' + D('PVINT_STOP_BIT', int(m3.group(1)), f)
    items.append(postings_vint_radix)

    def skip_lens():
        body = fn_body(skip, 'read_block_info')
        out = []
        for opt, name in [('Basic', 'SKIP_ENTRY_LEN_BASIC'), ('WithFreqs', 'SKIP_ENTRY_LEN_FREQS'),
                          ('WithFreqsAndPositions', 'SKIP_ENTRY_LEN_POSITIONS')]:
            m = re.search(r'IndexRecordOption::' + opt + r'\s*=>\s*\{(.*?)advance_len\s*=\s*(\d+)\s*;', body, flags=re.S)
            if not m:
                raise Fail(f'{skip}: advance_len for {opt} not found')
            out.append(D(name, int(m.group(2)), f'{skip}::read_block_info'))
        return '\n'.join(out)
    items.append(skip_lens)

    def bitwidth():
        enc = fn_body(skip, 'encode_bitwidth')
        dec = fn_body(skip, 'decode_bitwidth')
        m = re.search(r'bitwidth\s*\|\s*\(\(delta_1 as u8\)\s*<<\s*(\d+)\)', enc)
        m2 = re.search(r'\(raw_bitwidth\s*>>\s*(\d+)\)\s*&\s*1', dec)
        m3 = re.search(r'raw_bitwidth\s*&\s*(0x[0-9a-fA-F]+|\d+)', dec)
        m4 = re.search(r'bitwidth\s*<\s*(\d+)', enc)
        if not (m and m2 and m3 and m4) or m.group(1) != m2.group(1):
            raise Fail(f'{skip}: encode_bitwidth/decode_bitwidth outside the recognised shape')
        return '\n'.join([D('BITWIDTH_DELTA_SHIFT', int(m.group(1)), skip),
                          D('BITWIDTH_MASK', int(m3.group(1), 0), skip),
                          D('BITWIDTH_LIMIT', int(m4.group(1)), f'{skip}: assert!(bitwidth < N)')])
    items.append(bitwidth)

    def kary():
        f = 'src/postings/block_search.rs'
        body = _fn_body2(f, 'search_block')
        m = re.search(r'kary_search::<(\d+)>\(arr,\s*target\)', body)
        if not m:
            raise Fail(f'{f}: search_block is no longer kary_search::<K>')
        return D('BLOCK_SEARCH_K', int(m.group(1)), f)
    items.append(kary)

    def numbits():
        f = 'bitpacker/src/lib.rs'
        body = fn_body(f, 'compute_num_bits')
        m = re.search(r'if\s+amplitude\s*<=\s*(\d+)\s*-\s*(\d+)\s*\{\s*amplitude\s*\}\s*else\s*\{\s*(\d+)\s*\}', body)
        if not m or '64u32 - n.leading_zeros()' not in body:
            raise Fail(f'{f}: compute_num_bits outside the recognised shape')
        return '\n'.join([D('NUM_BITS_THRESHOLD', int(m.group(1)) - int(m.group(2)), f),
                          D('NUM_BITS_FULL', int(m.group(3)), f)])
    items.append(numbits)

    def fieldnorm_table():
        f = 'src/fieldnorm/code.rs'
        t = table(f, 'FIELD_NORMS_TABLE')
        to_id = fn_body(f, 'fieldnorm_to_id')
        if not re.search(r'FIELD_NORMS_TABLE\s*\.binary_search\(&fieldnorm\)\s*\.unwrap_or_else\(\|idx\|\s*idx\s*-\s*1\)\s*as u8', to_id):
            raise Fail(f'{f}: fieldnorm_to_id is no longer `binary_search(..).unwrap_or_else(|idx| idx - 1)`')
        if not re.search(r'FIELD_NORMS_TABLE\[id as usize\]', fn_body(f, 'id_to_fieldnorm')):
            raise Fail(f'{f}: id_to_fieldnorm is no longer a table lookup')
        return DL('FIELD_NORMS_TABLE', t, f'{f} ({len(t)} entries); fieldnorm_to_id = binary_search or insertion point - 1')
    items.append(fieldnorm_table)

    def vint_u32_ladder():
        # the hand-unrolled u32 encoder used by the indexing-time recorders (stacker write_u32_vint)
        f = 'common/src/vint.rs'
        body = _fn_body2(f, 'serialize_vint_u32')
        env = {}
        for name, expr in re.findall(r'const\s+((?:START|MASK)_\d)\s*:\s*u64\s*=\s*([^;]+);', body):
            env[name] = eval_const_expr(expr, env)
        m = re.search(r'const\s+STOP_BIT\s*:\s*u64\s*=\s*([^;]+);', body)
        if not m:
            raise Fail(f'{f}: serialize_vint_u32: local STOP_BIT not found')
        stop = eval_const_expr(m.group(1), {})
        for k in range(1, 6):
            if f'MASK_{k}' not in env or (k > 1 and f'START_{k}' not in env):
                raise Fail(f'{f}: serialize_vint_u32: START_k / MASK_k constants not found')
        radix = env['MASK_1'] + 1
        for k in range(1, 6):
            if env[f'MASK_{k}'] != env['MASK_1'] * radix ** (k - 1):
                raise Fail(f'{f}: serialize_vint_u32: MASK_{k} is not MASK_1 << 7(k-1)')
        flat = re.sub(r'\s+', '', body)
        def expr_for(n):
            if n == 1:
                return 'val|STOP_BIT'
            parts = ['(val&MASK_1)'] + [f'((val&MASK_{k})<<{k - 1})' for k in range(2, n + 1)]
            sh = '(8)' if n == 2 else f'(8*{n - 1})'
            return '|'.join(parts) + f'|(STOP_BIT<<{sh})'
        ladder = []
        pos = 0
        for n in range(1, 5):
            kw = 'if' if n == 1 else '}elseif'
            mm = re.compile(re.escape(kw) + r'val(<=|<)(START_\d)\{\(').match(flat, flat.index(kw + 'val', pos))
            if not mm:
                raise Fail(f'{f}: serialize_vint_u32: branch {n} of the size ladder not recognised')
            rest = flat[mm.end():]
            want = expr_for(n) + f',{n}'
            if not (rest.startswith(want + ')') or rest.startswith(want + ',)')):
                raise Fail(f'{f}: serialize_vint_u32: expression of the {n}-byte branch changed')
            bound = env[mm.group(2)] + (1 if mm.group(1) == '<=' else 0)
            ladder.append((bound, n))
            pos = mm.end()
        tail = flat[flat.index('}else{(', pos) + len('}else{('):]
        want = expr_for(5) + ',5'
        if not (tail.startswith(want + ')') or tail.startswith(want + ',)')):
            raise Fail(f'{f}: serialize_vint_u32: expression of the 5-byte branch changed')
        if '*buf=res.to_le_bytes();&buf[0..num_bytes]' not in flat:
            raise Fail(f'{f}: serialize_vint_u32: output is no longer the first num_bytes little-endian bytes')
        rd = re.sub(r'\s+', '', _fn_body2(f, 'read_u32_vint_no_advance'))
        ln = re.sub(r'\s+', '', _fn_body2(f, 'vint_len'))
        if 'result|=u32::from(b&127u8)<<shift;shift+=7;' not in rd or '.take(5)' not in ln or 'ifval>=STOP_BIT{returni+1;}' not in ln:
            raise Fail(f'{f}: read_u32_vint_no_advance / vint_len outside the recognised shape')
        rows = ', '.join(f'({b}, {n})' for b, n in ladder)
        return '\n'.join([
            f'/-- {f}::serialize_vint_u32: (exclusive upper bound, number of bytes) of each branch of the size ladder, in order (`<=` is translated to bound + 1) -/',
            f'def VINT32_LADDER : List (Nat × Nat) := [{rows}]',
            D('VINT32_LAST_BYTES', 5, 'the final else branch'),
            D('VINT32_RADIX', radix, 'MASK_1 + 1; MASK_k = MASK_1 << 7(k-1) checked by the extractor'),
            D('VINT32_STOP_BIT', stop, 'local STOP_BIT of serialize_vint_u32'),
            D('VINT32_MAX_LEN', 5, 'vint_len: .take(5)')])
    items.append(vint_u32_ladder)

    def reset_covers_new():
        # `reset` must re-initialise every field the constructor initialises (C07_reset_equiv_open)
        def body_in(path, impl, fn_name):
            text = strip_comments(src(path))
            i = text.find(impl)
            if i < 0:
                raise Fail(f'{path}: {impl} not found')
            m = re.search(r'\bfn\s+' + fn_name + r'\b', text[i:])
            if not m:
                raise Fail(f'{path}: {impl}::{fn_name} not found')
            j = text.index('{', text.index(')', i + m.end())) + 1
            start = j; depth = 1
            while depth and j < len(text):
                depth += (text[j] == '{') - (text[j] == '}')
                j += 1
            return text[start:j - 1]
        new = body_in(skip, 'impl SkipReader {', 'new')
        reset = body_in(skip, 'impl SkipReader {', 'reset')
        lit = re.search(r'SkipReader\s*\{(.*?)\};', new, flags=re.S)
        if not lit:
            raise Fail(f'{skip}: struct literal of SkipReader::new not found')
        new_fields = set(re.findall(r'(?:^|,)\s*([a-z_]+)\s*(?::|,|$)', lit.group(1), flags=re.M))
        new_fields = {f for f in new_fields if f}
        reset_fields = set(re.findall(r'self\.([a-z_]+)\s*=[^=]', reset))
        if 'read_block_info()' not in new or 'read_block_info()' not in reset:
            raise Fail(f'{skip}: new/reset no longer call read_block_info')
        missing = sorted(new_fields - {'skip_info'} - reset_fields)
        # the value of the reset must be the constructor's: last_doc_in_previous_block = 0, ...
        for f_, v in [('last_doc_in_previous_block', '0u32'), ('byte_offset', '0'), ('position_offset', '0u64'),
                      ('remaining_docs', 'doc_freq'), ('owned_read', 'data')]:
            if f_ in reset_fields and not re.search(r'self\.' + f_ + r'\s*=\s*' + re.escape(v) + r'\s*;', reset):
                missing.append(f_ + ' (different value)')
        bf = 'src/postings/block_segment_postings.rs'
        breset = body_in(bf, 'impl BlockSegmentPostings {', 'reset')
        bfields = set(re.findall(r'self\.([a-z_]+)\s*=[^=]', breset))
        bmissing = sorted({'data', 'block_max_score_cache', 'block_loaded', 'doc_freq'} - bfields)
        if breset.count('self.skip_reader.reset(') < 2:
            bmissing.append('skip_reader.reset')
        if 'self.load_block()' not in breset:
            bmissing.append('load_block')
        return '\n'.join([
            D('SKIPREADER_RESET_MISSING', len(missing),
              f'{skip}: fields of SkipReader::new not re-initialised by reset: {missing} (new: {sorted(new_fields)})'),
            D('BLOCKPOSTINGS_RESET_MISSING', len(bmissing), f'{bf}::reset: missing {bmissing}')])
    items.append(reset_covers_new)

    def json_positions_scope():
        # the per-path position map is cleared for every (document, JSON field): C07_json_positions_per_path
        f = 'src/indexer/segment_writer.rs'
        body = re.sub(r'\s+', '', _fn_body2(f, 'index_document'))
        i = body.find('FieldType::JsonObject(')
        if i < 0:
            raise Fail(f'{f}: JsonObject arm of index_document not found')
        j = body.find('FieldType::IpAddr(', i)
        arm = body[i:j if j > 0 else len(body)]
        k = arm.find('self.json_positions_per_path.clear();')
        l = arm.find('forjson_valueinvalues{')
        if k < 0 or l < 0 or k > l:
            raise Fail(f'{f}: json_positions_per_path is no longer cleared at the start of the JsonObject arm (per document and field)')
        if '&mutself.json_positions_per_path' not in arm[l:]:
            raise Fail(f'{f}: index_json_value no longer receives json_positions_per_path')
        ju = re.sub(r'\s+', '', _fn_body2('src/core/json_utils.rs', 'index_json_value'))
        if 'letindexing_position=positions_per_path.get_position_from_id(unordered_id);postings_writer.index_text(' not in ju:
            raise Fail('src/core/json_utils.rs: text leaves are no longer indexed against the per-path IndexingPosition')
        return D('JSON_POSITIONS_CLEARED_PER_FIELD', 1, f'{f}: clear() at the start of the JsonObject arm; json_utils.rs: index_text(.., positions_per_path[path id])')
    items.append(json_positions_scope)

    def index_text_counts():
        # num_tokens / total_num_tokens count the subscribed tokens only (tokens > MAX_TOKEN_LEN return early)
        f = 'src/postings/postings_writer.rs'
        body = re.sub(r'\s+', '', fn_body(f, 'index_text'))
        a = body.find('iftoken.text.len()>MAX_TOKEN_LEN{')
        b = body.find('self.subscribe(doc_id,start_position,term_buffer,ctx);num_tokens+=1;')
        if a < 0 or b < 0 or b < a or body.count('num_tokens+=1;') != 1:
            raise Fail(f'{f}: index_text no longer counts exactly the subscribed tokens')
        if 'indexing_position.end_position=end_position+POSITION_GAP;indexing_position.num_tokens+=num_tokens;' not in body:
            raise Fail(f'{f}: index_text: end_position / num_tokens update changed')
        if 'letstart_position=indexing_position.end_position+token.positionasu32;end_position=end_position.max(start_position+token.position_lengthasu32);' not in body:
            raise Fail(f'{f}: index_text: position arithmetic changed')
        return D('INDEX_TEXT_SHAPE_OK', 1, f'{f}::index_text: start = end_position + token.position; end = max(.., start + position_length); + POSITION_GAP; only subscribed tokens counted')
    items.append(index_text_counts)

    def vint_u32_translated():
        # the body of serialize_vint_u32 translated mechanically (extract/rs2lean.py): the
        # `(res, num_bytes)` expression as a function of `val`; `*buf = res.to_le_bytes(); &buf[0..num_bytes]`
        # is checked textually by vint_u32_ladder above
        import importlib.util as _ilu
        _spec = _ilu.spec_from_file_location('rs2lean_c07', os.path.join(os.path.dirname(os.path.abspath(__file__)), 'rs2lean.py'))
        r2l = _ilu.module_from_spec(_spec); _spec.loader.exec_module(r2l)
        f = 'common/src/vint.rs'
        body = _fn_body2(f, 'serialize_vint_u32')
        consts = {}
        for name, expr in re.findall(r'const\s+((?:START|MASK)_\d)\s*:\s*u64\s*=\s*([^;]+);', body):
            consts[name] = (eval_const_expr(expr, {k: v[0] for k, v in consts.items()}), 'u64')
        m = re.search(r'const\s+STOP_BIT\s*:\s*u64\s*=\s*([^;]+);', body)
        if not m:
            raise Fail(f'{f}: serialize_vint_u32: local STOP_BIT not found')
        consts['STOP_BIT'] = (eval_const_expr(m.group(1), {}), 'u64')
        mm = re.search(r'let\s+val\s*=\s*u64::from\(val\);.*?let\s*\(res,\s*num_bytes\)\s*=\s*(.*?);\s*\*buf\s*=\s*res\.to_le_bytes\(\);', body, flags=re.S)
        if not mm:
            raise Fail(f'{f}: serialize_vint_u32: `let (res, num_bytes) = …; *buf = res.to_le_bytes();` not found')
        syn = ('fn serialize_vint_u32_packed(val: u32) -> (u64, usize) {\n    let val = u64::from(val);\n    '
               + mm.group(1) + '\n}\n')
        try:
            return (f'-- translated from {f}::serialize_vint_u32 (the `(res, num_bytes)` expression)\n'
                    + r2l.translate_fn(syn, 'serialize_vint_u32_packed', consts, 'serialize_vint_u32_packed'))
        except r2l.Unsupported as e:
            raise Fail(f'{f}::serialize_vint_u32: outside the translatable subset: {e}')
    items.append(vint_u32_translated)

    items.append(lambda: 'end Postings')
