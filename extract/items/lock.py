# Gen/Lock.lean — writer-lock descriptor and IndexWriter::new argument guards (C18, C11)
# helpers available: const, table, fn_body, fingerprint, eval_const_expr, D, DL, Fail, module, re
@module('Lock')
def gen_lock(items):
    iw = 'src/indexer/index_writer.rs'
    dl = 'src/directory/directory_lock.rs'

    def lock_blocking(name):
        def f():
            text = strip_comments(src(dl))
            m = re.search(r'pub\s+static\s+' + name + r'\s*:\s*Lazy<Lock>\s*=\s*Lazy::new\(\|\|\s*Lock\s*\{(.*?)\}\s*\)\s*;', text, flags=re.S)
            if not m:
                raise Fail(f'{dl}: lock descriptor {name} not found')
            b = re.search(r'is_blocking\s*:\s*(true|false)', m.group(1))
            if not b:
                raise Fail(f'{dl}: is_blocking of {name} not found')
            return D(name + '_IS_BLOCKING', 1 if b.group(1) == 'true' else 0, dl)
        return f
    items.append(lock_blocking('INDEX_WRITER_LOCK'))

    def margin():
        return const(iw, 'MARGIN_IN_BYTES')
    items.append(lambda: D('MARGIN_IN_BYTES', margin(), iw))
    items.append(lambda: D('MEMORY_BUDGET_NUM_BYTES_MIN',
                           const(iw, 'MEMORY_BUDGET_NUM_BYTES_MIN', {'MARGIN_IN_BYTES': margin()}), iw))
    items.append(lambda: D('MEMORY_BUDGET_NUM_BYTES_MAX',
                           const(iw, 'MEMORY_BUDGET_NUM_BYTES_MAX', {'MARGIN_IN_BYTES': margin()}), iw))
    items.append(lambda: D('MAX_NUM_THREAD', const(iw, 'MAX_NUM_THREAD'), iw))

    # the three argument guards of IndexWriter::new, in the order the code tests them. Each is
    # emitted as a comparison code so that the model evaluates the guard the code has now:
    #   BUDGET_MIN_GUARD = 0 for `<`, 1 for `<=`;  BUDGET_MAX_GUARD = 0 for `>=`, 1 for `>`
    def guards():
        body = fn_body(iw, 'new')
        # `new` may delegate to an inner constructor (`Self::new_…(index, options, Some(lock))`)
        md = re.search(r'^\s*Self::(\w+)\(', body)
        if md and 'options.memory_budget_per_thread' not in body:
            body = fn_body(iw, md.group(1))
        m1 = re.search(r'if\s+options\.memory_budget_per_thread\s*(<=|<)\s*MEMORY_BUDGET_NUM_BYTES_MIN\s*\{', body)
        m2 = re.search(r'if\s+options\.memory_budget_per_thread\s*(>=|>)\s*MEMORY_BUDGET_NUM_BYTES_MAX\s*\{', body)
        m3 = re.search(r'if\s+options\.num_worker_threads\s*==\s*0\s*\{', body)
        if not (m1 and m2 and m3):
            raise Fail(f'{iw}: argument guards of IndexWriter::new not found in the expected form')
        if not (m1.start() < m2.start() < m3.start()):
            raise Fail(f'{iw}: argument guards of IndexWriter::new are not in the modelled order')
        # the guards must precede every other fallible step (each `return Err` drops the lock guard)
        first_q = body.find('?')
        if first_q != -1 and first_q < m3.start():
            raise Fail(f'{iw}: a fallible step precedes the argument guards of IndexWriter::new')
        return '\n'.join([
            D('BUDGET_MIN_GUARD_INCLUSIVE', 1 if m1.group(1) == '<=' else 0, 'IndexWriter::new: budget < MIN (0) or <= MIN (1) is refused'),
            D('BUDGET_MAX_GUARD_INCLUSIVE', 0 if m2.group(1) == '>' else 1, 'IndexWriter::new: budget >= MAX (1) or > MAX (0) is refused'),
        ])
    items.append(guards)

    # rollback moves the guard: `_directory_lock.take()` feeds `IndexWriter::new(.., directory_lock)`;
    # it must not call acquire_lock again (0 = moved, 1 = re-acquired)
    def rollback_moves():
        body = fn_body(iw, 'rollback')
        takes = len(re.findall(r'\._directory_lock\s*\.take\(\)', body))
        reacq = len(re.findall(r'acquire_lock|writer_with_options|\.writer\(', body))
        if takes != 1:
            raise Fail(f'{iw}: rollback no longer takes the lock guard out of the writer exactly once')
        return D('ROLLBACK_REACQUIRES', 1 if reacq else 0, 'rollback: guard moved (0) / lock acquired again (1)')
    items.append(rollback_moves)

    # try_acquire_lock: where is the guard built? It must exist only after `open_write` succeeded
    # (otherwise a refused attempt would delete the holder's lock file); built before the flush
    # (1) a failed flush removes the file again, built after it (0) the file is left behind.
    def guard_position():
        dd = 'src/directory/directory.rs'
        body = fn_body(dd, 'try_acquire_lock')
        mo = re.search(r'directory\.open_write\(filepath\)', body)
        mg = re.search(r'DirectoryLockGuard\s*\{', body)
        mf = re.search(r'write\.flush\(\)', body)
        if not (mo and mg and mf):
            raise Fail(f'{dd}::try_acquire_lock: open_write / guard / flush not found in the expected form')
        q = body.find('?', mo.end())
        if q == -1 or mg.start() < q:
            raise Fail(f'{dd}::try_acquire_lock builds the lock guard before open_write has succeeded: a refused acquisition would delete the lock file of the holder (not modelled)')
        return '\n'.join([
            D('LOCK_GUARD_BEFORE_FLUSH', 1 if mg.start() < mf.start() else 0, 'try_acquire_lock: guard built before (1) / after (0) the flush of the new lock file'),
            D('LOCK_GUARD_AFTER_OPEN_WRITE', 1, 'try_acquire_lock: the guard is built only after `open_write(filepath)…?` succeeded'),
        ])
    items.append(guard_position)

    # RamDirectory::open_write: existence test and insertion under ONE write-lock guard (1) or not (0)
    def ram_open_write():
        rd = 'src/directory/ram_directory.rs'
        body = fn_body(rd, 'open_write')
        locks = re.findall(r'self\.fs\.(?:write|read)\(\)', body)
        one_guard = len(locks) == 1 and re.search(r'let\s+mut\s+fs\s*=\s*self\.fs\.write\(\)', body) is not None
        test_and_insert = re.search(r'let\s+exists\s*=\s*fs\.write\(', body) is not None and re.search(r'if\s+exists\s*\{\s*Err\(OpenWriteError::FileAlreadyExists', body) is not None
        insert_is_some = re.search(r'fn\s+write\(&mut\s+self,\s*path:\s*PathBuf,\s*data:\s*&\[u8\]\)\s*->\s*bool\s*\{[^}]*self\.fs\.insert\(path,\s*data\)\.is_some\(\)', strip_comments(src(rd))) is not None
        return D('RAM_OPEN_WRITE_ONE_CRITICAL_SECTION', 1 if (one_guard and test_and_insert and insert_is_some) else 0,
                 'RamDirectory::open_write: `exists = fs.write(path, &[])` (= insert(..).is_some()) under one `self.fs.write()` guard')
    items.append(ram_open_write)

    # rollback: is the guard taken out of `self` only after the replacement writer was built (1) or before (0)?
    def rollback_order():
        body = fn_body(iw, 'rollback')
        mt = re.search(r'\._directory_lock\s*\.take\(\)', body)
        mn = re.search(r'IndexWriter::new\w*\([^;]*\)\?\s*;', body, flags=re.S)
        if not (mt and mn):
            raise Fail(f'{iw}: rollback: `_directory_lock.take()` / `IndexWriter::new…(..)?` not found')
        return D('ROLLBACK_TAKES_GUARD_AFTER_NEW', 1 if mn.end() <= mt.start() else 0,
                 'rollback: the replacement writer is built before (1) / after (0) the guard is taken out of self')
    items.append(rollback_order)
