# Gen/Columnar.lean — constants, guards and closed bit-twiddling functions of the columnar /
# bitpacker / common crates (C08)
# helpers available: const, table, fn_body, fingerprint, eval_const_expr, D, DL, Fail, module, re

# ---- a tiny translator for closed u64 expressions (Rust -> Lean over `BitVec 64`) ------------
# subset: identifiers, integer literals, named constants, `^ & | !`, `!= ==` against 0,
# `as u64/i64` (bit reinterpretation), `.to_bits()`, `f64::from_bits(e)`, `.is_sign_positive()`,
# `let x = e;`, `if c { a } else { b }`. Anything else raises Fail (never silently skipped).
def _bv_tokens(text):
    toks = re.findall(r'f64::from_bits|[A-Za-z_][A-Za-z0-9_]*|\d[\d_]*(?:u64|i64)?|!=|==|<=|>=|[-+*/^&|!(){};.=<>]', text)
    return toks

class _BvParser:
    def __init__(self, toks, consts, what):
        self.t = toks; self.i = 0; self.consts = consts; self.what = what
    def peek(self):
        return self.t[self.i] if self.i < len(self.t) else None
    def eat(self, x=None):
        tok = self.peek()
        if tok is None or (x is not None and tok != x):
            raise Fail(f'{self.what}: expected {x!r} at token {self.i} ({tok!r}) — outside the closed subset')
        self.i += 1
        return tok
    # block := (let x = expr ;)* expr
    def block(self):
        lets = []
        while self.peek() == 'let':
            self.eat('let'); name = self.eat(); self.eat('='); e = self.expr(); self.eat(';')
            lets.append((name, e))
        e = self.expr()
        for name, v in reversed(lets):
            e = f'(let {name} : BitVec 64 := {v}; {e})'
        return e
    def expr(self):
        if self.peek() == 'if':
            self.eat('if'); c = self.cond(); self.eat('{'); a = self.block(); self.eat('}')
            self.eat('else'); self.eat('{'); b = self.block(); self.eat('}')
            return f'(if {c} then {a} else {b})'
        return self.bor()
    def cond(self):
        # `e != 0`, `e == 0`, `x.is_sign_positive()`
        e = self.bor(allow_pred=True)
        if isinstance(e, tuple):
            return e[1]
        op = self.peek()
        if op in ('!=', '=='):
            self.eat(); rhs = self.bor()
            return f'({e} {"≠" if op == "!=" else "="} {rhs})'
        raise Fail(f'{self.what}: condition outside the closed subset')
    def bor(self, allow_pred=False):
        e = self.bxor(allow_pred)
        while self.peek() == '|' and not isinstance(e, tuple):
            self.eat(); e = f'({e} ||| {self.bxor()})'
        return e
    def bxor(self, allow_pred=False):
        e = self.band(allow_pred)
        while self.peek() == '^' and not isinstance(e, tuple):
            self.eat(); e = f'({e} ^^^ {self.band()})'
        return e
    def band(self, allow_pred=False):
        e = self.unary(allow_pred)
        while self.peek() == '&' and not isinstance(e, tuple):
            self.eat(); e = f'({e} &&& {self.unary()})'
        return e
    def unary(self, allow_pred=False):
        if self.peek() == '!':
            self.eat(); return f'(~~~ {self.unary()})'
        return self.postfix(allow_pred)
    def postfix(self, allow_pred=False):
        e = self.atom()
        while True:
            if self.peek() == '.':
                self.eat('.'); m = self.eat(); self.eat('('); self.eat(')')
                if m == 'to_bits':
                    pass
                elif m == 'is_sign_positive' and allow_pred:
                    return ('pred', f'(({e} &&& HIGHEST_BIT_BV) = 0#64)')
                else:
                    raise Fail(f'{self.what}: method .{m}() outside the closed subset')
            elif self.peek() == 'as':
                self.eat('as'); ty = self.eat()
                if ty not in ('u64', 'i64'):
                    raise Fail(f'{self.what}: cast to {ty} outside the closed subset')
            else:
                return e
    def atom(self):
        tok = self.eat()
        if tok == '(':
            e = self.expr(); self.eat(')'); return e
        if tok == 'f64::from_bits':
            self.eat('('); e = self.expr(); self.eat(')'); return e
        if re.fullmatch(r'\d[\d_]*(?:u64|i64)?', tok):
            return f'{int(re.sub(r"(u64|i64)$", "", tok).replace("_", ""))}#64'
        if tok in self.consts:
            return self.consts[tok]
        if re.fullmatch(r'[a-z_][a-z0-9_]*', tok):
            return tok
        raise Fail(f'{self.what}: token {tok!r} outside the closed subset')

def bv_fn(path, fn_name, arg, consts):
    body = fn_body(path, fn_name)
    p = _BvParser(_bv_tokens(body), consts, f'{path}::{fn_name}')
    e = p.block()
    if p.peek() is not None:
        raise Fail(f'{path}::{fn_name}: trailing tokens — outside the closed subset')
    return f'/-- extracted from {path}::{fn_name} (on 64-bit patterns) -/\ndef {fn_name} ({arg} : BitVec 64) : BitVec 64 := {e}'

@module('Columnar')
def gen_columnar(items):
    oi = 'columnar/src/column_index/optional_index/mod.rs'
    de = 'columnar/src/column_index/optional_index/set_block/dense.rs'
    bl = 'columnar/src/column_values/u64_based/blockwise_linear.rs'
    li = 'columnar/src/column_values/u64_based/linear.rs'
    ln = 'columnar/src/column_values/u64_based/line.rs'
    bp = 'bitpacker/src/lib.rs'
    bu = 'bitpacker/src/bitpacker.rs'
    cm = 'common/src/lib.rs'
    env = {}
    def c(name, path, lean_name=None):
        def f():
            v = const(path, name, env)
            env[name] = v
            return D(lean_name or name, v, path)
        items.append(f)
    c('ELEMENTS_PER_BLOCK', oi)
    c('ELEMENTS_PER_MINI_BLOCK', de)
    c('MINI_BLOCK_BITVEC_NUM_BYTES', de)
    c('MINI_BLOCK_OFFSET_NUM_BYTES', de)
    c('MINI_BLOCK_NUM_BYTES', de)
    c('DENSE_BLOCK_NUM_BYTES', de)
    def threshold():
        text = strip_comments(src(oi))
        m = re.search(r'const\s+DENSE_BLOCK_THRESHOLD\s*:\s*u32\s*=\s*([^;]+);', text)
        if not m:
            raise Fail(f'{oi}: DENSE_BLOCK_THRESHOLD not found')
        e = m.group(1).replace('set_block::', '')
        e = re.sub(r'std::mem::size_of::<u16>\(\)', '2', e)
        v = eval_const_expr(e, env)
        env['DENSE_BLOCK_THRESHOLD'] = v
        return D('DENSE_BLOCK_THRESHOLD', v, oi)
    items.append(threshold)
    def is_sparse():
        body = fn_body(oi, 'is_sparse').strip()
        m = re.fullmatch(r'num_rows_in_block\s*(<=|<|>=|>)\s*DENSE_BLOCK_THRESHOLD', body)
        if not m:
            raise Fail(f'{oi}: is_sparse body outside the closed subset: {body!r}')
        op = {'<': '<', '<=': '≤', '>': '>', '>=': '≥'}[m.group(1)]
        return (f'/-- extracted from {oi}::is_sparse -/\n'
                f'def is_sparse (num_rows_in_block : Nat) : Bool := decide (num_rows_in_block {op} DENSE_BLOCK_THRESHOLD)')
    items.append(is_sparse)
    def range_guard():
        # does transform_range_before_linear_transformation refuse a query range that lies entirely
        # below the column minimum (`if *range.end() < stats.min_value { return None; }`)?
        bpk = 'columnar/src/column_values/u64_based/bitpacked.rs'
        body = fn_body(bpk, 'transform_range_before_linear_transformation')
        if not re.search(r'range\.is_empty\(\)', body) or 'saturating_sub(stats.min_value)' not in body:
            raise Fail(f'{bpk}: transform_range_before_linear_transformation outside the modelled shape')
        g = re.search(r'if\s+\*range\.end\(\)\s*<\s*stats\.min_value\s*\{\s*return\s+None\s*;\s*\}', body)
        return (f'/-- extracted from {bpk}::transform_range_before_linear_transformation: is a query range below '
                f'the column minimum refused? -/\n'
                f'def RANGE_BELOW_MIN_GUARD : Bool := {"true" if g else "false"}')
    items.append(range_guard)
    def linear_dev_step():
        # the running (min_deviation, max_deviation) update of LinearCodecEstimator, translated statement
        # by statement: `self.F = self.F.min|max(deviation);`, `self.F = deviation;`,
        # `if deviation <op> self.F { .. } [else if .. { .. }]* [else { .. }]`
        lin = 'columnar/src/column_values/u64_based/linear.rs'
        body = fn_body(lin, 'collect_after_line_estimation')
        m = re.search(r'let\s+deviation\s*=\s*value\.wrapping_add\(HALF_SPACE\)\.wrapping_sub\(interpoled_val\)\s*;(.*?)if\s+self\.row_id\s*==\s*0', body, flags=re.S)
        if not m:
            raise Fail(f'{lin}: collect_after_line_estimation outside the modelled shape (deviation / row_id markers)')
        toks = re.findall(r'self\.min_deviation|self\.max_deviation|deviation|else|if|min|max|<=|>=|[<>=;{}().]', m.group(1))
        joined = re.sub(r'\s+', '', m.group(1))
        if ''.join(toks) != joined:
            raise Fail(f'{lin}: deviation update outside the closed subset: {m.group(1).strip()!r}')
        pos = [0]
        FIELD = {'self.min_deviation': 'mn', 'self.max_deviation': 'mx'}
        def peek():
            return toks[pos[0]] if pos[0] < len(toks) else None
        def eat(x=None):
            t = peek()
            if t is None or (x is not None and t != x):
                raise Fail(f'{lin}: deviation update: expected {x!r}, found {t!r}')
            pos[0] += 1
            return t
        def cond():
            eat('deviation'); op = eat()
            if op not in ('<', '>', '<=', '>='):
                raise Fail(f'{lin}: deviation update: comparison {op!r} outside the closed subset')
            f = eat()
            if f not in FIELD:
                raise Fail(f'{lin}: deviation update: comparison against {f!r}')
            return f'deviation {"≤" if op == "<=" else "≥" if op == ">=" else op} {FIELD[f]}'
        def block():          # stmts until '}' or end; returns a Lean term of type Nat × Nat using mn, mx
            if peek() in (None, '}'):
                return '(mn, mx)'
            if peek() == 'if':
                eat('if'); c = cond(); eat('{'); a = block(); eat('}')
                if peek() == 'else':
                    eat('else')
                    if peek() == 'if':
                        b = block_if_chain()
                    else:
                        eat('{'); b = block(); eat('}')
                else:
                    b = '(mn, mx)'
                rest = block()
                return f'(let p : Nat × Nat := (if {c} then {a} else {b}); let mn := p.1; let mx := p.2; {rest})'
            f = eat()
            if f not in FIELD:
                raise Fail(f'{lin}: deviation update: statement starting with {f!r}')
            eat('=')
            if peek() == 'deviation':
                eat('deviation'); e = 'deviation'
            else:
                g = eat()
                if g != f:
                    raise Fail(f'{lin}: deviation update: {f} assigned from {g}')
                eat('.'); fn = eat()
                if fn not in ('min', 'max'):
                    raise Fail(f'{lin}: deviation update: method {fn!r}')
                eat('('); eat('deviation'); eat(')')
                e = f'Nat.{fn} {FIELD[f]} deviation'
            eat(';')
            rest = block()
            return f'(let {FIELD[f]} := {e}; {rest})'
        def block_if_chain():   # `if c { .. } [else ..]` as the else-branch of an outer if (no trailing stmts)
            eat('if'); c = cond(); eat('{'); a = block(); eat('}')
            if peek() == 'else':
                eat('else')
                if peek() == 'if':
                    b = block_if_chain()
                else:
                    eat('{'); b = block(); eat('}')
            else:
                b = '(mn, mx)'
            return f'(if {c} then {a} else {b})'
        term = block()
        if peek() is not None:
            raise Fail(f'{lin}: deviation update: trailing tokens')
        return (f'/-- extracted from {lin}::LinearCodecEstimator::collect_after_line_estimation: one step of the '
                f'running (min_deviation, max_deviation) -/\n'
                f'def linearDevStep (s : Nat × Nat) (deviation : Nat) : Nat × Nat :=\n'
                f'  let mn := s.1; let mx := s.2; {term}')
    items.append(linear_dev_step)
    def range_u32_conversion():
        # BitUnpacker::get_ids_for_value_range, u32 fast path: the guard on the range start and the
        # conversion of the u64 query range to a u32 range — the source expressions, with
        # `*range.start()` / `*range.end()` renamed `lo` / `hi`, translated by rs2lean
        import importlib.util as ilu
        spec = ilu.spec_from_file_location('rs2lean_c08', os.path.join(os.path.dirname(os.path.abspath(__file__)), 'rs2lean.py'))
        r2l = ilu.module_from_spec(spec); spec.loader.exec_module(r2l)
        body = fn_body(bu, 'get_ids_for_value_range')
        g = re.search(r'if\s+\*range\.start\(\)\s*>\s*([^{]+?)\s*\{\s*positions\.clear\(\)\s*;\s*return\s*;\s*\}', body)
        c = re.search(r'let\s+range_u32\s*=\s*(.+?)\s*\.\.=\s*(.+?)\s*;', body, flags=re.S)
        w = re.search(r'if\s+self\.bit_width\(\)\s*>\s*(\d+)\s*\{\s*self\.get_ids_for_value_range_slow', body)
        if not (g and c and w):
            raise Fail(f'{bu}: get_ids_for_value_range outside the modelled shape')
        def ren(e):
            return e.replace('*range.start()', 'lo').replace('*range.end()', 'hi')
        synth = (f'fn range_lookup_start_too_big(lo: u64, hi: u64) -> bool {{ lo > {ren(g.group(1))} }}\n'
                 f'fn range_lookup_start_u32(lo: u64, hi: u64) -> u32 {{ {ren(c.group(1))} }}\n'
                 f'fn range_lookup_end_u32(lo: u64, hi: u64) -> u32 {{ {ren(c.group(2))} }}\n')
        out = [D('RANGE_LOOKUP_FAST_MAX_BITS', int(w.group(1)), f'{bu}::get_ids_for_value_range: widths above use the slow path')]
        try:
            for fn in ('range_lookup_start_too_big', 'range_lookup_start_u32', 'range_lookup_end_u32'):
                out.append(f'-- translated from {bu}::BitUnpacker::get_ids_for_value_range ({fn})\n' + r2l.translate_fn(synth, fn, {}))
        except r2l.Unsupported as e:
            raise Fail(f'{bu}::get_ids_for_value_range: conversion outside the translatable subset: {e}')
        return '\n'.join(out)
    items.append(range_u32_conversion)
    def serialized_meta():
        return D('SERIALIZED_BLOCK_META_NUM_BYTES', const(oi, 'SERIALIZED_BLOCK_META_NUM_BYTES'), oi)
    items.append(serialized_meta)
    items.append(lambda: D('BLOCKWISE_LINEAR_BLOCK_SIZE', const(bl, 'BLOCK_SIZE'), bl))
    items.append(lambda: D('LINE_ESTIMATION_BLOCK_LEN', const(li, 'LINE_ESTIMATION_BLOCK_LEN'), li))
    items.append(lambda: D('HALF_SPACE', const(li, 'HALF_SPACE'), li))
    items.append(lambda: D('MID_POINT', const(ln, 'MID_POINT'), ln))
    def num_bits_guard():
        body = fn_body(bp, 'compute_num_bits')
        m = re.search(r'let\s+amplitude\s*=\s*\(64u32\s*-\s*n\.leading_zeros\(\)\)\s*as\s*u8\s*;\s*'
                      r'if\s+amplitude\s*<=\s*([0-9 \-+*]+)\s*\{\s*amplitude\s*\}\s*else\s*\{\s*(\d+)\s*\}', body)
        if not m:
            raise Fail(f'{bp}: compute_num_bits outside the closed subset')
        lim = eval_const_expr(m.group(1), {})
        return (D('BITPACK_MAX_NARROW_BITS', lim, f'{bp}::compute_num_bits guard') + '\n' +
                D('BITPACK_WIDE_BITS', int(m.group(2)), f'{bp}::compute_num_bits else branch'))
    items.append(num_bits_guard)
    def unpacker_guard():

        text = strip_comments(src(bu))
        m = re.search(r'assert!\(num_bits\s*<=\s*([0-9 *+\-]+)\s*\|\|\s*num_bits\s*==\s*(\d+)\s*\)', text)
        if not m:
            raise Fail(f'{bu}: BitUnpacker::new width guard not found')
        return (D('UNPACKER_MAX_NARROW_BITS', eval_const_expr(m.group(1), {}), f'{bu}::BitUnpacker::new assert') + '\n' +
                D('UNPACKER_WIDE_BITS', int(m.group(2)), f'{bu}::BitUnpacker::new assert'))
    items.append(unpacker_guard)
    def highest():
        v = const(cm, 'HIGHEST_BIT')
        env['HIGHEST_BIT'] = v
        return D('HIGHEST_BIT', v, cm) + f'\ndef HIGHEST_BIT_BV : BitVec 64 := {v}#64'
    items.append(lambda: 'namespace Col')
    items.append(highest)
    consts = {'HIGHEST_BIT': 'HIGHEST_BIT_BV'}
    items.append(lambda: bv_fn(cm, 'i64_to_u64', 'val', consts))
    items.append(lambda: bv_fn(cm, 'u64_to_i64', 'val', consts))
    items.append(lambda: bv_fn(cm, 'f64_to_u64', 'val', consts))
    items.append(lambda: bv_fn(cm, 'u64_to_f64', 'val', consts))
    items.append(lambda: 'end Col')
