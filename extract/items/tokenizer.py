# Gen/Tokenizer.lean — tokenizer / snippet constants and tables (C19)
# helpers available: const, table, fn_body, fingerprint, eval_const_expr, D, DL, Fail, module, re, src, strip_comments
@module('Tokenizer')
def gen_tokenizer(items):
    ng = 'src/tokenizer/ngram_tokenizer.rs'
    sn = 'src/snippet/mod.rs'
    items.append(lambda: DL('CODEPOINT_UTF8_WIDTH', table(ng, 'CODEPOINT_UTF8_WIDTH'),
                            'ngram_tokenizer.rs: UTF-8 width by the high nibble of the first byte'))

    def width_shift():
        # fn utf8_codepoint_width(b: u8) -> usize { let higher_4_bits = (b as usize) >> 4; TABLE[higher_4_bits] as usize }
        body = fn_body(ng, 'utf8_codepoint_width')
        m = re.search(r'let\s+(\w+)\s*=\s*\(\s*b\s+as\s+usize\s*\)\s*>>\s*(\d+)\s*;\s*CODEPOINT_UTF8_WIDTH\s*\[\s*(\w+)\s*\]\s*as\s+usize\s*$', body.strip())
        if not m or m.group(1) != m.group(3):
            raise Fail(f'{ng}: utf8_codepoint_width is no longer `CODEPOINT_UTF8_WIDTH[(b as usize) >> k]`')
        return D('UTF8_WIDTH_SHIFT', int(m.group(2)), 'utf8_codepoint_width: index = first byte >> this')
    items.append(width_shift)

    def frontier_step():
        # CodepointFrontiers::next advances by utf8_codepoint_width(first byte)
        body = fn_body(ng, 'next')  # first `fn next` is StutteringIterator's; find the frontier one explicitly
        text = strip_comments(src(ng))
        m = re.search(r'impl\s+Iterator\s+for\s+CodepointFrontiers.*?fn\s+next.*?\{(.*?)\n\}\n', text, flags=re.S)
        if not m:
            raise Fail(f'{ng}: CodepointFrontiers iterator not found')
        b = m.group(1)
        if not re.search(r'utf8_codepoint_width\(\s*self\.s\.as_bytes\(\)\[0\]\s*\)', b) or \
           not re.search(r'self\.next_el\s*=\s*Some\(\s*offset\s*\+\s*first_codepoint_width\s*\)', b):
            raise Fail(f'{ng}: CodepointFrontiers::next no longer advances by the width of the first byte')
        return D('FRONTIER_STEP_IS_FIRST_BYTE_WIDTH', 1, 'CodepointFrontiers::next: offset + utf8_codepoint_width(bytes[0])')
    items.append(frontier_step)

    items.append(lambda: D('DEFAULT_MAX_NUM_CHARS', const(sn, 'DEFAULT_MAX_NUM_CHARS'), sn))
    items.append(lambda: D('FACET_SEP_BYTE', const('src/schema/facet.rs', 'FACET_SEP_BYTE'), 'src/schema/facet.rs'))

    def remove_long_default():
        text = strip_comments(src('src/tokenizer/tokenizer_manager.rs'))
        m = re.search(r'register\(\s*"default"\s*,\s*TextAnalyzer::builder\(SimpleTokenizer::default\(\)\)\s*\.filter\(RemoveLongFilter::limit\((\d+)\)\)', text)
        if not m:
            raise Fail('tokenizer_manager.rs: default analyzer no longer starts with RemoveLongFilter::limit(n)')
        return D('DEFAULT_REMOVE_TOKEN_LENGTH', int(m.group(1)), 'tokenizer_manager.rs: "default" analyzer RemoveLongFilter limit')
    items.append(remove_long_default)

    def remove_long_strict():
        body = fn_body('src/tokenizer/remove_long.rs', 'predicate')
        m = re.search(r'token\.text\.len\(\)\s*(<=|<)\s*self\.token_length_limit', body)
        if not m:
            raise Fail('remove_long.rs: predicate is no longer `token.text.len() < limit`')
        return D('REMOVE_LONG_KEEPS_EQUAL', 1 if m.group(1) == '<=' else 0, 'remove_long.rs predicate: 0 = strict `<` (a token of exactly `limit` bytes is removed)')
    items.append(remove_long_strict)

    def snippet_tags():
        text = strip_comments(src(sn))
        a = re.search(r'const\s+DEFAULT_SNIPPET_PREFIX\s*:\s*&str\s*=\s*"([^"]*)"', text)
        b = re.search(r'const\s+DEFAULT_SNIPPET_POSTFIX\s*:\s*&str\s*=\s*"([^"]*)"', text)
        if not a or not b:
            raise Fail(f'{sn}: snippet prefix/postfix constants not found')
        return DL('SNIPPET_PREFIX', [ord(ch) for ch in a.group(1)], 'DEFAULT_SNIPPET_PREFIX as scalar values') + '\n' + \
               DL('SNIPPET_POSTFIX', [ord(ch) for ch in b.group(1)], 'DEFAULT_SNIPPET_POSTFIX as scalar values')
    items.append(snippet_tags)

    def stop_offset_rule():
        # FragmentCandidate::try_add_token: how the fragment's stop offset follows the tokens
        body = fn_body(sn, 'try_add_token')
        if re.search(r'self\.stop_offset\s*=\s*token\.offset_to\s*;', body):
            return D('SNIPPET_STOP_OFFSET_IS_MAX', 0, 'try_add_token: `self.stop_offset = token.offset_to` (0 = plain assignment, 1 = running maximum)')
        if re.search(r'self\.stop_offset\s*=\s*self\.stop_offset\.max\(\s*token\.offset_to\s*\)\s*;', body) or \
           re.search(r'self\.stop_offset\s*=\s*(?:std::cmp::)?max\(\s*self\.stop_offset\s*,\s*token\.offset_to\s*\)\s*;', body):
            return D('SNIPPET_STOP_OFFSET_IS_MAX', 1, 'try_add_token: `self.stop_offset = self.stop_offset.max(token.offset_to)` (0 = plain assignment, 1 = running maximum)')
        raise Fail(f'{sn}: try_add_token no longer sets stop_offset to token.offset_to or to the running maximum')
    items.append(stop_offset_rule)

    def split_clears():
        # SplitCompoundWordsFilter keeps `cuts` and `parts` in the tokenizer (reused by every stream)
        f = 'src/tokenizer/split_compound_words.rs'
        body = fn_body(f, 'token_stream')
        if 'SplitCompoundWordsTokenStream' not in body:
            raise Fail(f'{f}: token_stream no longer builds a SplitCompoundWordsTokenStream')
        if not re.search(r'parts\s*:\s*&mut\s+self\.parts', body):
            raise Fail(f'{f}: the stream no longer borrows the `parts` buffer of the tokenizer')
        cleared = bool(re.search(r'self\.parts\.clear\(\)\s*;', body))
        return D('SPLIT_COMPOUND_CLEARS_PARTS', 1 if cleared else 0,
                 'SplitCompoundWordsFilter::token_stream: 1 = `self.parts.clear()` before the stream is built')
    items.append(split_clears)

    def tokenizers_reset():
        # every scanning tokenizer keeps its Token in the tokenizer and must reset it per stream
        names = ['simple_tokenizer', 'whitespace_tokenizer', 'regex_tokenizer', 'ngram_tokenizer', 'facet_tokenizer', 'raw_tokenizer']
        ok = all(re.search(r'self\.token\.reset\(\)\s*;', fn_body(f'src/tokenizer/{n}.rs', 'token_stream')) for n in names)
        return D('TOKENIZERS_RESET_TOKEN', 1 if ok else 0,
                 '1 = every built-in tokenizer calls `self.token.reset()` in token_stream')
    items.append(tokenizers_reset)

    def reset_position():
        body = fn_body('tokenizer-api/src/lib.rs', 'reset')
        m = re.search(r'self\.position\s*=\s*usize::MAX\s*;', body)
        return D('TOKEN_RESET_POSITION_IS_MAX', 1 if m else 0,
                 'Token::reset: 1 = `self.position = usize::MAX` (the first `wrapping_add(1)` gives position 0)')
    items.append(reset_position)

    def buffer_clears():
        # filters that build the rewritten text in a reusable String and swap it with the token text
        lo = fn_body('src/tokenizer/lower_caser.rs', 'to_lowercase_unicode')
        fo = fn_body('src/tokenizer/ascii_folding_filter.rs', 'to_ascii')
        st = fn_body('src/tokenizer/stemmer.rs', 'advance')
        a = 1 if re.match(r'\s*output\.clear\(\)\s*;', lo) else 0
        b = 1 if re.match(r'\s*output\.clear\(\)\s*;', fo) else 0
        c = 1 if re.search(r'self\.buffer\.clear\(\)\s*;\s*self\.buffer\.push_str\(', st) else 0
        return D('LOWERCASER_CLEARS_OUTPUT', a, 'lower_caser.rs to_lowercase_unicode starts with `output.clear()`') + '\n' + \
               D('ASCII_FOLDING_CLEARS_OUTPUT', b, 'ascii_folding_filter.rs to_ascii starts with `output.clear()`') + '\n' + \
               D('STEMMER_CLEARS_BUFFER', c, 'stemmer.rs advance: `self.buffer.clear()` before `push_str`')
    items.append(buffer_clears)

    def ngram_new_guards():
        body = fn_body(ng, 'new')
        a = 1 if re.search(r'if\s+min_gram\s*==\s*0\s*\{\s*return\s+Err', body) else 0
        b = 1 if re.search(r'if\s+min_gram\s*>\s*max_gram\s*\{\s*return\s+Err', body) else 0
        return D('NGRAM_NEW_REJECTS_ZERO_MIN', a, 'NgramTokenizer::new: `if min_gram == 0 { return Err(..) }`') + '\n' + \
               D('NGRAM_NEW_REJECTS_MIN_GT_MAX', b, 'NgramTokenizer::new: `if min_gram > max_gram { return Err(..) }`')
    items.append(ngram_new_guards)
