# Gen/OrderEnc.lean — order-preserving value encodings (C03; used for range bounds and sort keys)
# i64_to_u64 / f64_to_u64 are translated from common/src/lib.rs as functions on 64-bit patterns.
# The translator accepts only the closed subset below and fails loudly otherwise.
def _bv_expr(e):
    """Rust integer expression over {val, bits, HIGHEST_BIT, ^ & | ! ( ) `as u64`} -> Lean BitVec 64"""
    e = e.strip()
    e = re.sub(r'\bas\s+u64\b', '', e)
    toks = re.findall(r'[A-Za-z_][A-Za-z0-9_]*|\^|&|\||!|\(|\)|\S', e)
    out = []
    for t in toks:
        if t in ('val', 'bits'):
            out.append('bits')
        elif t == 'HIGHEST_BIT':
            out.append('(BitVec.ofNat 64 HIGHEST_BIT)')
        elif t == '^':
            out.append('^^^')
        elif t == '&':
            out.append('&&&')
        elif t == '|':
            out.append('|||')
        elif t == '!':
            out.append('~~~')
        elif t in '()':
            out.append(t)
        else:
            raise Fail(f'common/src/lib.rs: token {t!r} outside the translated subset in {e!r}')
    return ' '.join(out)

@module('OrderEnc')
def gen_orderenc(items):
    f = 'common/src/lib.rs'
    items.append(lambda: D('HIGHEST_BIT', const(f, 'HIGHEST_BIT'), f))
    def i64():
        body = ' '.join(fn_body(f, 'i64_to_u64').split())
        return ('/-- common/src/lib.rs::i64_to_u64 on the two\'s-complement bit pattern -/\n'
                f'def i64_to_u64 (bits : BitVec 64) : BitVec 64 := {_bv_expr(body)}')
    items.append(i64)
    def f64():
        body = ' '.join(fn_body(f, 'f64_to_u64').split())
        m = re.fullmatch(r'let bits = val\.to_bits\(\) ; if val\.is_sign_positive\(\) \{(.*?)\} else \{(.*?)\}',
                         re.sub(r'\s*;\s*', ' ; ', body).strip())
        if not m:
            raise Fail(f'{f}: f64_to_u64 is no longer `let bits = val.to_bits(); if val.is_sign_positive() {{..}} else {{..}}`: {body!r}')
        return ('/-- common/src/lib.rs::f64_to_u64 on the IEEE-754 bit pattern (`is_sign_positive` = sign bit clear) -/\n'
                f'def f64_to_u64 (bits : BitVec 64) : BitVec 64 :=\n  if bits.msb = false then {_bv_expr(m.group(1))} else {_bv_expr(m.group(2))}')
    items.append(f64)
    items.append(lambda: f'def fp_i64_to_u64 : String := "{fingerprint(f, "i64_to_u64")}"')
    items.append(lambda: f'def fp_f64_to_u64 : String := "{fingerprint(f, "f64_to_u64")}"')
