# Gen/Store.lean — doc store / binary document codec constants (C09)
# helpers available: const, table, fn_body, fingerprint, eval_const_expr, D, DL, Fail, module, re, src, strip_comments
@module('Store')
def gen_store(items):
    tc = 'src/schema/document/mod.rs'
    for name in ['TEXT_CODE', 'U64_CODE', 'I64_CODE', 'HIERARCHICAL_FACET_CODE', 'BYTES_CODE', 'DATE_CODE',
                 'F64_CODE', 'EXT_CODE', 'JSON_OBJ_CODE', 'BOOL_CODE', 'IP_CODE', 'NULL_CODE', 'ARRAY_CODE',
                 'OBJECT_CODE', 'TOK_STR_EXT_CODE']:
        items.append(lambda name=name: D(name, const(tc, name), tc + ' type_codes'))
    items.append(lambda: D('VINT_STOP_BIT', const('common/src/vint.rs', 'STOP_BIT'), 'common/src/vint.rs'))
    items.append(lambda: D('CHECKPOINT_PERIOD', const('src/store/index/mod.rs', 'CHECKPOINT_PERIOD'), 'src/store/index/mod.rs'))
    items.append(lambda: D('DOCSTORE_CACHE_CAPACITY', const('src/store/reader.rs', 'DOCSTORE_CACHE_CAPACITY'), 'src/store/reader.rs'))

    def default_blocksize():
        body = fn_body('src/index/index_meta.rs', 'default_docstore_blocksize')
        return D('DEFAULT_DOCSTORE_BLOCKSIZE', eval_const_expr(body, {}), 'src/index/index_meta.rs default_docstore_blocksize')
    items.append(default_blocksize)

    def footer_size():
        text = strip_comments(src('src/store/footer.rs'))
        m = re.search(r'impl\s+FixedSize\s+for\s+DocStoreFooter\s*\{\s*const\s+SIZE_IN_BYTES\s*:\s*usize\s*=\s*([^;]+);', text)
        if not m:
            raise Fail('src/store/footer.rs: DocStoreFooter::SIZE_IN_BYTES not found')
        return D('DOCSTORE_FOOTER_LEN', eval_const_expr(m.group(1), {}), 'src/store/footer.rs DocStoreFooter::SIZE_IN_BYTES')
    items.append(footer_size)

    def footer_padding():
        body = fn_body('src/store/footer.rs', 'serialize')
        m = re.search(r'write_all\(\s*&\[\s*0\s*;\s*(\d+)\s*\]\s*\)', body)
        if not m:
            raise Fail('src/store/footer.rs: reserved padding of DocStoreFooter::serialize not found')
        return D('DOCSTORE_FOOTER_PADDING', int(m.group(1)), 'src/store/footer.rs reserved bytes')
    items.append(footer_padding)

    def store_version():
        text = strip_comments(src('src/store/mod.rs'))
        m = re.search(r'const\s+DOC_STORE_VERSION\s*:\s*DocStoreVersion\s*=\s*DocStoreVersion::(\w+)\s*;', text)
        if not m:
            raise Fail('src/store/mod.rs: DOC_STORE_VERSION not found')
        rd = strip_comments(src('src/store/reader.rs'))
        m2 = re.search(r'\b' + m.group(1) + r'\s*=\s*(\d+)', rd)
        if not m2:
            raise Fail('src/store/reader.rs: discriminant of DocStoreVersion::' + m.group(1) + ' not found')
        return D('DOC_STORE_VERSION', int(m2.group(1)), 'src/store/mod.rs DOC_STORE_VERSION')
    items.append(store_version)

    def index_entry_cost():
        # check_flush_block: `self.doc_pos.len() * std::mem::size_of::<usize>()` (64-bit target: 8)
        body = fn_body('src/store/writer.rs', 'check_flush_block')
        m = re.search(r'doc_pos\.len\(\)\s*\*\s*(?:std::mem::)?size_of::<(\w+)>\(\)', body)
        if not m:
            raise Fail('src/store/writer.rs: index length estimate of check_flush_block not found')
        size = {'usize': 8, 'u64': 8, 'u32': 4, 'u16': 2, 'u8': 1}.get(m.group(1))
        if size is None:
            raise Fail('src/store/writer.rs: unknown size_of type ' + m.group(1))
        if not re.search(r'current_block\.len\(\)\s*\+\s*index_len\s*>\s*self\.block_size', body):
            raise Fail('src/store/writer.rs: flush rule `current_block.len() + index_len > block_size` not found')
        return D('STORE_INDEX_ENTRY_COST', size, 'src/store/writer.rs check_flush_block size_of::<%s>() on a 64-bit target' % m.group(1))
    items.append(index_entry_cost)

    def stack_min_blocks():
        body = fn_body('src/indexer/merger.rs', 'write_storable_fields')
        m = re.search(r'block_checkpoints\(\)\s*\.take\(\s*(\d+)\s*\)\s*\.count\(\)\s*<\s*(\d+)', body)
        if not m:
            raise Fail('src/indexer/merger.rs: stacking guard (number of blocks) not found')
        if int(m.group(1)) < int(m.group(2)):
            raise Fail('src/indexer/merger.rs: take(%s).count() < %s can never be false' % (m.group(1), m.group(2)))
        if not re.search(r'if\s+reader\.has_deletes\(\)\s*\|\|', body):
            raise Fail('src/indexer/merger.rs: stacking guard `reader.has_deletes() ||` not found')
        return D('STACK_MIN_BLOCKS', int(m.group(2)), 'src/indexer/merger.rs write_storable_fields: stack only with at least this many blocks')
    items.append(stack_min_blocks)

    def decompressor_ids():
        body = fn_body('src/store/decompressors.rs', 'get_id')
        out = []
        for name in ['None', 'Lz4', 'Zstd']:
            m = re.search(r'Self::' + name + r'\s*=>\s*(\d+)', body)
            if not m:
                raise Fail('src/store/decompressors.rs: id of Decompressor::' + name + ' not found')
            out.append(D('DECOMPRESSOR_ID_' + name.upper(), int(m.group(1)), 'src/store/decompressors.rs get_id'))
        return '\n'.join(out)
    items.append(decompressor_ids)
