# Gen/Store.lean — doc store / binary document codec constants (C09)
# helpers available: const, table, fn_body, fingerprint, eval_const_expr, D, DL, Fail, module, re, src, strip_comments
@module('Store')
def gen_store(items):
    tc = 'src/schema/document/mod.rs'
    for name in ['TEXT_CODE', 'U64_CODE', 'I64_CODE', 'HIERARCHICAL_FACET_CODE', 'BYTES_CODE', 'DATE_CODE',
                 'F64_CODE', 'EXT_CODE', 'JSON_OBJ_CODE', 'BOOL_CODE', 'IP_CODE', 'NULL_CODE', 'ARRAY_CODE',
                 'OBJECT_CODE', 'TOK_STR_EXT_CODE']:
        items.append(lambda name=name: D(name, const(tc, name), tc + ' type_codes'))
    items.append(lambda: D('VINT_STOP_BIT', const('common/src/vint.rs', 'STOP_BIT'), 'common/src/vint.rs'))
    items.append(lambda: D('CHECKPOINT_PERIOD', const('src/store/index/mod.rs', 'CHECKPOINT_PERIOD'), 'src/store/index/mod.rs'))
    items.append(lambda: D('DOCSTORE_CACHE_CAPACITY', const('src/store/reader.rs', 'DOCSTORE_CACHE_CAPACITY'), 'src/store/reader.rs'))

    def default_blocksize():
        body = fn_body('src/index/index_meta.rs', 'default_docstore_blocksize')
        return D('DEFAULT_DOCSTORE_BLOCKSIZE', eval_const_expr(body, {}), 'src/index/index_meta.rs default_docstore_blocksize')
    items.append(default_blocksize)

    def footer_size():
        text = strip_comments(src('src/store/footer.rs'))
        m = re.search(r'impl\s+FixedSize\s+for\s+DocStoreFooter\s*\{\s*const\s+SIZE_IN_BYTES\s*:\s*usize\s*=\s*([^;]+);', text)
        if not m:
            raise Fail('src/store/footer.rs: DocStoreFooter::SIZE_IN_BYTES not found')
        return D('DOCSTORE_FOOTER_LEN', eval_const_expr(m.group(1), {}), 'src/store/footer.rs DocStoreFooter::SIZE_IN_BYTES')
    items.append(footer_size)

    def footer_padding():
        body = fn_body('src/store/footer.rs', 'serialize')
        m = re.search(r'write_all\(\s*&\[\s*0\s*;\s*(\d+)\s*\]\s*\)', body)
        if not m:
            raise Fail('src/store/footer.rs: reserved padding of DocStoreFooter::serialize not found')
        return D('DOCSTORE_FOOTER_PADDING', int(m.group(1)), 'src/store/footer.rs reserved bytes')
    items.append(footer_padding)

    def store_version():
        text = strip_comments(src('src/store/mod.rs'))
        m = re.search(r'const\s+DOC_STORE_VERSION\s*:\s*DocStoreVersion\s*=\s*DocStoreVersion::(\w+)\s*;', text)
        if not m:
            raise Fail('src/store/mod.rs: DOC_STORE_VERSION not found')
        rd = strip_comments(src('src/store/reader.rs'))
        m2 = re.search(r'\b' + m.group(1) + r'\s*=\s*(\d+)', rd)
        if not m2:
            raise Fail('src/store/reader.rs: discriminant of DocStoreVersion::' + m.group(1) + ' not found')
        return D('DOC_STORE_VERSION', int(m2.group(1)), 'src/store/mod.rs DOC_STORE_VERSION')
    items.append(store_version)

    def index_entry_cost():
        # check_flush_block: `self.doc_pos.len() * std::mem::size_of::<usize>()` (64-bit target: 8)
        body = fn_body('src/store/writer.rs', 'check_flush_block')
        m = re.search(r'doc_pos\.len\(\)\s*\*\s*(?:std::mem::)?size_of::<(\w+)>\(\)', body)
        if not m:
            raise Fail('src/store/writer.rs: index length estimate of check_flush_block not found')
        size = {'usize': 8, 'u64': 8, 'u32': 4, 'u16': 2, 'u8': 1}.get(m.group(1))
        if size is None:
            raise Fail('src/store/writer.rs: unknown size_of type ' + m.group(1))
        if not re.search(r'current_block\.len\(\)\s*\+\s*index_len\s*>\s*self\.block_size', body):
            raise Fail('src/store/writer.rs: flush rule `current_block.len() + index_len > block_size` not found')
        return D('STORE_INDEX_ENTRY_COST', size, 'src/store/writer.rs check_flush_block size_of::<%s>() on a 64-bit target' % m.group(1))
    items.append(index_entry_cost)

    def stack_min_blocks():
        body = fn_body('src/indexer/merger.rs', 'write_storable_fields')
        m = re.search(r'block_checkpoints\(\)\s*\.take\(\s*(\d+)\s*\)\s*\.count\(\)\s*<\s*(\d+)', body)
        if not m:
            raise Fail('src/indexer/merger.rs: stacking guard (number of blocks) not found')
        if int(m.group(1)) < int(m.group(2)):
            raise Fail('src/indexer/merger.rs: take(%s).count() < %s can never be false' % (m.group(1), m.group(2)))
        if not re.search(r'if\s+reader\.has_deletes\(\)\s*\|\|', body):
            raise Fail('src/indexer/merger.rs: stacking guard `reader.has_deletes() ||` not found')
        return D('STACK_MIN_BLOCKS', int(m.group(2)), 'src/indexer/merger.rs write_storable_fields: stack only with at least this many blocks')
    items.append(stack_min_blocks)

    def stack_codec_clause():
        # third clause of the copy-instead-of-stack condition: the source's decompressor against
        # the writer's compressor, with the comparison operator as written
        body = fn_body('src/indexer/merger.rs', 'write_storable_fields')
        m = re.search(r'\|\|\s*store_reader\.decompressor\(\)\s*(!=|==)\s*store_writer\.compressor\(\)\.into\(\)\s*\{', body)
        if not m:
            raise Fail('src/indexer/merger.rs: codec clause `|| store_reader.decompressor() <op> store_writer.compressor().into()` of the stacking guard not found')
        return D('STACK_CODEC_CLAUSE_IS_NE', 1 if m.group(1) == '!=' else 0,
                 'src/indexer/merger.rs write_storable_fields: 1 if the codec clause of the copy condition is `decompressor != compressor`, 0 if `==`')
    items.append(stack_codec_clause)

    def decompressor_ids():
        body = fn_body('src/store/decompressors.rs', 'get_id')
        out = []
        for name in ['None', 'Lz4', 'Zstd']:
            m = re.search(r'Self::' + name + r'\s*=>\s*(\d+)', body)
            if not m:
                raise Fail('src/store/decompressors.rs: id of Decompressor::' + name + ' not found')
            out.append(D('DECOMPRESSOR_ID_' + name.upper(), int(m.group(1)), 'src/store/decompressors.rs get_id'))
        return '\n'.join(out)
    items.append(decompressor_ids)

    # ---- common/src/vint.rs::serialize_vint_u32: the unrolled ladder that length-prefixes every
    # string / bytes / child table inside CompactDoc (write_bytes_into) ----
    def vint_u32_ladder():
        f = 'common/src/vint.rs'
        # the signature contains `[u8; 8]`, which the generic fn_body pattern does not accept
        text = strip_comments(src(f))
        m0 = re.search(r'\bfn\s+serialize_vint_u32\b', text)
        if not m0:
            raise Fail(f + ': fn serialize_vint_u32 not found')
        i = m0.end(); depth = 0
        while i < len(text) and not (text[i] == '{' and depth == 0):
            depth += (text[i] in '([') - (text[i] in ')]')
            i += 1
        j = i + 1; depth = 1
        while depth and j < len(text):
            depth += (text[j] == '{') - (text[j] == '}')
            j += 1
        body = text[i + 1:j - 1]
        env = {}
        for k in (2, 3, 4, 5):
            m = re.search(r'const\s+START_%d\s*:\s*u64\s*=\s*([^;]+);' % k, body)
            if not m:
                raise Fail(f + ': START_%d not found' % k)
            env['START_%d' % k] = eval_const_expr(m.group(1), env)
        m = re.search(r'const\s+MASK_1\s*:\s*u64\s*=\s*([^;]+);', body)
        if not m or eval_const_expr(m.group(1), {}) != 127:
            raise Fail(f + ': MASK_1 is not 127')
        for k in (2, 3, 4, 5):
            if not re.search(r'const\s+MASK_%d\s*:\s*u64\s*=\s*MASK_%d\s*<<\s*7\s*;' % (k, k - 1), body):
                raise Fail(f + ': MASK_%d is not MASK_%d << 7' % (k, k - 1))
        conds = list(re.finditer(r'(?:else\s+)?if\s+val\s*(<=|<)\s*(START_\d)\s*\{', body))
        if len(conds) != 4:
            raise Fail(f + ': expected 4 threshold tests in serialize_vint_u32, found %d' % len(conds))
        last_else = re.search(r'\}\s*else\s*\{', body[conds[-1].end():])
        if not last_else:
            raise Fail(f + ': final else branch of serialize_vint_u32 not found')
        cut = [c.end() for c in conds] + [conds[-1].end() + last_else.end()]
        starts = [c.start() for c in conds[1:]] + [conds[-1].end() + last_else.start(), len(body)]
        branches = []
        for i in range(5):
            seg = body[cut[i]:starts[i]] if i < 4 else body[cut[4]:body.index('*buf', cut[4])]
            nb = re.findall(r',\s*(\d+)\s*,?\s*\)', seg)
            if not nb:
                raise Fail(f + ': number of bytes of branch %d not found' % (i + 1))
            n = int(nb[-1])
            masks = sorted(set(int(x) for x in re.findall(r'MASK_(\d)', seg)))
            if n == 1:
                if not re.search(r'val\s*\|\s*STOP_BIT', seg):
                    raise Fail(f + ': one-byte branch is not `val | STOP_BIT`')
            else:
                if masks != list(range(1, n + 1)):
                    raise Fail(f + ': branch with %d bytes uses masks %r' % (n, masks))
                for j in range(2, n + 1):
                    if not re.search(r'\(val\s*&\s*MASK_%d\)\s*<<\s*%d\b' % (j, j - 1), seg):
                        raise Fail(f + ': branch with %d bytes does not shift group %d by %d' % (n, j, j - 1))
                sh = re.search(r'STOP_BIT\s*<<\s*\(\s*8\s*(?:\*\s*(\d+))?\s*\)', seg)
                if not sh or int(sh.group(1) or 1) != n - 1:
                    raise Fail(f + ': stop bit of the %d-byte branch is not at byte %d' % (n, n - 1))
            branches.append(n)
        parts = []
        for c, n in zip(conds, branches[:4]):
            op = '<' if c.group(1) == '<' else '≤'
            parts.append('if v %s %d then %d' % (op, env[c.group(2)], n))
        expr = ' else '.join(parts) + ' else %d' % branches[4]
        return ('/-- `serialize_vint_u32`: the number of bytes its threshold ladder selects (comparison operators\n'
                'and thresholds as in the source) -/\n'
                'def vintU32NumBytes (v : Nat) : Nat := ' + expr)
    items.append(vint_u32_ladder)

    def vint_len_limit():
        body = fn_body('common/src/vint.rs', 'vint_len')
        m = re.search(r'\.take\(\s*(\d+)\s*\)', body)
        if not m:
            raise Fail('common/src/vint.rs: scan limit of vint_len not found')
        return D('VINT_U32_MAX_LEN', int(m.group(1)), 'common/src/vint.rs vint_len scans at most this many bytes')
    items.append(vint_len_limit)

    # ---- src/schema/document/owned_value.rs: classification of a JSON number ----
    def json_number_dispatch():
        f = 'src/schema/document/owned_value.rs'
        text = strip_comments(src(f))
        m = re.search(r'impl\s+From<serde_json::Value>\s+for\s+OwnedValue\s*\{', text)
        if not m:
            raise Fail(f + ': impl From<serde_json::Value> for OwnedValue not found')
        seg = text[m.end():]
        m2 = re.search(r'serde_json::Value::Number\(number\)\s*=>\s*\{', seg)
        m3 = re.search(r'serde_json::Value::String', seg)
        if not m2 or not m3:
            raise Fail(f + ': number arm of From<serde_json::Value> not found')
        arm = seg[m2.end():m3.start()]
        order = re.findall(r'number\.as_(i64|u64|f64)\(\)', arm)
        if sorted(order) != ['f64', 'i64', 'u64']:
            raise Fail(f + ': number arm does not try as_i64 / as_u64 / as_f64 exactly once each: %r' % order)
        ctor = {'i64': 'I64', 'u64': 'U64', 'f64': 'F64'}
        for t in order:
            if not re.search(r'number\.as_%s\(\)\s*\{\s*Self::%s\(val\)' % (t, ctor[t]), arm):
                raise Fail(f + ': as_%s does not build Self::%s' % (t, ctor[t]))
        code = {'i64': 0, 'u64': 1, 'f64': 2}
        return DL('JSON_NUMBER_DISPATCH', [code[t] for t in order],
                  'order in which From<serde_json::Value> for OwnedValue tries the number types (0 = as_i64, 1 = as_u64, 2 = as_f64)')
    items.append(json_number_dispatch)

    # ---- src/schema/document/default_document.rs: type ids of the values a CompactDoc holds ----
    def compact_doc_type_ids():
        f = 'src/schema/document/default_document.rs'
        text = strip_comments(src(f))
        m = re.search(r'pub\s+enum\s+ValueType\s*\{(.*?)\}', text, flags=re.S)
        if not m:
            raise Fail(f + ': enum ValueType not found')
        ids = dict((n, int(v)) for n, v in re.findall(r'(\w+)\s*=\s*(\d+)\s*,', m.group(1)))
        want = ['Null', 'Str', 'U64', 'I64', 'F64', 'Date', 'Facet', 'Bytes', 'IpAddr', 'Bool', 'PreTokStr', 'Object', 'Array']
        if sorted(ids) != sorted(want):
            raise Fail(f + ': ValueType variants are %r' % sorted(ids))
        m2 = re.search(r'\(0\.\.=(\d+)\)\.contains\(&num\)', text)
        if not m2 or int(m2.group(1)) != max(ids.values()):
            raise Fail(f + ': ValueType::deserialize does not accept exactly 0..=max discriminant')
        return '\n'.join(D('CD_TYPE_' + n.upper(), ids[n], f + ' ValueType::' + n) for n in want)
    items.append(compact_doc_type_ids)

    # ---- src/indexer/segment_serializer.rs: the temporary store of a segment that will be remapped ----
    def temp_store_settings():
        f = 'src/indexer/segment_serializer.rs'
        text = strip_comments(src(f))
        m = re.search(r'if\s+remapping_required\s*\{.*?StoreWriter::new\(\s*store_write\s*,\s*Compressor::(\w+)\s*,\s*([0-9_]+)\s*,', text, flags=re.S)
        if not m:
            raise Fail(f + ': StoreWriter::new of the temporary doc store not found')
        if m.group(1) != 'None':
            raise Fail(f + ': the temporary doc store is not written with Compressor::None but ' + m.group(1))
        return D('TEMP_STORE_BLOCKSIZE', int(m.group(2).replace('_', '')), f + ' block size of the temporary (compressor none) doc store')
    items.append(temp_store_settings)

    # ---- src/schema/document/default_document.rs: field ids of a CompactDoc are u16 ----
    def compact_doc_field_limit():
        f = 'src/schema/document/default_document.rs'
        text = strip_comments(src(f))
        m = re.search(r'struct\s+FieldValueAddr\s*\{\s*pub\s+field\s*:\s*(u8|u16|u32)\s*,', text)
        if not m:
            raise Fail(f + ': FieldValueAddr::field not found')
        if len(re.findall(r'\.field_id\(\)\s*\.try_into\(\)\s*\.expect\(', text)) < 2:
            raise Fail(f + ': add_field_value / add_leaf_field_value do not convert the field id with try_into().expect(..)')
        return D('CD_FIELD_ID_LIMIT', {'u8': 256, 'u16': 65536, 'u32': 4294967296}[m.group(1)],
                 f + ' FieldValueAddr::field is ' + m.group(1) + ': larger field ids panic in add_field_value')
    items.append(compact_doc_field_limit)
