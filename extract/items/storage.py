# Gen/Storage.lean — file names of the commit protocol (C01, C10): meta / managed file names, lock
# descriptors, segment-component -> file-suffix map, the `is_managed` rule.
# Names are emitted as byte lists (strings do not kernel-reduce).
# helpers available: const, table, fn_body, fingerprint, eval_const_expr, D, DL, Fail, module, re, src, strip_comments
@module('Storage')
def gen_storage(items):
    def bl(s):
        return '[' + ', '.join(str(b) for b in s.encode('utf-8')) + ']'

    def static_path(path, name):
        text = strip_comments(src(path))
        m = re.search(r'\bstatic\s+' + name + r'\s*:[^=]*=\s*Lazy::new\(\|\|\s*Path::new\("([^"]+)"\)\)', text)
        if not m:
            raise Fail(f'{path}: static {name} (Path::new literal) not found')
        return m.group(1)

    items.append(lambda: f'def META_NAME : List Nat := {bl(static_path("src/core/mod.rs", "META_FILEPATH"))}  -- "' + static_path("src/core/mod.rs", "META_FILEPATH") + '"')
    items.append(lambda: f'def MANAGED_NAME : List Nat := {bl(static_path("src/core/mod.rs", "MANAGED_FILEPATH"))}  -- "' + static_path("src/core/mod.rs", "MANAGED_FILEPATH") + '"')

    def lock(name):
        f = 'src/directory/directory_lock.rs'
        text = strip_comments(src(f))
        m = re.search(r'\bstatic\s+' + name + r'\s*:\s*Lazy<Lock>\s*=\s*Lazy::new\(\|\|\s*Lock\s*\{\s*filepath:\s*PathBuf::from\("([^"]+)"\),\s*is_blocking:\s*(true|false),?\s*\}\)', text)
        if not m:
            raise Fail(f'{f}: lock descriptor {name} not found')
        return m.group(1), m.group(2)

    def lock_item(name):
        def it():
            path, blocking = lock(name)
            return (f'def {name}_NAME : List Nat := {bl(path)}  -- "{path}"\n'
                    f'def {name}_BLOCKING : Bool := {blocking}')
        return it
    items.append(lock_item('INDEX_WRITER_LOCK'))
    items.append(lock_item('META_LOCK'))

    # SegmentComponent::iterator order and SegmentMeta::relative_path suffixes
    def components():
        f = 'src/index/segment_component.rs'
        body = fn_body(f, 'iterator')
        m = re.search(r'SEGMENT_COMPONENTS\s*:\s*\[SegmentComponent;\s*(\d+)\]\s*=\s*\[(.*?)\]\s*;', body, flags=re.S)
        if not m:
            raise Fail(f'{f}: SEGMENT_COMPONENTS table not found')
        comps = re.findall(r'SegmentComponent::(\w+)', m.group(2))
        if len(comps) != int(m.group(1)):
            raise Fail(f'{f}: SEGMENT_COMPONENTS length mismatch')
        f2 = 'src/index/index_meta.rs'
        body2 = fn_body(f2, 'relative_path')
        suffix = {}
        for c, s in re.findall(r'SegmentComponent::(\w+)\s*=>\s*"([^"]*)"\.to_string\(\)', body2):
            suffix[c] = s
        md = re.search(r'SegmentComponent::Delete\s*=>\s*format!\("\.\{\}(\.[a-z]+)",\s*self\.delete_opstamp\(\)\.unwrap_or\(0\)\)', body2)
        if not md:
            raise Fail(f'{f2}: delete-file name rule of relative_path not found')
        out = []
        for c in comps:
            if c == 'Delete':
                continue
            if c not in suffix:
                raise Fail(f'{f2}: no suffix for component {c}')
            out.append((c, suffix[c]))
        if 'Delete' not in comps:
            raise Fail(f'{f}: Delete component missing')
        rows = ',\n'.join(f'  {bl(s)}' + f'  -- {c} "{s}"' if False else f'  {bl(s)}' for c, s in out)
        names = ', '.join(f'{c} "{s}"' for c, s in out)
        temp = [i for i, (c, _) in enumerate(out) if c == 'TempStore']
        if len(temp) != 1:
            raise Fail(f'{f}: TempStore component not found')
        return (f'/-- suffixes of the non-delete segment components, in `SegmentComponent::iterator` order: {names} -/\n'
                f'def COMPONENT_SUFFIXES : List (List Nat) := [\n{rows}]\n'
                f'def TEMPSTORE_INDEX : Nat := {temp[0]}  -- position of TempStore in COMPONENT_SUFFIXES\n'
                f'def DELETE_SUFFIX : List Nat := {bl(md.group(1))}  -- "<uuid>.<opstamp>{md.group(1)}"\n'
                f'def NUM_COMPONENTS : Nat := {len(comps)}')
    items.append(components)

    # list_files: all components, minus TempStore once untracked
    def list_files_rule():
        f = 'src/index/index_meta.rs'
        body = fn_body(f, 'list_files')
        if not re.search(r'filter\(\|comp\|\s*\*comp\s*!=\s*&SegmentComponent::TempStore\)', body):
            raise Fail(f'{f}: list_files no longer filters exactly TempStore when untracked')
        return 'def LIST_FILES_DROPS_ONLY_TEMPSTORE : Bool := true  -- SegmentMeta::list_files'
    items.append(list_files_rule)

    # is_managed: names starting with '.' are not managed
    def managed_rule():
        f = 'src/directory/managed_directory.rs'
        body = fn_body(f, 'is_managed')
        m = re.search(r"!p_str\.starts_with\('(.)'\)", body)
        if not m:
            raise Fail(f'{f}: is_managed rule not found')
        return f"def UNMANAGED_PREFIX : Nat := {ord(m.group(1))}  -- is_managed: !starts_with('{m.group(1)}')"
    items.append(managed_rule)

    # save_metas: the order of the two storage calls (fingerprint-like structural facts)
    def save_metas_order():
        f = 'src/indexer/segment_updater.rs'
        body = fn_body(f, 'save_metas')
        calls = re.findall(r'directory\.(sync_directory|atomic_write)\(', body)
        code = [1 if c == 'sync_directory' else 2 for c in calls]
        return DL('SAVE_METAS_CALLS', code, 'storage calls of segment_updater.rs::save_metas in source order: 1 = sync_directory, 2 = atomic_write(meta.json)')
    items.append(save_metas_order)
