# Gen/Storage.lean — file names of the commit protocol (C01, C10): meta / managed file names, lock
# descriptors, segment-component -> file-suffix map, the `is_managed` rule.
# Names are emitted as byte lists (strings do not kernel-reduce).
# helpers available: const, table, fn_body, fingerprint, eval_const_expr, D, DL, Fail, module, re, src, strip_comments
@module('Storage')
def gen_storage(items):
    def bl(s):
        return '[' + ', '.join(str(b) for b in s.encode('utf-8')) + ']'

    def static_path(path, name):
        text = strip_comments(src(path))
        m = re.search(r'\bstatic\s+' + name + r'\s*:[^=]*=\s*Lazy::new\(\|\|\s*Path::new\("([^"]+)"\)\)', text)
        if not m:
            raise Fail(f'{path}: static {name} (Path::new literal) not found')
        return m.group(1)

    items.append(lambda: f'def META_NAME : List Nat := {bl(static_path("src/core/mod.rs", "META_FILEPATH"))}  -- "' + static_path("src/core/mod.rs", "META_FILEPATH") + '"')
    items.append(lambda: f'def MANAGED_NAME : List Nat := {bl(static_path("src/core/mod.rs", "MANAGED_FILEPATH"))}  -- "' + static_path("src/core/mod.rs", "MANAGED_FILEPATH") + '"')

    def lock(name):
        f = 'src/directory/directory_lock.rs'
        text = strip_comments(src(f))
        m = re.search(r'\bstatic\s+' + name + r'\s*:\s*Lazy<Lock>\s*=\s*Lazy::new\(\|\|\s*Lock\s*\{\s*filepath:\s*PathBuf::from\("([^"]+)"\),\s*is_blocking:\s*(true|false),?\s*\}\)', text)
        if not m:
            raise Fail(f'{f}: lock descriptor {name} not found')
        return m.group(1), m.group(2)

    def lock_item(name):
        def it():
            path, blocking = lock(name)
            return (f'def {name}_NAME : List Nat := {bl(path)}  -- "{path}"\n'
                    f'def {name}_BLOCKING : Bool := {blocking}')
        return it
    items.append(lock_item('INDEX_WRITER_LOCK'))
    items.append(lock_item('META_LOCK'))

    # SegmentComponent::iterator order and SegmentMeta::relative_path suffixes
    def components():
        f = 'src/index/segment_component.rs'
        body = fn_body(f, 'iterator')
        m = re.search(r'SEGMENT_COMPONENTS\s*:\s*\[SegmentComponent;\s*(\d+)\]\s*=\s*\[(.*?)\]\s*;', body, flags=re.S)
        if not m:
            raise Fail(f'{f}: SEGMENT_COMPONENTS table not found')
        comps = re.findall(r'SegmentComponent::(\w+)', m.group(2))
        if len(comps) != int(m.group(1)):
            raise Fail(f'{f}: SEGMENT_COMPONENTS length mismatch')
        f2 = 'src/index/index_meta.rs'
        body2 = fn_body(f2, 'relative_path')
        suffix = {}
        for c, s in re.findall(r'SegmentComponent::(\w+)\s*=>\s*"([^"]*)"\.to_string\(\)', body2):
            suffix[c] = s
        md = re.search(r'SegmentComponent::Delete\s*=>\s*format!\("\.\{\}(\.[a-z]+)",\s*self\.delete_opstamp\(\)\.unwrap_or\(0\)\)', body2)
        if not md:
            raise Fail(f'{f2}: delete-file name rule of relative_path not found')
        out = []
        for c in comps:
            if c == 'Delete':
                continue
            if c not in suffix:
                raise Fail(f'{f2}: no suffix for component {c}')
            out.append((c, suffix[c]))
        if 'Delete' not in comps:
            raise Fail(f'{f}: Delete component missing')
        rows = ',\n'.join(f'  {bl(s)}' + f'  -- {c} "{s}"' if False else f'  {bl(s)}' for c, s in out)
        names = ', '.join(f'{c} "{s}"' for c, s in out)
        temp = [i for i, (c, _) in enumerate(out) if c == 'TempStore']
        if len(temp) != 1:
            raise Fail(f'{f}: TempStore component not found')
        return (f'/-- suffixes of the non-delete segment components, in `SegmentComponent::iterator` order: {names} -/\n'
                f'def COMPONENT_SUFFIXES : List (List Nat) := [\n{rows}]\n'
                f'def TEMPSTORE_INDEX : Nat := {temp[0]}  -- position of TempStore in COMPONENT_SUFFIXES\n'
                f'def DELETE_SUFFIX : List Nat := {bl(md.group(1))}  -- "<uuid>.<opstamp>{md.group(1)}"\n'
                f'def NUM_COMPONENTS : Nat := {len(comps)}')
    items.append(components)

    # list_files: all components, minus TempStore once untracked
    def list_files_rule():
        f = 'src/index/index_meta.rs'
        body = fn_body(f, 'list_files')
        if not re.search(r'filter\(\|comp\|\s*\*comp\s*!=\s*&SegmentComponent::TempStore\)', body):
            raise Fail(f'{f}: list_files no longer filters exactly TempStore when untracked')
        return 'def LIST_FILES_DROPS_ONLY_TEMPSTORE : Bool := true  -- SegmentMeta::list_files'
    items.append(list_files_rule)

    # is_managed: names starting with '.' are not managed
    def managed_rule():
        f = 'src/directory/managed_directory.rs'
        body = fn_body(f, 'is_managed')
        m = re.search(r"!p_str\.starts_with\('(.)'\)", body)
        if not m:
            raise Fail(f'{f}: is_managed rule not found')
        return f"def UNMANAGED_PREFIX : Nat := {ord(m.group(1))}  -- is_managed: !starts_with('{m.group(1)}')"
    items.append(managed_rule)

    # save_metas: the order of the two storage calls (fingerprint-like structural facts)
    def save_metas_order():
        f = 'src/indexer/segment_updater.rs'
        body = fn_body(f, 'save_metas')
        calls = re.findall(r'directory\.(sync_directory|atomic_write)\(', body)
        code = [1 if c == 'sync_directory' else 2 for c in calls]
        return DL('SAVE_METAS_CALLS', code, 'storage calls of segment_updater.rs::save_metas in source order: 1 = sync_directory, 2 = atomic_write(meta.json)')
    items.append(save_metas_order)

    # ---- C10: order of the steps of garbage_collect, of the loading reader, of the commit's listing ----
    def ordered_codes(path, fn, pats, what):
        body = fn_body(path, fn)
        found = []
        for code, pat in pats:
            m = re.search(pat, body)
            if not m:
                raise Fail(f'{path}::{fn}: step {code} ({what}: /{pat}/) not found')
            found.append((m.start(), code))
        return [c for _, c in sorted(found)]

    def gc_order():
        f = 'src/directory/managed_directory.rs'
        codes = ordered_codes(f, 'garbage_collect', [
            (1, r'\.meta_informations\s*\.read\(\)'),
            (2, r'acquire_lock\(&META_LOCK\)'),
            (3, r'get_living_files\(\)'),
            (4, r'files_to_delete\.push\('),
            (6, r'self\.delete\('),
            (7, r'\.meta_informations\s*\.write\(\)'),
            (8, r'sync_directory\(\)'),
            (9, r'save_managed_paths\('),
        ], 'garbage_collect')
        return DL('GC_STEP_ORDER', codes, 'steps of managed_directory.rs::garbage_collect in source order: 1 managed read lock, 2 META_LOCK, 3 living-files callback, 4 selection, 6 delete loop, 7 managed write lock, 8 sync_directory, 9 save_managed_paths')
    items.append(gc_order)

    def reader_order():
        f = 'src/reader/mod.rs'
        codes = ordered_codes(f, 'open_segment_readers', [
            (1, r'acquire_lock\(&META_LOCK\)'),
            (2, r'searchable_segments\(\)'),
            (3, r'SegmentReader::open'),
        ], 'open_segment_readers')
        return DL('READER_STEP_ORDER', codes, 'steps of reader/mod.rs::open_segment_readers in source order: 1 META_LOCK, 2 read meta.json (searchable_segments), 3 open the segment files')
    items.append(reader_order)

    def committed_metas():
        f = 'src/indexer/segment_manager.rs'
        codes = ordered_codes(f, 'committed_segment_metas', [
            (1, r'self\.remove_empty_segments\(\)'),
            (2, r'\.committed\s*\.segment_metas\(\)'),
        ], 'committed_segment_metas')
        body = fn_body(f, 'remove_empty_segments')
        if not (re.search(r'\.committed', body) and re.search(r'num_docs\(\)\s*==\s*0', body) and re.search(r'\.remove_segment\(', body)):
            raise Fail(f'{f}::remove_empty_segments no longer removes the committed segments with num_docs() == 0')
        return DL('COMMITTED_METAS_CALLS', codes, 'segment_manager.rs::committed_segment_metas in source order: 1 remove_empty_segments() (drops committed entries with num_docs() == 0), 2 list the committed metas')
    items.append(committed_metas)

    def managed_open_write():
        f = 'src/directory/managed_directory.rs'
        codes = ordered_codes(f, 'open_write', [
            (1, r'self\.register_file_as_managed\(path\)'),
            (2, r'\.open_write\(path\)'),
        ], 'ManagedDirectory::open_write')
        reg = ordered_codes(f, 'register_file_as_managed', [
            (1, r'managed_paths\.insert\('),
            (2, r'save_managed_paths\('),
        ], 'register_file_as_managed')
        if reg != [1, 2]:
            raise Fail(f'{f}::register_file_as_managed no longer inserts the path before persisting the list')
        return DL('MANAGED_OPEN_WRITE_STEPS', codes, 'managed_directory.rs::open_write in source order: 1 register_file_as_managed (insert + save_managed_paths), 2 create the file in the wrapped directory')
    items.append(managed_open_write)

    def meta_sources():
        f = 'src/index/index_meta.rs'
        text = strip_comments(src(f))
        n_track = len(re.findall(r'inventory\s*\.track\(', text))
        n_map = len(re.findall(r'\.tracked\s*\.map\(', text))
        for fn, pat in [('new_segment_meta', r'inventory\s*\.track\('), ('with_max_doc', r'tracked\s*\.map\('),
                        ('with_delete_meta', r'tracked\s*\.map\('), ('deserialize', r'\.track\(inventory\)')]:
            if not re.search(pat, fn_body(f, fn)):
                raise Fail(f'{f}::{fn} no longer creates its tracked SegmentMeta the way the model assumes')
        return DL('META_SOURCE_SITES', [n_track, n_map], 'index_meta.rs: number of `inventory.track(` sites (new_segment_meta, InnerSegmentMeta::track used by deserialize) and of `tracked.map(` sites (with_max_doc, with_delete_meta): the only places a tracked SegmentMeta comes to life')
    items.append(meta_sources)

    # ---- C10 round 2: where files are opened for writing, where metas are constructed ----
    import glob as _glob

    def non_test(path):
        text = strip_comments(src(path))
        m = re.search(r'#\[cfg\(test\)\]\s*(pub(\(crate\))?\s+)?mod\s', text)
        return text if not m else text[:m.start()]

    def rs_files():
        out = []
        for p in sorted(_glob.glob(os.path.join(REPO, 'src', '**', '*.rs'), recursive=True)):
            rel = os.path.relpath(p, REPO)
            if rel.startswith('src/directory/') or rel == 'src/verif.rs' or '/tests' in rel or rel.endswith('tests.rs'):
                continue
            out.append(rel)
        return out

    def open_write_sites():
        comp_order = ['Postings', 'Positions', 'FastFields', 'FieldNorms', 'Terms', 'Store', 'TempStore', 'Delete']
        comps, other = [], []
        for rel in rs_files():
            for m in re.finditer(r'\.open_write\(\s*([^)]*)\)', non_test(rel)):
                arg = m.group(1).strip()
                a = arg.replace('SegmentComponent::', '')
                if a in comp_order:
                    comps.append(comp_order.index(a))
                elif rel == 'src/index/segment.rs' and arg == '&path':
                    continue
                else:
                    other.append(f'{rel}: open_write({arg})')
        f = 'src/index/segment.rs'
        body = fn_body(f, 'open_write')
        if not (re.search(r'let\s+path\s*=\s*self\.relative_path\(component\)', body) and re.search(r'\.open_write\(&path\)', body)):
            raise Fail(f'{f}::open_write no longer opens self.relative_path(component)')
        if not re.search(r'self\.meta\.relative_path\(component\)', fn_body(f, 'relative_path')):
            raise Fail(f'{f}::relative_path no longer delegates to its SegmentMeta')
        if not re.search(r'include_temp_doc_store:\s*Arc::new\(AtomicBool::new\(true\)\)', fn_body('src/index/index_meta.rs', 'new_segment_meta')):
            raise Fail('index_meta.rs::new_segment_meta no longer starts with include_temp_doc_store = true')
        if other:
            raise Fail('files opened for writing outside Segment::open_write: ' + '; '.join(other))
        return (DL('SEGMENT_OPEN_WRITE_SITES', sorted(comps), 'component index (SegmentComponent::iterator order) of every non-test `.open_write(<component>)` call in src/ outside src/directory: all go through Segment::open_write, which opens self.meta.relative_path(component)')
                + '\ndef OPEN_WRITE_OTHER_SITES : Nat := 0  -- non-test open_write calls with a path that is not a component of the calling Segment')
    items.append(open_write_sites)

    def new_meta_calls():
        codes = []
        for rel in rs_files():
            text = non_test(rel)
            for m in re.finditer(r'\.new_segment_meta\(\s*([^,]+),', text):
                arg = m.group(1).strip()
                if arg == 'SegmentId::generate_random()':
                    codes.append(1)
                elif arg == 'merged_segment_id':
                    # the id of a Segment created by new_segment() earlier in the same function and still alive
                    before = text[:m.start()]
                    fn_start = before.rfind('\nfn ') if before.rfind('\nfn ') > before.rfind('\npub fn ') else before.rfind('\npub fn ')
                    scope = before[fn_start:]
                    if not (re.search(r'let\s+merged_segment\s*=\s*\w+\.new_segment\(\)', scope) and re.search(r'let\s+merged_segment_id\s*=\s*merged_segment\.id\(\)', scope)):
                        raise Fail(f'{rel}: new_segment_meta(merged_segment_id, ..) without a live merged_segment from new_segment()')
                    codes.append(2)
                elif arg == 'segment_id' and rel == 'src/index/index.rs':
                    continue  # Index::new_segment_meta: pass-through wrapper
                else:
                    raise Fail(f'{rel}: new_segment_meta({arg}, ..): unclassified constructor call')
        return DL('NEW_SEGMENT_META_CALLS', sorted(codes), 'classification of every non-test new_segment_meta call: 1 = fresh random segment id (MetaSource.fresh), 2 = id of a live Segment made by new_segment() in the same function (MetaSource.derived)')
    items.append(new_meta_calls)

    def managed_atomic_write():
        f = 'src/directory/managed_directory.rs'
        codes = ordered_codes(f, 'atomic_write', [
            (1, r'self\.register_file_as_managed\(path\)'),
            (2, r'self\.directory\.atomic_write\(path,\s*data\)'),
        ], 'ManagedDirectory::atomic_write')
        return DL('MANAGED_ATOMIC_WRITE_STEPS', codes, 'managed_directory.rs::atomic_write in source order: 1 register_file_as_managed, 2 atomic_write of the wrapped directory')
    items.append(managed_atomic_write)
