# Gen/Consts.lean — footer / format-version constants (C20, C01)
# helpers available: const, table, fn_body, fingerprint, eval_const_expr, D, DL, Fail, module, re
@module('Consts')
def gen_footer(items):
    f = 'src/directory/footer.rs'
    items.append(lambda: D('FOOTER_MAX_LEN', const(f, 'FOOTER_MAX_LEN'), f))
    items.append(lambda: D('FOOTER_MAGIC_NUMBER', const(f, 'FOOTER_MAGIC_NUMBER'), f))
    items.append(lambda: D('INDEX_FORMAT_VERSION', const('src/lib.rs', 'INDEX_FORMAT_VERSION'), 'src/lib.rs'))
    items.append(lambda: D('INDEX_FORMAT_OLDEST_SUPPORTED_VERSION', const('src/lib.rs', 'INDEX_FORMAT_OLDEST_SUPPORTED_VERSION'), 'src/lib.rs'))
    def min_len():
        body = fn_body(f, 'extract_footer')
        m = re.search(r'if\s+file\.len\(\)\s*<\s*([A-Za-z0-9_]+)\s*\{', body)
        if not m:
            raise Fail(f'{f}: length guard of extract_footer not found')
        g = m.group(1)
        if re.fullmatch(r'\d+', g):
            return D('FOOTER_MIN_FILE_LEN', int(g), 'guard of extract_footer')
        m2 = re.search(r'let\s+' + g + r'\s*=\s*<\(u32,\s*u32\)>::SIZE_IN_BYTES\s*;', body)
        if m2:
            return D('FOOTER_MIN_FILE_LEN', 8, 'guard of extract_footer: <(u32,u32)>::SIZE_IN_BYTES')
        raise Fail(f'{f}: cannot evaluate guard {g}')
    items.append(min_len)

