# Gen/Faults.lean — shape of the error-propagation code that Model/Faults.lean mirrors (C11)
# helpers available: const, table, fn_body, fingerprint, eval_const_expr, D, DL, Fail, module, re
@module('Faults')
def gen_faults(items):
    iw = 'src/indexer/index_writer.rs'
    su = 'src/indexer/segment_updater.rs'
    md = 'src/directory/managed_directory.rs'
    dd = 'src/directory/directory.rs'

    items.append(lambda: D('PIPELINE_MAX_SIZE_IN_DOCS', const(iw, 'PIPELINE_MAX_SIZE_IN_DOCS'), iw))

    def ordered(body, pats, where):
        pos = []
        for p in pats:
            m = re.search(p, body)
            if not m:
                raise Fail(f'{where}: expected `{p}` not found (the modelled error propagation changed)')
            pos.append(m.start())
        if pos != sorted(pos):
            raise Fail(f'{where}: the modelled steps are no longer in the modelled order')
        return 1

    # schedule_commit: purge_deletes?; segment_manager.commit; save_metas?; let _ = gc
    def commit_task():
        body = fn_body(su, 'schedule_commit')
        ordered(body, [r'purge_deletes\(opstamp\)\?\s*;', r'segment_manager\s*\.commit\(', r'\.save_metas\(opstamp,\s*payload\)\?\s*;',
                       r'let\s+_\s*=\s*garbage_collect_files\(', r'Ok\(opstamp\)'], su + '::schedule_commit')
        if re.search(r'let\s+_\s*=\s*[a-z_\.]*save_metas', body):
            raise Fail(su + '::schedule_commit ignores the result of save_metas')
        return D('COMMIT_TASK_PROPAGATES', 1, 'schedule_commit: purge_deletes?; commit registers; save_metas?; let _ = gc; Ok')
    items.append(commit_task)

    # save_metas (free function): sync_directory()?; atomic_write(meta.json)?  — all or nothing
    def save_metas():
        body = fn_body(su, 'save_metas')
        ordered(body, [r'directory\.sync_directory\(\)\?\s*;', r'directory\.atomic_write\(&META_FILEPATH,[^;]*\)\?\s*;', r'Ok\(\(\)\)'], su + '::save_metas')
        return D('SAVE_METAS_SYNC_THEN_ATOMIC_WRITE', 1, 'save_metas: sync_directory()?; atomic_write(meta.json)?')
    items.append(save_metas)

    # does save_metas sync the directory again AFTER the rename (durability barrier)? 0 / 1
    def save_metas_sync2():
        body = fn_body(su, 'save_metas')
        m = re.search(r'directory\.atomic_write\(&META_FILEPATH,[^;]*\)\?\s*;', body)
        if not m:
            raise Fail(su + '::save_metas: atomic_write(meta.json)? not found')
        rest = body[m.end():]
        n = len(re.findall(r'directory\.sync_directory\(\)', rest))
        if n > 1:
            raise Fail(su + '::save_metas: more than one sync_directory after the rename (not modelled)')
        if n == 1 and not re.search(r'directory\.sync_directory\(\)\?\s*;', rest):
            raise Fail(su + '::save_metas: the sync_directory after the rename does not propagate its error with `?` (not modelled)')
        return D('SAVE_METAS_SYNC_AFTER_WRITE', n, 'save_metas: number of `sync_directory()?` after atomic_write(meta.json)')
    items.append(save_metas_sync2)

    # prepare_commit: recreate channel; take handles; join each worker; the first error is returned
    # either at once — the remaining handles are dropped and no worker is restarted (0) — or after
    # every handle was joined and a worker restarted for each (1)
    def prepare_commit():
        body = fn_body(iw, 'prepare_commit')
        ordered(body, [r'self\.recreate_document_channel\(\)', r'std::mem::take\(&mut self\.workers_join_handle\)',
                       r'\.join\(\)', r'self\.add_indexing_worker\(\)\?\s*;', r'self\.stamper\.stamp\(\)'], iw + '::prepare_commit')
        m = re.search(r'for\s+worker_handle\s+in\s+former_workers_join_handle\s*\{', body)
        if not m:
            raise Fail(iw + '::prepare_commit: join loop not found')
        i = m.end(); depth = 1
        while depth and i < len(body):
            depth += (body[i] == '{') - (body[i] == '}')
            i += 1
        loop = body[m.end():i - 1]
        after = body[i:]
        early = re.search(r'indexing_worker_result\?\s*;', loop) is not None and re.search(r'\.map_err\([^;]*\)\?\s*;', loop, flags=re.S) is not None
        late = re.search(r'\?', re.sub(r'"[^"]*"', '""', loop).replace('self.add_indexing_worker()?', '')) is None and re.search(r'first_error', loop) is not None \
            and re.search(r'if\s+let\s+Some\(\w+\)\s*=\s*first_error\s*\{\s*return\s+Err\(', after) is not None
        if early == late:
            raise Fail(iw + '::prepare_commit: the join loop is neither the early-return form nor the join-all-then-return form')
        return '\n'.join([
            D('PREPARE_COMMIT_JOINS_AND_PROPAGATES', 1, 'prepare_commit: new channel; join the workers; first error returned'),
            D('PREPARE_COMMIT_RESTARTS_WORKERS', 1 if late else 0, 'prepare_commit: after a worker error no worker is restarted (0) / every worker is restarted before the error is returned (1)'),
        ])
    items.append(prepare_commit)

    # add: refused when the bomb went off
    def send():
        body = fn_body(iw, 'send_add_documents_batch')
        ordered(body, [r'self\.index_writer_status\.is_alive\(\)\s*&&\s*self\.operation_sender\.send\(add_ops\)\.is_ok\(\)', r'Err\('], iw + '::send_add_documents_batch')
        return D('ADD_CHECKS_ALIVE', 1, 'send_add_documents_batch: is_alive() && send().is_ok() else Err')
    items.append(send)

    # merge thread: catch_unwind; Err -> merge future; end_merge result -> merge future
    def merge_thread():
        body = fn_body(su, 'start_merge')
        ordered(body, [r'std::panic::catch_unwind', r'merging_future_send\.send\(Err\(TantivyError::SystemError', r'segment_updater\.end_merge\(merge_operation,',
                       r'merging_future_send\.send\(res\)', r'merging_future_send\.send\(Err\(merge_error\)\)'], su + '::start_merge')
        return D('MERGE_ERRORS_GO_TO_FUTURE', 1, 'start_merge: panic / Err / end_merge result are sent through the merge future')
    items.append(merge_thread)

    # end_merge: advance_deletes error returns before the registers are touched; save_metas?; gc ignored
    def end_merge():
        body = fn_body(su, 'end_merge')
        ordered(body, [r'return\s+Err\(advance_deletes_err\)', r'\.end_merge\(merge_operation\.segment_ids\(\),\s*after_merge_segment_entry\)\?\s*;',
                       r'\.save_metas\(previous_metas\.opstamp,[^;]*\)\?\s*;', r'let\s+_\s*=\s*garbage_collect_files\('], su + '::end_merge')
        return D('END_MERGE_PROPAGATES', 1, 'end_merge: advance_deletes error before registers; save_metas?; let _ = gc')
    items.append(end_merge)

    # GC: failed deletes are collected, not returned; they are not removed from the managed list
    def gc():
        body = fn_body(md, 'garbage_collect')
        ordered(body, [r'self\.acquire_lock\(&META_LOCK\)', r'failed_to_delete_files\.push\(', r'for\s+delete_file\s+in\s+&deleted_files',
                       r'managed_paths_write\.remove\(delete_file\)', r'save_managed_paths\('], md + '::garbage_collect')
        return D('GC_KEEPS_UNDELETED_MANAGED', 1, 'garbage_collect: only deleted files leave the managed list')
    items.append(gc)
