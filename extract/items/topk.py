# Gen/TopK.lean — constants of TopNComputer (C06)
# helpers available: const, table, fn_body, fingerprint, eval_const_expr, D, DL, Fail, module, re
@module('TopK')
def gen_topk(items):
    f = 'src/collector/top_score_collector.rs'
    def cap():
        # `let vec_cap = top_n.max(1) * 2;` in TopNComputer::new_with_comparator
        body = fn_body(f, 'new_with_comparator')
        m = re.search(r'let\s+vec_cap\s*=\s*top_n\.max\((\d+)\)\s*\*\s*(\d+)\s*;', body)
        if not m:
            raise Fail(f'{f}: capacity expression of TopNComputer::new_with_comparator not found')
        return (D('TOPN_CAP_MIN', int(m.group(1)), 'top_n.max(_) in new_with_comparator') + '\n'
                + D('TOPN_CAP_FACTOR', int(m.group(2)), 'vec_cap = top_n.max(1) * _'))
    items.append(cap)
