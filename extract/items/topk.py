# Gen/TopK.lean — constants of TopNComputer (C06)
# helpers available: const, table, fn_body, fingerprint, eval_const_expr, D, DL, Fail, module, re
@module('TopK')
def gen_topk(items):
    f = 'src/collector/top_score_collector.rs'
    def cap():
        # `let vec_cap = top_n.max(1) * 2;` in TopNComputer::new_with_comparator
        body = fn_body(f, 'new_with_comparator')
        m = re.search(r'let\s+vec_cap\s*=\s*top_n\.max\((\d+)\)\s*\*\s*(\d+)\s*;', body)
        if not m:
            raise Fail(f'{f}: capacity expression of TopNComputer::new_with_comparator not found')
        return (D('TOPN_CAP_MIN', int(m.group(1)), 'top_n.max(_) in new_with_comparator') + '\n'
                + D('TOPN_CAP_FACTOR', int(m.group(2)), 'vec_cap = top_n.max(1) * _'))
    items.append(cap)
    def lazy_tuple():
        # the lazy evaluation of tuple sort keys (Model/LazyKey.lean mirrors these bodies)
        path = 'src/collector/sort_key/sort_key_computer.rs'
        text = strip_comments(src(path))
        def bodies(name):
            out = []
            for m in re.finditer(r'\bfn\s+' + re.escape(name) + r'\b[^{;]*\{', text):
                i = m.end(); depth = 1
                while depth and i < len(text):
                    depth += (text[i] == '{') - (text[i] == '}')
                    i += 1
                out.append(re.sub(r'\s+', '', text[m.end():i - 1]))
            return out
        accept = bodies('accept_sort_key_lazy')
        want_accept = [
            # the trait's default: full comparison with the computer's own comparator
            'letsort_key=self.segment_sort_key(doc_id,score);letcmp=self.compare_segment_sort_key(&sort_key,threshold);'
            'ifcmp==Ordering::Less{None}else{Some((cmp,sort_key))}',
            # (Head, Tail)
            'let(head_threshold,tail_threshold)=threshold;let(head_cmp,head_sort_key)=self.0.accept_sort_key_lazy(doc_id,score,head_threshold)?;'
            'ifhead_cmp==Ordering::Equal{let(tail_cmp,tail_sort_key)=self.1.accept_sort_key_lazy(doc_id,score,tail_threshold)?;'
            'Some((tail_cmp,(head_sort_key,tail_sort_key)))}else{lettail_sort_key=self.1.segment_sort_key(doc_id,score);'
            'Some((head_cmp,(head_sort_key,tail_sort_key)))}',
            # MappedSegmentSortKeyComputer (3- and 4-tuples): forwarded to the chain
            'self.sort_key_computer.accept_sort_key_lazy(doc_id,score,threshold)',
        ]
        if accept != want_accept:
            raise Fail(f'{path}: the accept_sort_key_lazy implementations (default, (Head, Tail), MappedSegmentSortKeyComputer) '
                       f'are no longer the ones Model/LazyKey.lean mirrors: found {len(accept)} bodies {accept}')
        cmp_pair = 'self.0.compare_segment_sort_key(&left.0,&right.0).then_with(||self.1.compare_segment_sort_key(&left.1,&right.1))'
        if cmp_pair not in bodies('compare_segment_sort_key'):
            raise Fail(f'{path}: compare_segment_sort_key of (Head, Tail) is no longer head.then_with(tail)')
        collect_pair = ('letsort_key:Self::SegmentSortKey;ifletSome(threshold)=&top_n_computer.threshold{'
                        'ifletSome((_cmp,lazy_sort_key))=self.accept_sort_key_lazy(doc,score,threshold){sort_key=lazy_sort_key;}else{return;}}'
                        'else{sort_key=self.segment_sort_key(doc,score);};top_n_computer.append_doc(doc,sort_key);')
        if collect_pair not in bodies('compute_sort_key_and_collect'):
            raise Fail(f'{path}: compute_sort_key_and_collect of (Head, Tail) changed shape')
        conv = bodies('convert_segment_sort_key')
        want_conv = ['let(head_sort_key,tail_sort_key)=sort_key;(self.0.convert_segment_sort_key(head_sort_key),self.1.convert_segment_sort_key(tail_sort_key),)',
                     '(self.map)(self.sort_key_computer.convert_segment_sort_key(segment_sort_key),)']
        if conv[:2] != want_conv:
            raise Fail(f'{path}: convert_segment_sort_key of (Head, Tail) / of the adapter changed shape (Proofs/LazyConvert.lean::convertPair mirrors them)')
        flat = re.sub(r'\s+', '', text)
        if ('map=|(sort_key1,(sort_key2,sort_key3))|(sort_key1,sort_key2,sort_key3);' not in flat
                or 'map:|(sort_key1,(sort_key2,(sort_key3,sort_key4)))|{(sort_key1,sort_key2,sort_key3,sort_key4)}' not in flat):
            raise Fail(f'{path}: the 3-/4-tuple adapters no longer re-associate the chain (a, (b, (c, d))) into (a, b, c, d)')
        comps = bodies('comparator')
        for n in (2, 3, 4):
            want = '(' + ','.join(f'self.{i}.comparator()' for i in range(n)) + ',)'
            want2 = '(' + ','.join(f'self.{i}.comparator()' for i in range(n)) + ')'
            if want not in comps and want2 not in comps:
                raise Fail(f'{path}: the {n}-tuple SortKeyComputer does not forward comparator() to its components '
                           f'(the collector would order every component naturally: C06:four-tuple-sort-key-ignores-orders)')
        return D('LAZY_TUPLE_SHAPE', 1, 'accept_sort_key_lazy: default = full comparison; (Head, Tail) = head, then tail only on Equal; Mapped adapter forwards; pair compare = head.then_with(tail); collect appends iff accepted')
    items.append(lazy_tuple)
    def blockwand_pair():
        # the block-max pair stored per block = arg-max of the tf factor (Proofs/BlockMaxPair.lean::maxByQ mirrors it)
        path = 'src/postings/serializer.rs'
        text = re.sub(r'\s+', '', strip_comments(src(path)))
        want = ('blockwand_params=fieldnorms.zip(term_freqs).max_by(|(left_fieldnorm_id,left_term_freq),(right_fieldnorm_id,right_term_freq)|{'
                'letleft_score=bm25_weight.tf_factor(*left_fieldnorm_id,*left_term_freq);'
                'letright_score=bm25_weight.tf_factor(*right_fieldnorm_id,*right_term_freq);'
                'left_score.partial_cmp(&right_score).unwrap_or(Ordering::Equal)},).unwrap();')
        if want not in text or 'let(fieldnorm_id,term_freq)=blockwand_params;self.skip_write.write_blockwand_max(fieldnorm_id,term_freq);' not in text:
            raise Fail(f'{path}: the block-max (fieldnorm_id, term_freq) pair is no longer the max_by of Bm25Weight::tf_factor over the block')
        return D('BLOCKWAND_PAIR_IS_ARGMAX_TF_FACTOR', 1, 'serializer: blockwand_params = max_by tf_factor over the block, written with write_blockwand_max')
    items.append(blockwand_pair)
    def collector_shape():
        # the collector skeleton the model `search` / `mergeTopK` / `heapCb` / `heapCbA` mirrors
        path = 'src/collector/sort_key_top_collector.rs'
        flat = re.sub(r'\s+', '', strip_comments(src(path)))
        want = {
            'for_segment sizes the TopNComputer by doc_range.end (= offset + limit)':
                'TopNComputer::new_with_comparator(self.doc_range.end,self.sort_key_computer.comparator(),)',
            'collect_segment collects k = doc_range.end':
                'letk=self.doc_range.end;letdocs=self.sort_key_computer.collect_segment_top_k(k,weight,reader,segment_ord)?;',
            'merge_fruits = merge_top_k over all fruits with the collector comparator':
                'merge_top_k(segment_fruits.into_iter().flatten(),self.doc_range.clone(),self.sort_key_computer.comparator(),)',
            'merge_top_k sorts all fruits by (comparator desc, address asc)':
                'all.sort_by(|lhs,rhs|{comparator.compare(&lhs.0,&rhs.0).reverse().then_with(||lhs.1.cmp(&rhs.1))});',
            'merge_top_k = skip(start).take(end - start)':
                'all.into_iter().skip(doc_range.start).take(doc_range.end-doc_range.start).collect()',
        }
        for what, frag in want.items():
            if frag not in flat:
                raise Fail(f'{path}: {what}: shape not found (Model/TopN.lean::search / mergeTopK mirror it)')
        path2 = 'src/collector/sort_key/sort_by_score.rs'
        flat2 = re.sub(r'\s+', '', strip_comments(src(path2)))
        want2 = {
            'the score path collects into TopNHeap::new(k)': 'letmuttop_n=TopNHeap::new(k);',
            'deletes-aware callback: a deleted document returns the old threshold':
                'ifalive_bitset.is_deleted(doc){returnthreshold;}top_n.push(score,doc);threshold=top_n.threshold.unwrap_or(Score::MIN);threshold',
            'plain callback: push, return the heap threshold':
                'weight.for_each_pruning(Score::MIN,reader,&mut|doc,score|{top_n.push(score,doc);top_n.threshold.unwrap_or(Score::MIN)})?;',
            'TopNHeap::push replaces the minimum only for score > threshold': 'ifscore>threshold{',
        }
        for what, frag in want2.items():
            if frag not in flat2:
                raise Fail(f'{path2}: {what}: shape not found (Proofs/WandHeap.lean::heapCb / heapCbA mirror it)')
        return D('COLLECTOR_SHAPE', 1, 'per-segment capacity = doc_range.end on both entry points; merge = sort all fruits, skip, take; score path = TopNHeap callback (deletes-aware)')
    items.append(collector_shape)
    def comparator_shape():
        # the comparators on optional keys (Model/LazyKey.lean::natOpt / revOpt / revNoneLower / natNoneHigher / ofOrder mirror them)
        path = 'src/collector/sort_key/order.rs'
        flat = re.sub(r'\s+', '', strip_comments(src(path)))
        want = {
            'NaturalComparator = partial_cmp(..).unwrap_or(Equal)': 'lhs.partial_cmp(rhs).unwrap_or(Ordering::Equal)',
            'ReverseComparator = Natural with the arguments swapped': 'NaturalComparator.compare(rhs,lhs)',
            'ReverseNoneIsLowerComparator on Option':
                'match(lhs_opt,rhs_opt){(None,None)=>Ordering::Equal,(None,Some(_))=>Ordering::Less,(Some(_),None)=>Ordering::Greater,(Some(lhs),Some(rhs))=>ReverseComparator.compare(lhs,rhs),}',
            'NaturalNoneIsHigherComparator on Option':
                'match(lhs_opt,rhs_opt){(None,None)=>Ordering::Equal,(None,Some(_))=>Ordering::Greater,(Some(_),None)=>Ordering::Less,(Some(lhs),Some(rhs))=>NaturalComparator.compare(lhs,rhs),}',
            'From<Order>: Asc => ReverseNoneLower, Desc => Natural':
                'matchorder{Order::Asc=>ComparatorEnum::ReverseNoneLower,Order::Desc=>ComparatorEnum::Natural,}',
            'ComparatorEnum dispatch':
                'matchself{ComparatorEnum::Natural=>NaturalComparator.compare(lhs,rhs),ComparatorEnum::Reverse=>ReverseComparator.compare(lhs,rhs),ComparatorEnum::ReverseNoneLower=>ReverseNoneIsLowerComparator.compare(lhs,rhs),ComparatorEnum::NaturalNoneHigher=>NaturalNoneIsHigherComparator.compare(lhs,rhs),}',
            'pair comparator = head.then_with(tail)': 'self.0.compare(&lhs.0,&rhs.0).then_with(||self.1.compare(&lhs.1,&rhs.1))',
        }
        for what, frag in want.items():
            if frag not in flat:
                raise Fail(f'{path}: {what}: shape not found')
        return D('COMPARATOR_SHAPE', 1, 'order.rs: Natural / Reverse / ReverseNoneIsLower / NaturalNoneIsHigher on Option, From<Order>, ComparatorEnum dispatch, pair = head.then_with(tail)')
    items.append(comparator_shape)
    def topn_computer_shape():
        # TopNComputer as Model/TopN.lean mirrors it (push, append_doc, truncate_top_n, into_sorted_vec, into_vec, compare_for_top_k)
        path = 'src/collector/top_score_collector.rs'
        flat = re.sub(r'\s+', '', strip_comments(src(path)))
        want = {
            'compare_for_top_k = comparator reversed, then ascending doc':
                'c.compare(&lhs.sort_key,&rhs.sort_key).reverse().then_with(||lhs.doc.cmp(&rhs.doc))',
            'push: strict threshold (ignored unless Greater), then append_doc':
                'ifletSome(last_median)=&self.threshold{ifself.comparator.compare(&sort_key,last_median)!=Ordering::Greater{return;}}self.append_doc(doc,sort_key);',
            'append_doc: truncate at capacity, the median becomes the threshold':
                'ifself.buffer.len()==self.buffer.capacity(){letmedian=self.truncate_top_n();self.threshold=Some(median);}',
            'truncate_top_n: select_nth_unstable_by(top_n, compare_for_top_k), median key, truncate(top_n)':
                'let(_,median_el,_)=self.buffer.select_nth_unstable_by(self.top_n,|lhs,rhs|{compare_for_top_k(&self.comparator,lhs,rhs)});letmedian_score=median_el.sort_key.clone();self.buffer.truncate(self.top_n);median_score',
            'into_sorted_vec: truncate if above top_n, sort_unstable_by(compare_for_top_k)':
                'ifself.buffer.len()>self.top_n{self.truncate_top_n();}self.buffer.sort_unstable_by(|lhs,rhs|compare_for_top_k(&self.comparator,lhs,rhs));self.buffer',
            'into_vec: truncate if above top_n':
                'ifself.buffer.len()>self.top_n{self.truncate_top_n();}self.buffer}',
        }
        for what, frag in want.items():
            if frag not in flat:
                raise Fail(f'{path}: {what}: shape not found (Model/TopN.lean mirrors it)')
        return D('TOPN_COMPUTER_SHAPE', 1, 'TopNComputer: compare_for_top_k, push (strict threshold), append_doc, truncate_top_n, into_sorted_vec, into_vec')
    items.append(topn_computer_shape)
