# Gen/Grammar.lean — character tables and guards of the query grammar (C16)
# helpers available: const, table, fn_body, fingerprint, eval_const_expr, D, DL, Fail, module, re, src, strip_comments
@module('Grammar')
def gen_grammar(items):
    g = 'query-grammar/src/query_grammar.rs'

    def char_table(name):
        # `const NAME: &[char] = &[ 'a', '\'', '\\', ... ];` -> code points (comments must not be
        # stripped first: `'/'`-like literals would confuse the comment stripper)
        text = src(g)
        m = re.search(r'\bconst\s+' + name + r'\s*:\s*&\[char\]\s*=\s*&\[(.*?)\]\s*;', text, flags=re.S)
        if not m:
            raise Fail(f'{g}: char table {name} not found')
        out = []
        for lit in re.findall(r"'(\\.|[^'\\])'", m.group(1)):
            if lit.startswith('\\'):
                c = {'n': '\n', 't': '\t', 'r': '\r', '0': '\0', '\\': '\\', "'": "'", '"': '"'}.get(lit[1])
                if c is None:
                    raise Fail(f'{g}: unsupported escape {lit!r} in {name}')
            else:
                c = lit
            out.append(ord(c))
        if not out:
            raise Fail(f'{g}: char table {name} is empty')
        return out

    items.append(lambda: DL('GRAMMAR_SPECIAL_CHARS', char_table('SPECIAL_CHARS'), 'query_grammar.rs SPECIAL_CHARS (code points)'))
    items.append(lambda: DL('GRAMMAR_ESCAPE_IN_WORD', char_table('ESCAPE_IN_WORD'), 'query_grammar.rs ESCAPE_IN_WORD (code points)'))

    def word_keywords():
        body = fn_body(g, 'word')
        m = re.search(r'((?:"[A-Z]+"\s*\|\s*)+"[A-Z]+")\s*=>\s*Err', body)
        if not m:
            raise Fail(f'{g}: keyword rejection of `word` not found')
        kws = re.findall(r'"([A-Z]+)"', m.group(1))
        rows = ', '.join('[' + ', '.join(str(ord(c)) for c in k) + ']' for k in kws)
        return f'/-- query_grammar.rs::word: the words it refuses ({", ".join(kws)}) as code points -/\ndef GRAMMAR_KEYWORDS : List (List Nat) := [{rows}]'
    items.append(word_keywords)

    def exists_guard():
        # does `literal` refuse an `exists` leaf that has no field name (instead of letting
        # `set_field(None)` hit its `expect`)
        body = fn_body(g, 'literal')
        guarded = 1 if re.search(r'UserInputLeaf::Exists', body) else 0
        return D('GRAMMAR_LITERAL_GUARDS_FIELDLESS_EXISTS', guarded,
                 'fn literal: 1 = an exists leaf without field name is a parse error, 0 = set_field(None) panics')
    items.append(exists_guard)

    def slop_bits():
        body = fn_body(g, 'slop_or_prefix_val')
        m = re.search(r"preceded\(\s*char\('~'\)\s*,\s*(u8|u16|u32|u64)\s*\)", body)
        if not m:
            raise Fail(f'{g}: slop is no longer `preceded(char(\'~\'), uN)`')
        return D('GRAMMAR_SLOP_BITS', int(m.group(1)[1:]), 'slop_or_prefix_val: width of the slop integer')
    items.append(slop_bits)

    def set_loop_guard():
        # does `set_infallible` make progress when a round consumes nothing
        body = fn_body(g, 'set_infallible')
        guarded = 1 if re.search(r'rest\.len\(\)\s*==\s*inp\.len\(\)', body) else 0
        return D('GRAMMAR_SET_LOOP_GUARD', guarded,
                 'fn set_infallible: 1 = a round that consumes nothing skips one character, 0 = it loops forever')
    items.append(set_loop_guard)
