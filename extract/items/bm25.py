# Gen/Bm25.lean — BM25 constants and the field-norm table (C06, C12)
# helpers available: const, table, fn_body, fingerprint, eval_const_expr, D, DL, Fail, module, re
def _decimal(path, name):
    """`const NAME: Score = 1.2;` -> (numerator, denominator, literal) of the decimal literal"""
    text = strip_comments(src(path))
    m = re.search(r'\bconst\s+' + re.escape(name) + r'\s*:\s*(?:Score|f32)\s*=\s*([0-9]+)\.([0-9]+)\s*(?:f32)?\s*;', text)
    if not m:
        raise Fail(f'{path}: float const {name} not found')
    return int(m.group(1) + m.group(2)), 10 ** len(m.group(2)), m.group(1) + '.' + m.group(2)

@module('Bm25')
def gen_bm25(items):
    f = 'src/query/bm25.rs'
    def k1():
        n, d, lit = _decimal(f, 'K1')
        return D('K1_NUM', n, f'K1 = {lit}') + '\n' + D('K1_DEN', d)
    def b():
        n, d, lit = _decimal(f, 'B')
        return D('B_NUM', n, f'B = {lit}') + '\n' + D('B_DEN', d)
    items.append(k1)
    items.append(b)
    def max_score():
        body = fn_body(f, 'max_score')
        m = re.search(r'self\.score\(\s*(\d+)u8\s*,\s*([0-9_]+)\s*\)', body)
        if not m:
            raise Fail(f'{f}: Bm25Weight::max_score is no longer self.score(<id>u8, <tf>)')
        return (D('MAX_SCORE_FIELDNORM_ID', int(m.group(1)), 'Bm25Weight::max_score') + '\n'
                + D('MAX_SCORE_TF', int(m.group(2).replace('_', ''))))
    items.append(max_score)
    items.append(lambda: DL('FIELD_NORMS_TABLE', table('src/fieldnorm/code.rs', 'FIELD_NORMS_TABLE'),
                            'src/fieldnorm/code.rs FIELD_NORMS_TABLE'))
    def bw():
        body = fn_body('src/postings/skip.rs', 'decode_block_wand_max_tf')
        if not re.search(r'if\s+max_tf_code\s*==\s*u8::MAX\s*\{\s*u32::MAX\s*\}\s*else\s*\{\s*max_tf_code\s+as\s+u32\s*\}', body):
            raise Fail('src/postings/skip.rs: decode_block_wand_max_tf changed shape')
        return D('BLOCK_WAND_TF_SATURATION', 255, 'tf >= 255 is stored as 255 and read back as u32::MAX')
    items.append(bw)
    def dismax():
        path = 'src/query/score_combiner.rs'
        text = strip_comments(src(path))
        m = re.search(r'impl\s+ScoreCombiner\s+for\s+DisjunctionMaxCombiner\s*\{(.*?)\n\}', text, re.S)
        if not m:
            raise Fail(f'{path}: impl ScoreCombiner for DisjunctionMaxCombiner not found')
        body = re.sub(r'\s+', ' ', m.group(1))
        want = {
            'update': 'let score = scorer.score(); self.max = Score::max(score, self.max); self.sum += score;',
            'clear': 'self.max = 0.0; self.sum = 0.0;',
            'score': 'self.max + (self.sum - self.max) * self.tie_breaker',
        }
        for name, frag in want.items():
            if frag not in body:
                raise Fail(f'{path}: DisjunctionMaxCombiner::{name} is no longer `{frag}` (Model/Bm25.lean::DisMaxState mirrors it)')
        return D('DISMAX_COMBINER_SHAPE', 1, 'DisjunctionMaxCombiner: update = (max(score, max), sum + score); clear = (0, 0); score = max + (sum - max) * tie_breaker')
    items.append(dismax)
