# Gen/Reader.lean — structural guards of the reader / GC lock protocol (C05)
# helpers available: const, table, fn_body, fingerprint, eval_const_expr, D, DL, Fail, module, re, src, strip_comments
@module('Reader')
def gen_reader(items):
    rd = 'src/reader/mod.rs'
    md = 'src/directory/managed_directory.rs'
    sr = 'src/index/segment_reader.rs'
    lk = 'src/directory/directory_lock.rs'

    def pos(body, pat):
        m = re.search(pat, body)
        return m.start() if m else None

    def reader_lock():
        body = fn_body(rd, 'open_segment_readers')
        a = pos(body, r'let\s+_[A-Za-z0-9_]+\s*=\s*index\s*\.\s*directory\(\)\s*\.\s*acquire_lock\(\s*&META_LOCK\s*\)\s*\?\s*;')
        l = pos(body, r'\.\s*searchable_segments\(\)')
        o = pos(body, r'SegmentReader::open')
        # the guard must live in the function's outermost block (a guard bound in an inner block
        # is dropped at that block's end, before the segment files are opened)
        depth0 = a is not None and (body[:a].count('{') - body[:a].count('}')) == 0
        v = 1 if (a is not None and l is not None and o is not None and a < l < o and depth0) else 0
        return D('READER_LOCK_HELD_OVER_LOAD_AND_OPEN', v,
                 'open_segment_readers: named guard of acquire_lock(&META_LOCK) bound before searchable_segments() and SegmentReader::open')
    items.append(reader_lock)

    def single_load():
        body = fn_body(rd, 'open_segment_readers')
        n = len(re.findall(r'searchable_segment(?:s|_metas|_ids)\(\)|load_metas\(\)', body))
        return D('READER_META_LOADS_PER_RELOAD', n, 'open_segment_readers: number of reads of meta.json')
    items.append(single_load)

    def gc_lock():
        body = fn_body(md, 'garbage_collect')
        m = re.search(r'match\s+self\s*\.\s*acquire_lock\(\s*&META_LOCK\s*\)\s*\{\s*Ok\(\s*_[A-Za-z0-9_]+\s*\)\s*=>\s*\{', body)
        v = 0
        if m:
            i = m.end(); depth = 1
            while depth and i < len(body):
                depth += (body[i] == '{') - (body[i] == '}')
                i += 1
            arm = body[m.end():i - 1]
            calls = [x.start() for x in re.finditer(r'get_living_files\(\)', body)]
            if len(calls) == 1 and 'get_living_files()' in arm and 'files_to_delete.push' in arm:
                v = 1
        return D('GC_LISTS_UNDER_LOCK', v,
                 'garbage_collect: get_living_files() and the choice of files_to_delete are inside the Ok(_meta_lock) arm')
    items.append(gc_lock)

    def gc_delete_only_listed():
        body = fn_body(md, 'garbage_collect')
        dels = re.findall(r'self\s*\.\s*delete\(\s*&?\s*([A-Za-z_][A-Za-z0-9_]*)\s*\)', body)
        loop = re.search(r'for\s+([A-Za-z_][A-Za-z0-9_]*)\s+in\s+files_to_delete\b', body)
        v = 1 if (loop and dels == [loop.group(1)]) else 0
        return D('GC_DELETES_ONLY_LISTED', v, 'garbage_collect: the only delete is over files_to_delete')
    items.append(gc_delete_only_listed)

    def publish_after():
        body = fn_body(rd, 'reload')
        c = pos(body, r'Self::create_searcher\(')
        s = pos(body, r'self\s*\.\s*searcher\s*\.\s*store\(\s*searcher\s*\)')
        v = 1 if (c is not None and s is not None and c < s) else 0
        return D('RELOAD_PUBLISHES_CREATED_SEARCHER', v, 'reload: create_searcher(..)? then self.searcher.store(searcher)')
    items.append(publish_after)

    def serialised():
        body = fn_body(rd, 'reload')
        g = pos(body, r'let\s+_[A-Za-z0-9_]+\s*=\s*self\s*\.\s*reload_lock\s*\.\s*lock\(\)')
        c = pos(body, r'Self::create_searcher\(')
        st = pos(body, r'self\s*\.\s*searcher\s*\.\s*store\(')
        depth0 = g is not None and (body[:g].count('{') - body[:g].count('}')) == 0
        stores = len(re.findall(r'self\s*\.\s*searcher\s*\.\s*store\(', body))
        uncond = st is not None and (body[:st].count('{') - body[:st].count('}')) == 0
        v = 1 if (g is not None and c is not None and st is not None and g < c < st and depth0 and stores == 1 and uncond) else 0
        return D('RELOAD_MUTEX_COVERS_LOAD_AND_STORE', v,
                 'reload: named guard of reload_lock bound in the outermost block before create_searcher(..) and the single unconditional searcher.store(..)')
    items.append(serialised)

    def warm_order():
        body = fn_body(rd, 'create_searcher')
        t = pos(body, r'Self::track_segment_readers_in_inventory\(')
        n = pos(body, r'SearcherInner::new\(')
        m = re.search(r'warming_state\s*\.\s*warm_new_searcher_generation\([^;]*\)\s*\?\s*;', body)
        o = pos(body, r'Ok\(\s*searcher\s*\)')
        v = 1 if (t is not None and n is not None and m and o is not None and t < n < m.start() < o
                  and (body[:m.start()].count('{') - body[:m.start()].count('}')) == 0) else 0
        return D('WARM_AFTER_TRACK_BEFORE_RETURN', v,
                 'create_searcher: track in the inventory, build the searcher, warm_new_searcher_generation(..)? unconditionally, then Ok(searcher)')
    items.append(warm_order)

    def inner_fn_body(name):
        wm = 'src/reader/warming.rs'
        text = strip_comments(src(wm))
        m = re.search(r'impl\s+WarmingStateInner\s*\{', text)
        if not m:
            raise Fail(f'{wm}: impl WarmingStateInner not found')
        rest = text[m.end():]
        m2 = re.search(r'fn\s+' + name + r'\b[^{]*\{', rest)
        if not m2:
            raise Fail(f'{wm}: WarmingStateInner::{name} not found')
        i = m2.end(); depth = 1
        while depth and i < len(rest):
            depth += (rest[i] == '{') - (rest[i] == '}')
            i += 1
        return rest[m2.end():i - 1]

    def warm_gc_list():
        body = inner_fn_body('gc_maybe')
        a = pos(body, r'let\s+live_generations\s*=\s*self\s*\.\s*searcher_generation_inventory\s*\.\s*list\(\)\s*;')
        b = pos(body, r'let\s+live_generation_refs\s*=\s*live_generations\s*\.\s*iter\(\)\s*\.\s*map\(\s*Deref::deref\s*\)')
        c = re.findall(r'warmer\s*\.\s*garbage_collect\(\s*&live_generation_refs\s*\)', body)
        anyc = re.findall(r'\.\s*garbage_collect\(', body)
        v = 1 if (a is not None and b is not None and a < b and len(c) == 1 and len(anyc) == 1) else 0
        return D('WARMER_GC_GETS_INVENTORY_LIST', v,
                 'gc_maybe: the only Warmer::garbage_collect call receives searcher_generation_inventory.list()')
    items.append(warm_gc_list)

    def warm_records():
        body = inner_fn_body('warm_new_searcher_generation')
        a = pos(body, r'warmed_generation_ids\s*\.\s*insert\(')
        b = pos(body, r'warmer\s*\.\s*warm\(\s*searcher\s*\)')
        v = 1 if (a is not None and b is not None and a < b) else 0
        return D('WARM_RECORDS_ID_BEFORE_WARMERS', v,
                 'warm_new_searcher_generation: the generation id is recorded before the warmers run')
    items.append(warm_records)

    def tracked_field():
        text = strip_comments(src('src/core/searcher.rs'))
        m = re.search(r'struct\s+SearcherInner\s*\{(.*?)\}', text, flags=re.S)
        if not m:
            raise Fail('src/core/searcher.rs: struct SearcherInner not found')
        v = 1 if re.search(r'generation\s*:\s*TrackedObject<SearcherGeneration>', m.group(1)) else 0
        return D('GENERATION_TRACKED_IN_SEARCHER_INNER', v,
                 'SearcherInner owns the TrackedObject<SearcherGeneration>: the inventory entry lives as long as a clone of the searcher')
    items.append(tracked_field)

    def snapshot():
        body = fn_body(rd, 'searcher')
        v = 1 if re.search(r'self\s*\.\s*searcher\s*\.\s*load\(\)\s*\.\s*clone\(\)\s*\.\s*into\(\)', body) else 0
        return D('SEARCHER_IS_ARC_SNAPSHOT', v, 'InnerIndexReader::searcher: ArcSwap load().clone()')
    items.append(snapshot)

    def eager():
        body = fn_body(sr, 'open_with_custom_alive_set')
        comps = re.findall(r'segment\s*\.\s*open_read\(\s*SegmentComponent::([A-Za-z]+)\s*\)', body)
        return D('EAGER_OPEN_COMPONENTS', len(set(comps)),
                 'open_with_custom_alive_set: distinct components opened eagerly: ' + ','.join(sorted(set(comps))))
    items.append(eager)

    def ncomp():
        text = strip_comments(src('src/index/segment_component.rs'))
        m = re.search(r'pub\s+enum\s+SegmentComponent\s*\{(.*?)\}', text, flags=re.S)
        if not m:
            raise Fail('src/index/segment_component.rs: enum SegmentComponent not found')
        names = [x.strip() for x in m.group(1).split(',') if x.strip()]
        return D('SEGMENT_COMPONENTS_WITHOUT_TEMP', len([n for n in names if n != 'TempStore']),
                 'enum SegmentComponent minus TempStore')
    items.append(ncomp)

    def blocking():
        text = strip_comments(src(lk))
        m = re.search(r'static\s+META_LOCK\s*:.*?is_blocking\s*:\s*(true|false)', text, flags=re.S)
        if not m:
            raise Fail(f'{lk}: META_LOCK not found')
        return D('META_LOCK_IS_BLOCKING', 1 if m.group(1) == 'true' else 0, lk)
    items.append(blocking)
