# Gen/PureFns.lean — closed pure functions translated mechanically from the Rust source by
# extract/rs2lean.py (see its header for the subset and the semantics).
import importlib.util as _ilu
_spec = _ilu.spec_from_file_location('rs2lean', os.path.join(os.path.dirname(os.path.abspath(__file__)), 'rs2lean.py'))
rs2lean = _ilu.module_from_spec(_spec); _spec.loader.exec_module(rs2lean)

def _fn(path, name, consts=None, lean_name=None):
    def go():
        try:
            return f'-- translated from {path}::{name}\n' + rs2lean.translate_fn(src(path), name, consts or {}, lean_name)
        except rs2lean.Unsupported as e:
            raise Fail(f'{path}::{name}: outside the translatable subset: {e}')
    return go

@module('PureFns')
def gen_purefns(items):
    items.append(lambda: 'namespace Fn')
    c = 'common/src/lib.rs'
    def hb():
        return {'HIGHEST_BIT': (const(c, 'HIGHEST_BIT'), 'u64')}
    items.append(lambda: _fn(c, 'i64_to_u64', hb())())
    items.append(lambda: _fn(c, 'u64_to_i64', hb())())
    items.append(lambda: _fn(c, 'f64_to_u64', hb())())
    items.append(lambda: _fn(c, 'u64_to_f64', hb())())
    items.append(_fn('bitpacker/src/lib.rs', 'compute_num_bits'))
    s = 'src/postings/skip.rs'
    items.append(_fn(s, 'encode_bitwidth'))
    items.append(_fn(s, 'decode_bitwidth'))
    items.append(_fn(s, 'encode_block_wand_max_tf'))
    items.append(_fn(s, 'decode_block_wand_max_tf'))
    w = 'columnar/src/columnar/writer/column_operation.rs'
    items.append(_fn(w, 'encode_zig_zag'))
    items.append(_fn(w, 'decode_zig_zag'))
    items.append(_fn('columnar/src/utils.rs', 'compute_mask'))
    items.append(_fn('columnar/src/column_index/optional_index/set_block/dense.rs', 'get_bit_at'))
    items.append(_fn('stacker/src/expull.rs', 'get_block_size'))
    items.append(_fn('stacker/src/shared_arena_hashmap.rs', 'compute_previous_power_of_two'))
    # TinySet (common/src/bitset.rs): a one-field tuple struct over u64; methods taking `self` by
    # value are translated as functions of the inner word. `pop_lowest` (&mut self, Option) is
    # translated from its two expressions.
    b = 'common/src/bitset.rs'
    nt = {'TinySet': 'u64', 'Self': 'u64'}
    sigs = {}
    calls = {}
    def tiny(name):
        def go():
            try:
                text = rs2lean.impl_block(src(b), 'TinySet')
                out = rs2lean.translate_fn(text, name, {}, 'tinyset_' + name, newtypes=nt, calls=dict(calls), sigs=sigs)
            except rs2lean.Unsupported as e:
                raise Fail(f'{b}::TinySet::{name}: outside the translatable subset: {e}')
            ln, ptys, rty = sigs[name]
            calls[('TinySet', name)] = (ln, ptys, rty)
            calls[('Self', name)] = (ln, ptys, rty)
            if ptys and ptys[0] == 'u64':
                calls[('.', name)] = (ln, ptys, rty)
            return f'-- translated from {b}::TinySet::{name}\n' + out
        return go
    for name in ['empty', 'complement', 'full', 'intersect', 'union', 'is_empty', 'singleton', 'contains',
                 'insert', 'remove', 'range_lower', 'range_greater_or_equal']:
        items.append(tiny(name))
    def pop_lowest():
        text = rs2lean.impl_block(src(b), 'TinySet')
        try:
            sig, body = rs2lean.find_fn(text, 'pop_lowest')
        except rs2lean.Unsupported as e:
            raise Fail(str(e))
        if not re.match(r'\(\s*&mut\s+self\s*\)\s*->\s*Option<u32>\s*$', sig.strip()):
            raise Fail(f'{b}::TinySet::pop_lowest: signature changed: {sig.strip()!r}')
        m = re.match(r'\{\s*if\s+self\.is_empty\(\)\s*\{\s*None\s*\}\s*else\s*\{\s*let\s+lowest\s*=\s*(?P<low>[^;]+);'
                     r'\s*self\.0\s*(?P<op>&=|\^=|\|=|=)\s*(?P<upd>[^;]+);\s*Some\(lowest\)\s*\}\s*\}\s*$', body.strip(), re.S)
        if not m:
            raise Fail(f'{b}::TinySet::pop_lowest: body no longer has the shape `if empty {{None}} else {{let lowest = E1; self.0 OP= E2; Some(lowest)}}`')
        env = {'self': ('self_', 'u64')}
        try:
            low, lty = rs2lean.translate_expr(m.group('low'), env, {}, nt, dict(calls))
            env2 = dict(env); env2['lowest'] = ("lowest'", lty)
            upd, uty = rs2lean.translate_expr(m.group('upd'), env2, {}, nt, dict(calls), 'u64')
        except rs2lean.Unsupported as e:
            raise Fail(f'{b}::TinySet::pop_lowest: {e}')
        if lty != 'u32' or uty != 'u64':
            raise Fail(f'{b}::TinySet::pop_lowest: types {lty} / {uty}')
        new = {'&=': f'(self_ &&& {upd})', '^=': f'(self_ ^^^ {upd})', '|=': f'(self_ ||| {upd})', '=': upd}[m.group('op')]
        return (f'-- translated from {b}::TinySet::pop_lowest (result, new value of the set)\n'
                f'def tinyset_pop_lowest (self_ : BitVec 64) : Option (BitVec 32) × BitVec 64 :=\n'
                f"  (if (tinyset_is_empty self_) then (none, self_) else (let lowest' := {low}; (some lowest', {new})))")
    items.append(pop_lowest)
    items.append(lambda: 'end Fn')
