# Gen/PureFns.lean — closed pure functions translated mechanically from the Rust source by
# extract/rs2lean.py (see its header for the subset and the semantics).
import importlib.util as _ilu
_spec = _ilu.spec_from_file_location('rs2lean', os.path.join(os.path.dirname(os.path.abspath(__file__)), 'rs2lean.py'))
rs2lean = _ilu.module_from_spec(_spec); _spec.loader.exec_module(rs2lean)

def _fn(path, name, consts=None, lean_name=None):
    def go():
        try:
            return f'-- translated from {path}::{name}\n' + rs2lean.translate_fn(src(path), name, consts or {}, lean_name)
        except rs2lean.Unsupported as e:
            raise Fail(f'{path}::{name}: outside the translatable subset: {e}')
    return go

@module('PureFns')
def gen_purefns(items):
    items.append(lambda: 'namespace Fn')
    c = 'common/src/lib.rs'
    def hb():
        return {'HIGHEST_BIT': (const(c, 'HIGHEST_BIT'), 'u64')}
    items.append(lambda: _fn(c, 'i64_to_u64', hb())())
    items.append(lambda: _fn(c, 'u64_to_i64', hb())())
    items.append(lambda: _fn(c, 'f64_to_u64', hb())())
    items.append(lambda: _fn(c, 'u64_to_f64', hb())())
    items.append(_fn('bitpacker/src/lib.rs', 'compute_num_bits'))
    s = 'src/postings/skip.rs'
    items.append(_fn(s, 'encode_bitwidth'))
    items.append(_fn(s, 'decode_bitwidth'))
    items.append(_fn(s, 'encode_block_wand_max_tf'))
    items.append(_fn(s, 'decode_block_wand_max_tf'))
    items.append(lambda: 'end Fn')
