//! Correspondence for the functions `extract/rs2lean.py` translates from the Rust source
//! (`Gen/PureFns.lean`): the translation executed by the Lean driver vs the real functions.
use crate::Ctx;
use serde_json::json;

fn interesting_u64(ctx: &mut Ctx, n: usize) -> Vec<u64> {
    let mut v: Vec<u64> = vec![0, 1, 2, 127, 128, 255, 256, u64::MAX, u64::MAX - 1, 1 << 63, (1 << 63) - 1, (1 << 63) + 1,
        1 << 56, (1 << 56) - 1, (1 << 56) + 1, 1 << 55, 1 << 57, f64::NAN.to_bits(), f64::INFINITY.to_bits(),
        f64::NEG_INFINITY.to_bits(), (-0.0f64).to_bits(), 0.0f64.to_bits(), 1.0f64.to_bits(), (-1.0f64).to_bits(),
        f64::MIN_POSITIVE.to_bits(), f64::MAX.to_bits(), f64::MIN.to_bits(), i64::MIN as u64, i64::MAX as u64, (-1i64) as u64];
    for s in 0..64 {
        v.push(1u64 << s);
        v.push((1u64 << s).wrapping_sub(1));
    }
    for _ in 0..n {
        let x = ctx.rng.next_u64();
        v.push(x >> ctx.rng.below(64));
    }
    v
}

/// `which`: subset of {"mono", "bits"}; reports under the calling property's report
pub fn check(ctx: &mut Ctx, which: &[&str], n: usize) {
    let xs = interesting_u64(ctx, n);
    for &x in &xs {
        let mut pairs: Vec<(&str, String, String)> = vec![];
        if which.contains(&"mono") {
            pairs.push(("i64_to_u64", x.to_string(), tantivy_common::i64_to_u64(x as i64).to_string()));
            pairs.push(("u64_to_i64", x.to_string(), (tantivy_common::u64_to_i64(x) as u64).to_string()));
            pairs.push(("f64_to_u64", x.to_string(), tantivy_common::f64_to_u64(f64::from_bits(x)).to_string()));
            let back = tantivy_common::u64_to_f64(x).to_bits();
            // NaN payloads may be canonicalised by f64 moves on some targets; compare non-NaN only
            if !f64::from_bits(back).is_nan() {
                pairs.push(("u64_to_f64", x.to_string(), back.to_string()));
            }
        }
        if which.contains(&"bits") {
            pairs.push(("compute_num_bits", x.to_string(), tantivy_bitpacker::compute_num_bits(x).to_string()));
        }
        for (f, arg, real) in pairs {
            let model = ctx.model.ask(&format!("PF {f} {arg}"));
            ctx.report.count(&format!("purefn:{f}"));
            if model != real {
                ctx.report.violation("model", &format!("PF:{f}-translation-differs"),
                    format!("{f}({arg}): real {real} vs translated model {model}"),
                    json!({"kind": "purefn", "fn": f, "arg": arg}));
            }
        }
    }
    // oracle on the implementation: order preservation on sampled pairs
    if which.contains(&"mono") {
        for w in xs.windows(2) {
            let (a, b) = (w[0] as i64, w[1] as i64);
            if (a < b) != (tantivy_common::i64_to_u64(a) < tantivy_common::i64_to_u64(b)) {
                ctx.report.violation("oracle", "PF:i64_to_u64-not-monotone", format!("i64_to_u64 order broken on {a}, {b}"), json!({"kind":"purefn-mono","a":a,"b":b}));
            }
            let (fa, fb) = (f64::from_bits(w[0]), f64::from_bits(w[1]));
            if !fa.is_nan() && !fb.is_nan() && fa < fb && !(tantivy_common::f64_to_u64(fa) < tantivy_common::f64_to_u64(fb)) {
                ctx.report.violation("oracle", "PF:f64_to_u64-not-monotone", format!("f64_to_u64 order broken on {fa:e}, {fb:e}"), json!({"kind":"purefn-mono-f64","a":w[0],"b":w[1]}));
            }
        }
    }
}

/// `TinySet` (common/src/bitset.rs): the translated methods vs the real ones, and the set
/// semantics as an oracle on the implementation (element `i` <-> bit `i`).
pub fn check_tinyset(ctx: &mut Ctx, n: usize) {
    use tantivy_common::TinySet;
    let words = interesting_u64(ctx, n);
    let ask = |ctx: &mut Ctx, f: &str, args: String, real: String| {
        let model = ctx.model.ask(&format!("PF {f} {args}"));
        ctx.report.count(&format!("purefn:{f}"));
        if model != real {
            ctx.report.violation("model", &format!("PF:{f}-translation-differs"),
                format!("{f}({args}): real {real} vs translated model {model}"),
                json!({"kind": "purefn", "fn": f, "arg": args}));
        }
    };
    let word = |t: TinySet| -> u64 { u64::from_le_bytes(t.into_bytes()) };
    let set = |w: u64| -> TinySet { TinySet::deserialize(w.to_le_bytes()) };
    ask(ctx, "tinyset_full", String::new(), word(TinySet::full()).to_string());
    for el in 0u32..64 {
        ask(ctx, "tinyset_singleton", el.to_string(), word(TinySet::singleton(el)).to_string());
        ask(ctx, "tinyset_range_lower", el.to_string(), word(TinySet::range_lower(el)).to_string());
        ask(ctx, "tinyset_range_greater_or_equal", el.to_string(), word(TinySet::range_greater_or_equal(el)).to_string());
        // oracle: the sets they denote
        let lower: u64 = (0..64u32).filter(|i| *i < el).fold(0u64, |a, i| a | (1u64 << i));
        if word(TinySet::range_lower(el)) != lower || word(TinySet::range_greater_or_equal(el)) != !lower || word(TinySet::singleton(el)) != 1u64 << el {
            ctx.report.violation("oracle", "PF:tinyset-range-or-singleton-wrong", format!("TinySet range_lower / range_greater_or_equal / singleton wrong at {el}"), json!({"kind":"tinyset","el":el}));
        }
    }
    for &w in &words {
        let el = ctx.rng.below(64) as u32;
        let s = set(w);
        ask(ctx, "tinyset_insert", format!("{w} {el}"), word(s.insert(el)).to_string());
        ask(ctx, "tinyset_remove", format!("{w} {el}"), word(s.remove(el)).to_string());
        ask(ctx, "tinyset_contains", format!("{w} {el}"), (s.contains(el) as u8).to_string());
        let mut t = s;
        let popped = t.pop_lowest();
        let real = format!("{},{}", popped.map(|l| l.to_string()).unwrap_or("none".into()), word(t));
        ask(ctx, "tinyset_pop_lowest", w.to_string(), real);
        // oracle on the implementation
        let expect_pop = if w == 0 { None } else { Some(w.trailing_zeros()) };
        let expect_rest = if w == 0 { 0 } else { w & !(1u64 << w.trailing_zeros()) };
        if popped != expect_pop || word(t) != expect_rest || s.contains(el) != ((w >> el) & 1 == 1)
            || word(s.insert(el)) != (w | (1u64 << el)) || word(s.remove(el)) != (w & !(1u64 << el)) {
            ctx.report.violation("oracle", "PF:tinyset-set-semantics-wrong", format!("TinySet({w:#x}) with element {el}: insert / remove / contains / pop_lowest do not implement the set of bit positions"), json!({"kind":"tinyset","w":w,"el":el}));
        }
    }
}
