#![allow(dead_code)]
//! `tvh <Cxx> --tier quick|thorough --seed N --model <tvmodel> --out <report.json> [--replay <file>]`
//!
//! Correspondence harness: drives the real tantivy code (linked from /repo's working tree with
//! `--cfg tantivy_verif`) and the compiled Lean model on the same generated inputs and reports
//! disagreements and oracle violations. It never decides a verdict; `/verif/check` does.
mod c07_more;
mod c07_util;
mod c16gen;
mod dirs;
mod model;
mod props;
mod purefns;
mod report;
mod rng;
mod segdump;

use report::Report;
use std::time::Instant;

pub struct Ctx {
    pub tier: String,
    pub seed: u64,
    pub model: model::Model,
    pub rng: rng::Rng,
    pub report: Report,
    pub replay: Option<serde_json::Value>,
}

impl Ctx {
    pub fn thorough(&self) -> bool {
        self.tier == "thorough"
    }
    /// number of generated cases: `quick` in the quick tier, `thorough` otherwise
    pub fn budget(&self, quick: u64, thorough: u64) -> u64 {
        if self.thorough() { thorough } else { quick }
    }
}

fn main() {
    let args: Vec<String> = std::env::args().collect();
    if args.len() < 2 {
        eprintln!("usage: tvh <Cxx> --tier T --seed N --model PATH --out FILE [--replay FILE]");
        std::process::exit(2);
    }
    let prop = args[1].clone();
    let mut tier = "quick".to_string();
    let mut seed: u64 = 20260925;
    let mut model_path = "/verif/lean/.lake/build/bin/tvmodel".to_string();
    let mut out: Option<String> = None;
    let mut replay: Option<String> = None;
    let mut i = 2;
    while i < args.len() {
        match args[i].as_str() {
            "--tier" => { tier = args[i + 1].clone(); i += 2; }
            "--seed" => { seed = args[i + 1].parse().expect("seed"); i += 2; }
            "--model" => { model_path = args[i + 1].clone(); i += 2; }
            "--out" => { out = Some(args[i + 1].clone()); i += 2; }
            "--replay" => { replay = Some(args[i + 1].clone()); i += 2; }
            other => { eprintln!("unknown argument {other}"); std::process::exit(2); }
        }
    }
    // keep panics of the code under test quiet; each case is run under catch_unwind
    std::panic::set_hook(Box::new(|_| {}));
    let replay_case = replay.map(|p| {
        let text = std::fs::read_to_string(&p).expect("replay file");
        let v: serde_json::Value = serde_json::from_str(&text).expect("replay json");
        v.get("case").cloned().unwrap_or(v)
    });
    let t0 = Instant::now();
    let mut ctx = Ctx {
        tier: tier.clone(),
        seed,
        model: model::Model::spawn(&model_path),
        rng: rng::Rng::new(seed),
        report: Report::new(&prop, &tier, seed),
        replay: replay_case,
    };
    if !props::run(&prop, &mut ctx) {
        eprintln!("unknown property {prop}");
        std::process::exit(2);
    }
    ctx.report.model_requests = ctx.model.requests;
    ctx.report.wall_s = t0.elapsed().as_secs_f64();
    let text = serde_json::to_string_pretty(&ctx.report).unwrap();
    match out {
        Some(p) => std::fs::write(p, text).unwrap(),
        None => println!("{text}"),
    }
}
