//! C16 helper: abstract queries (`Q`), their printing with random meaning-preserving layout,
//! their encoding for the Lean model, the typed corpus and the brute-force meaning.
use crate::rng::Rng;
use std::collections::HashMap;

#[derive(Clone, Copy, Debug, PartialEq, Eq)]
pub enum Op {
    Or,
    And,
}
#[derive(Clone, Copy, Debug, PartialEq, Eq)]
pub enum Occ {
    Should,
    Must,
    MustNot,
}

/// abstract query; leaves are indices into `Gen::leaves`
#[derive(Clone, Debug)]
pub enum Q {
    Leaf(usize),
    Boost(Box<Q>, f64),
    Neg(Box<Q>),
    Scoped(usize, Box<Q>),
    Seq(Vec<(Option<Op>, Option<Occ>, Q)>),
}

/// typed value of a field / literal
#[derive(Clone, Debug, PartialEq)]
pub enum Val {
    Str(String),
    U(u64),
    I(i64),
    F(f64),
    Date(i64),
    Ip(u128),
    Bytes(Vec<u8>),
    Bool(bool),
    Facet(String),
}

impl Val {
    pub fn cmp(&self, o: &Val) -> Option<std::cmp::Ordering> {
        use Val::*;
        match (self, o) {
            (Str(a), Str(b)) => Some(a.as_bytes().cmp(b.as_bytes())),
            (U(a), U(b)) => Some(a.cmp(b)),
            (I(a), I(b)) => Some(a.cmp(b)),
            (F(a), F(b)) => a.partial_cmp(b),
            (Date(a), Date(b)) => Some(a.cmp(b)),
            (Ip(a), Ip(b)) => Some(a.cmp(b)),
            (Bytes(a), Bytes(b)) => Some(a.cmp(b)),
            (Bool(a), Bool(b)) => Some(a.cmp(b)),
            // json: an integer literal also matches as text and vice versa is handled by the caller
            _ => None,
        }
    }
    /// term equality (facets: the query path is a prefix of the document's path)
    pub fn term_eq(&self, lit: &Val) -> bool {
        match (self, lit) {
            (Val::Facet(d), Val::Facet(q)) => d == q || (d.starts_with(q.as_str()) && d.as_bytes().get(q.len()) == Some(&b'/')),
            (Val::F(a), Val::F(b)) => a == b,
            _ => self == lit,
        }
    }
}

/// a literal as written in the query: the logical text (after unescaping) and its typed value
#[derive(Clone, Debug)]
pub struct Lit {
    pub text: String,
    pub val: Val,
}

#[derive(Clone, Debug)]
pub enum Bd {
    Unbounded,
    Incl(Lit),
    Excl(Lit),
}

#[derive(Clone, Copy, Debug, PartialEq, Eq)]
pub enum Delim {
    None,
    Single,
    Double,
}

#[derive(Clone, Debug)]
pub enum LeafSpec {
    /// a literal: one word / typed value (Delim says how it is written), slop written after it
    Lit { field: Option<usize>, lit: Lit, delim: Delim, slop: u32 },
    /// a quoted phrase of >= 2 words on a text field
    Phrase { field: Option<usize>, words: Vec<String>, delim: Delim, slop: u32, prefix: bool },
    /// `elastic`: written with > >= < <= (one bound is Unbounded)
    Range { field: Option<usize>, lo: Bd, hi: Bd, elastic: bool },
    Set { field: Option<usize>, elems: Vec<(Lit, Delim)> },
    Exists { field: usize },
    All,
}

/// fields of the typed schema (index = id used towards the Lean model)
pub const FIELDS: &[&str] = &[
    "title", "body", "tag", "n_u64", "n_i64", "n_f64", "when", "ip", "blob", "flag", "cat", "js.k", "js.n", "js.a.b", "stop",
    // names that are not in the schema (grammar-level tests only)
    "nofield", "a.b", "x_y",
];
pub const F_TITLE: usize = 0;
pub const F_BODY: usize = 1;
pub const F_TAG: usize = 2;
pub const F_U64: usize = 3;
pub const F_I64: usize = 4;
pub const F_F64: usize = 5;
pub const F_WHEN: usize = 6;
pub const F_IP: usize = 7;
pub const F_BLOB: usize = 8;
pub const F_FLAG: usize = 9;
pub const F_CAT: usize = 10;
pub const F_JSK: usize = 11;
pub const F_JSN: usize = 12;
pub const F_JSAB: usize = 13;
/// text field whose analyzer (SimpleTokenizer + LowerCaser + StopWordFilter) drops tokens but keeps positions
pub const F_STOP: usize = 14;
pub const N_SCHEMA_FIELDS: usize = 15;
pub const STOP_WORDS: &[&str] = &["the", "of"];

pub const WORDS: &[&str] = &["a", "b", "c", "d", "e", "ab", "abc", "bcd", "zed"];
pub const TAGS: &[&str] = &["t1", "t2", "x-y", "k:v", "sp ace", "Up"];
pub const FACETS: &[&str] = &["/a", "/a/b", "/a/b/c", "/x", "/x/y"];

#[derive(Clone, Debug)]
pub struct DocRec {
    pub title: Vec<String>,
    pub body: Vec<String>,
    pub tag: String,
    pub nu: u64,
    pub ni: i64,
    pub nf: f64,
    pub when: i64,
    pub ip: u128,
    pub blob: Vec<u8>,
    pub flag: bool,
    pub cat: String,
    pub jsk: String,
    pub jsn: i64,
    pub jsab: String,
    /// raw words of the stop-word field (stop words included)
    pub stop: Vec<String>,
}

pub const DATE_BASE: i64 = 1_033_570_800; // 2002-10-02T15:00:00Z

pub fn rfc3339(secs: i64) -> String {
    let dt = time::OffsetDateTime::from_unix_timestamp(secs).unwrap();
    dt.format(&time::format_description::well_known::Rfc3339).unwrap()
}

pub fn ip_text(ip: u128) -> String {
    let v6 = std::net::Ipv6Addr::from(ip);
    match v6.to_ipv4_mapped() {
        Some(v4) => v4.to_string(),
        None => v6.to_string(),
    }
}

pub fn b64(bytes: &[u8]) -> String {
    const T: &[u8; 64] = b"ABCDEFGHIJKLMNOPQRSTUVWXYZabcdefghijklmnopqrstuvwxyz0123456789+/";
    let mut s = String::new();
    for ch in bytes.chunks(3) {
        let b = [ch[0], *ch.get(1).unwrap_or(&0), *ch.get(2).unwrap_or(&0)];
        let n = ((b[0] as u32) << 16) | ((b[1] as u32) << 8) | b[2] as u32;
        s.push(T[(n >> 18) as usize & 63] as char);
        s.push(T[(n >> 12) as usize & 63] as char);
        s.push(if ch.len() > 1 { T[(n >> 6) as usize & 63] as char } else { '=' });
        s.push(if ch.len() > 2 { T[n as usize & 63] as char } else { '=' });
    }
    s
}

const IPS: &[u128] = &[
    0xffff_c0a8_0001,            // 192.168.0.1
    0xffff_c0a8_00ff,            // 192.168.0.255
    0xffff_0a00_0001,            // 10.0.0.1
    1,                           // ::1
    0x2001_0db8_0000_0000_0000_0000_0000_0001,
];

pub fn gen_doc(rng: &mut Rng) -> DocRec {
    let words = |rng: &mut Rng, max: usize| -> Vec<String> {
        let n = rng.usize_below(max + 1);
        (0..n).map(|_| rng.pick(WORDS).to_string()).collect()
    };
    DocRec {
        title: words(rng, 5),
        body: words(rng, 8),
        tag: rng.pick(TAGS).to_string(),
        nu: *rng.pick(&[0u64, 1, 2, 3, 5, 10, 42, 1000, u64::MAX]),
        ni: *rng.pick(&[-1000i64, -5, -1, 0, 1, 3, 7, 42, i64::MAX, i64::MIN]),
        nf: *rng.pick(&[-2.25f64, -1.0, 0.0, 0.5, 1.5, 3.0, 60.7, 1e10]),
        when: DATE_BASE + 3600 * (rng.below(8) as i64) - 7200,
        ip: *rng.pick(IPS),
        blob: rng.pick(&[&b"abc"[..], b"a", b"ab", b"\x00\xff\xfe", b"hello!"]).to_vec(),
        flag: rng.chance(1, 2),
        cat: rng.pick(FACETS).to_string(),
        jsk: rng.pick(WORDS).to_string(),
        jsn: *rng.pick(&[1i64, 2, 5, 42]),
        jsab: rng.pick(WORDS).to_string(),
        stop: {
            let n = rng.usize_below(8);
            (0..n).map(|_| if rng.chance(1, 3) { rng.pick(STOP_WORDS).to_string() } else { rng.pick(WORDS).to_string() }).collect()
        },
    }
}

impl DocRec {
    pub fn to_json(&self, id: u64) -> serde_json::Value {
        serde_json::json!({
            "id": id,
            "title": self.title.join(" "),
            "body": self.body.join(" "),
            "tag": self.tag,
            "n_u64": self.nu, "n_i64": self.ni, "n_f64": self.nf,
            "when": rfc3339(self.when),
            "ip": std::net::Ipv6Addr::from(self.ip).to_string(),
            "blob": b64(&self.blob),
            "flag": self.flag,
            "cat": self.cat,
            "js": {"k": self.jsk, "n": self.jsn, "a": {"b": self.jsab}},
            "stop": self.stop.join(" "),
        })
    }
    /// the indexed values of a field, as the analysed terms
    pub fn vals(&self, f: usize) -> Vec<Val> {
        match f {
            F_TITLE => self.title.iter().map(|w| Val::Str(w.clone())).collect(),
            F_BODY => self.body.iter().map(|w| Val::Str(w.clone())).collect(),
            F_TAG => vec![Val::Str(self.tag.clone())],
            F_U64 => vec![Val::U(self.nu)],
            F_I64 => vec![Val::I(self.ni)],
            F_F64 => vec![Val::F(self.nf)],
            F_WHEN => vec![Val::Date(self.when)],
            F_IP => vec![Val::Ip(self.ip)],
            F_BLOB => vec![Val::Bytes(self.blob.clone())],
            F_FLAG => vec![Val::Bool(self.flag)],
            F_CAT => vec![Val::Facet(self.cat.clone())],
            F_JSK => vec![Val::Str(self.jsk.clone())],
            F_JSN => vec![Val::I(self.jsn)],
            F_JSAB => vec![Val::Str(self.jsab.clone())],
            F_STOP => self.stop.iter().filter(|w| !STOP_WORDS.contains(&w.as_str())).map(|w| Val::Str(w.clone())).collect(),
            _ => vec![],
        }
    }
    /// the analysed tokens of a text field with their positions (a dropped stop word leaves a gap)
    pub fn positions(&self, f: usize) -> Option<Vec<(i64, String)>> {
        match f {
            F_TITLE => Some(self.title.iter().enumerate().map(|(i, w)| (i as i64, w.clone())).collect()),
            F_BODY => Some(self.body.iter().enumerate().map(|(i, w)| (i as i64, w.clone())).collect()),
            F_STOP => Some(kept_positions(f, &self.stop)),
            _ => None,
        }
    }
}

/// counterfactual switch for the known defect of `PhrasePrefixScorer` (a gap right before the
/// prefix term of a phrase with >= 3 kept terms is ignored: the prefix term is expected directly
/// after the last phrase term): when set, `matches_on` evaluates prefix phrases that way
pub static PREFIX_GAP_DEFECT: std::sync::atomic::AtomicBool = std::sync::atomic::AtomicBool::new(false);

/// does the query contain a prefix phrase with >= 3 kept terms and dropped tokens right before the last one
pub fn has_prefix_gap_leaf(g: &Gen) -> bool {
    g.leaves.iter().any(|l| match l {
        LeafSpec::Phrase { field: Some(f), words, prefix: true, .. } => {
            let q = kept_positions(*f, words);
            q.len() >= 3 && q[q.len() - 1].0 != q[q.len() - 2].0 + 1
        }
        _ => false,
    })
}

/// what the field's analyzer keeps of a word sequence: (position, lower-cased token)
pub fn kept_positions(f: usize, words: &[String]) -> Vec<(i64, String)> {
    words
        .iter()
        .enumerate()
        .map(|(i, w)| (i as i64, w.to_lowercase()))
        .filter(|(_, w)| f != F_STOP || !STOP_WORDS.contains(&w.as_str()))
        .collect()
}

/// how a query-side literal is analysed on a field: text fields lower-case, `tag` is raw
fn analysed(f: usize, lit: &Lit) -> Val {
    match (&lit.val, f) {
        (Val::Str(s), F_TITLE | F_BODY | F_JSK | F_JSAB | F_STOP) => Val::Str(s.to_lowercase()),
        (v, _) => v.clone(),
    }
}

pub const DEFAULT_FIELDS: &[usize] = &[F_TITLE, F_BODY];

impl LeafSpec {
    pub fn field(&self) -> Option<usize> {
        match self {
            LeafSpec::Lit { field, .. } | LeafSpec::Phrase { field, .. } | LeafSpec::Range { field, .. } | LeafSpec::Set { field, .. } => *field,
            LeafSpec::Exists { field } => Some(*field),
            LeafSpec::All => None,
        }
    }
    /// does the leaf, resolved on field `f`, match the document (native brute force)
    pub fn matches_on(&self, f: usize, doc: &DocRec) -> bool {
        match self {
            LeafSpec::Lit { lit, .. } => {
                let q = analysed(f, lit);
                doc.vals(f).iter().any(|v| v.term_eq(&q))
            }
            LeafSpec::Phrase { words, slop, prefix, .. } => {
                let toks = match doc.positions(f) {
                    Some(t) => t,
                    None => return false,
                };
                // the phrase is analysed like the field: dropped tokens keep their position (offset)
                let q = kept_positions(f, words);
                if q.is_empty() {
                    return false;
                }
                let has = |p: i64, w: &str, as_prefix: bool| toks.iter().any(|(tp, tw)| *tp == p && if as_prefix { tw.starts_with(w) } else { tw == w });
                if *slop == 0 || *prefix {
                    let n = q.len();
                    let defect = *prefix && n >= 3 && PREFIX_GAP_DEFECT.load(std::sync::atomic::Ordering::Relaxed);
                    toks.iter().any(|(p0, w0)| {
                        (if n == 1 && *prefix { w0.starts_with(q[0].1.as_str()) } else { *w0 == q[0].1 })
                            && (1..n).all(|k| {
                                let off = if defect && k == n - 1 { q[n - 2].0 + 1 } else { q[k].0 };
                                has(p0 + off - q[0].0, &q[k].1, *prefix && k == n - 1)
                            })
                    })
                } else {
                    // two kept words only (generator invariant): |pos(a) + (off_b - off_a) - pos(b)| <= slop
                    let d = q[1].0 - q[0].0;
                    toks.iter().filter(|(_, w)| *w == q[0].1).any(|(a, _)| toks.iter().filter(|(_, w)| *w == q[1].1).any(|(b, _)| (a + d - b).abs() <= *slop as i64))
                }
            }
            LeafSpec::Range { lo, hi, .. } => doc.vals(f).iter().any(|v| {
                let lo_ok = match lo {
                    Bd::Unbounded => true,
                    Bd::Incl(l) => v.cmp(&analysed(f, l)).map(|o| o != std::cmp::Ordering::Less).unwrap_or(false),
                    Bd::Excl(l) => v.cmp(&analysed(f, l)).map(|o| o == std::cmp::Ordering::Greater).unwrap_or(false),
                };
                let hi_ok = match hi {
                    Bd::Unbounded => true,
                    Bd::Incl(l) => v.cmp(&analysed(f, l)).map(|o| o != std::cmp::Ordering::Greater).unwrap_or(false),
                    Bd::Excl(l) => v.cmp(&analysed(f, l)).map(|o| o == std::cmp::Ordering::Less).unwrap_or(false),
                };
                lo_ok && hi_ok
            }),
            LeafSpec::Set { elems, .. } => doc.vals(f).iter().any(|v| elems.iter().any(|(l, _)| v.term_eq(&analysed(f, l)))),
            LeafSpec::Exists { .. } => false,
            LeafSpec::All => true,
        }
    }
    /// (kind, canonical descriptor) as the grammar should report the leaf
    pub fn descriptor(&self) -> (u32, String) {
        let d = |d: &Delim| match d {
            Delim::None => "none",
            Delim::Single => "single_quotes",
            Delim::Double => "double_quotes",
        };
        let b = |b: &Bd| match b {
            Bd::Unbounded => "u".to_string(),
            Bd::Incl(l) => format!("i:{}", l.text),
            Bd::Excl(l) => format!("e:{}", l.text),
        };
        match self {
            LeafSpec::Lit { lit, delim, slop, .. } => (0, format!("L|{}|{}|{}|false", lit.text, d(delim), slop)),
            LeafSpec::Phrase { words, delim, slop, prefix, .. } => (0, format!("L|{}|{}|{}|{}", words.join(" "), d(delim), slop, prefix)),
            LeafSpec::Range { lo, hi, .. } => (1, format!("R|{}|{}", b(lo), b(hi))),
            LeafSpec::Set { elems, .. } => (2, format!("S|{}", elems.iter().map(|(l, _)| l.text.clone()).collect::<Vec<_>>().join("|"))),
            LeafSpec::Exists { .. } => (3, String::new()),
            LeafSpec::All => (4, String::new()),
        }
    }
}

/// interning of leaf descriptors: id 0 is reserved for exists / all
#[derive(Default)]
pub struct Intern {
    pub map: HashMap<String, usize>,
}
impl Intern {
    pub fn id(&mut self, d: &str) -> usize {
        if d.is_empty() {
            return 0;
        }
        let n = self.map.len() + 1;
        *self.map.entry(d.to_string()).or_insert(n)
    }
}

pub struct Gen {
    pub leaves: Vec<LeafSpec>,
}

fn ws(rng: &mut Rng, min1: bool) -> String {
    let n = if min1 { 1 + rng.below(3) as usize } else { rng.below(3) as usize };
    let mut s = String::new();
    for _ in 0..n {
        s.push(match rng.below(12) {
            0 => '\t',
            1 => '\n',
            _ => ' ',
        });
    }
    if n == 0 && rng.chance(1, 20) {
        s.push(' ');
    }
    s
}

/// write a word so that the grammar reads back `text` (escape what must be escaped)
fn escape_word(text: &str) -> String {
    let mut s = String::new();
    for (i, c) in text.chars().enumerate() {
        let special = c.is_whitespace() || ['^', '`', ':', '{', '}', '"', '\'', '[', ']', '(', ')', '\\'].contains(&c) || (i == 0 && (c == '-' || c == '+'));
        if special {
            s.push('\\');
        }
        s.push(c);
    }
    s
}

fn quote(text: &str, q: char) -> String {
    let mut s = String::new();
    s.push(q);
    for c in text.chars() {
        if c == q || c == '\\' {
            s.push('\\');
        }
        s.push(c);
    }
    s.push(q);
    s
}

fn print_lit(text: &str, delim: Delim) -> String {
    match delim {
        Delim::None => {
            // negative numbers are written as they are
            if text.starts_with('-') && text[1..].chars().all(|c| c.is_ascii_digit() || c == '.') && text.len() > 1 {
                text.to_string()
            } else {
                escape_word(text)
            }
        }
        Delim::Single => quote(text, '\''),
        Delim::Double => quote(text, '"'),
    }
}

fn print_field(rng: &mut Rng, f: Option<usize>) -> String {
    match f {
        None => String::new(),
        Some(f) => {
            let a = if rng.chance(1, 8) { " " } else { "" };
            let b = if rng.chance(1, 6) { " " } else { "" };
            format!("{}{a}:{b}", FIELDS[f])
        }
    }
}

impl Gen {
    pub fn print_leaf(&self, rng: &mut Rng, i: usize) -> String {
        match &self.leaves[i] {
            LeafSpec::Lit { field, lit, delim, slop } => {
                let mut s = print_field(rng, *field);
                s.push_str(&print_lit(&lit.text, *delim));
                if *slop > 0 {
                    s.push_str(&format!("~{slop}"));
                }
                s
            }
            LeafSpec::Phrase { field, words, delim, slop, prefix } => {
                let mut s = print_field(rng, *field);
                s.push_str(&print_lit(&words.join(" "), *delim));
                if *slop > 0 {
                    s.push_str(&format!("~{slop}"));
                } else if *prefix {
                    s.push('*');
                }
                s
            }
            LeafSpec::Range { field, lo, hi, elastic } => {
                let mut s = print_field(rng, *field);
                let txt = |l: &Lit| l.text.clone();
                if *elastic {
                    let sp = if rng.chance(1, 4) { " " } else { "" };
                    match (lo, hi) {
                        (Bd::Incl(l), Bd::Unbounded) => s.push_str(&format!(">={sp}{}", txt(l))),
                        (Bd::Excl(l), Bd::Unbounded) => s.push_str(&format!(">{sp}{}", txt(l))),
                        (Bd::Unbounded, Bd::Incl(l)) => s.push_str(&format!("<={sp}{}", txt(l))),
                        (Bd::Unbounded, Bd::Excl(l)) => s.push_str(&format!("<{sp}{}", txt(l))),
                        _ => unreachable!(),
                    }
                } else {
                    let (lc, lt) = match lo {
                        Bd::Unbounded => (*rng.pick(&['[', '{']), "*".to_string()),
                        Bd::Incl(l) => ('[', txt(l)),
                        Bd::Excl(l) => ('{', txt(l)),
                    };
                    let (hc, ht) = match hi {
                        Bd::Unbounded => (*rng.pick(&[']', '}']), "*".to_string()),
                        Bd::Incl(l) => (']', txt(l)),
                        Bd::Excl(l) => ('}', txt(l)),
                    };
                    let a = if rng.chance(1, 5) { " " } else { "" };
                    let b = if rng.chance(1, 5) { " " } else { "" };
                    let m1 = if rng.chance(1, 5) { "  " } else { " " };
                    let m2 = if rng.chance(1, 5) { " \t" } else { " " };
                    s.push_str(&format!("{lc}{a}{lt}{m1}TO{m2}{ht}{b}{hc}"));
                }
                s
            }
            LeafSpec::Set { field, elems } => {
                let mut s = print_field(rng, *field);
                let a = if rng.chance(1, 4) { "  " } else { " " };
                let b = if rng.chance(1, 4) { " " } else { "" };
                s.push_str(&format!("IN{a}[{b}"));
                for (k, (l, d)) in elems.iter().enumerate() {
                    if k > 0 {
                        s.push_str(if rng.chance(1, 5) { "  " } else { " " });
                    }
                    s.push_str(&print_lit(&l.text, *d));
                }
                s.push(']');
                s
            }
            LeafSpec::Exists { field } => format!("{}:{}*", FIELDS[*field], if rng.chance(1, 4) { " " } else { "" }),
            LeafSpec::All => "*".to_string(),
        }
    }

    /// print `q`; `top` = no parentheses around an operand list
    pub fn print(&self, rng: &mut Rng, q: &Q, top: bool) -> String {
        match q {
            Q::Leaf(i) => self.print_leaf(rng, *i),
            Q::Boost(inner, b) => {
                let s = self.print(rng, inner, false);
                let bs = if b.fract() == 0.0 && rng.chance(1, 2) { format!("{}", *b as u64) } else { format!("{b:?}") };
                format!("{s}^{bs}")
            }
            Q::Neg(inner) => format!("NOT{}{}", " ".repeat(1 + rng.below(2) as usize), self.print(rng, inner, false)),
            Q::Scoped(f, inner) => {
                let a = if rng.chance(1, 6) { " " } else { "" };
                format!("{}:{a}{}", FIELDS[*f], self.print(rng, inner, false))
            }
            Q::Seq(items) => {
                let mut s = String::new();
                if !top {
                    s.push('(');
                }
                s.push_str(&ws(rng, false));
                for (k, (op, occ, sub)) in items.iter().enumerate() {
                    if k > 0 {
                        if op.is_some() { s.push_str(&ws(rng, true)); } else { s.push_str(&" ".repeat(1 + rng.below(3) as usize)); }
                    }
                    match op {
                        Some(Op::And) => {
                            s.push_str("AND ");
                            s.push_str(&ws(rng, false));
                        }
                        Some(Op::Or) => {
                            s.push_str("OR ");
                            s.push_str(&ws(rng, false));
                        }
                        None => {}
                    }
                    match occ {
                        Some(Occ::Must) => s.push('+'),
                        Some(Occ::MustNot) => s.push('-'),
                        Some(Occ::Should) | None => {}
                    }
                    s.push_str(&self.print(rng, sub, false));
                }
                s.push_str(&ws(rng, false));
                if !top {
                    s.push(')');
                }
                s
            }
        }
    }

    /// token string of `q` for the Lean model
    pub fn encode(&self, intern: &mut Intern, q: &Q, out: &mut Vec<String>) {
        match q {
            Q::Leaf(i) => {
                let l = &self.leaves[*i];
                let (kind, d) = l.descriptor();
                out.push("l".into());
                out.push(match l.field() {
                    Some(f) => f.to_string(),
                    None => "-".into(),
                });
                out.push(kind.to_string());
                out.push(intern.id(&d).to_string());
            }
            Q::Boost(inner, b) => {
                out.push("b".into());
                out.push(b.to_bits().to_string());
                self.encode(intern, inner, out);
            }
            Q::Neg(inner) => {
                out.push("n".into());
                self.encode(intern, inner, out);
            }
            Q::Scoped(f, inner) => {
                out.push("f".into());
                out.push(f.to_string());
                self.encode(intern, inner, out);
            }
            Q::Seq(items) => {
                out.push("s".into());
                out.push(items.len().to_string());
                for (op, occ, sub) in items {
                    out.push(match op {
                        None => "-",
                        Some(Op::Or) => "o",
                        Some(Op::And) => "a",
                    }.into());
                    out.push(match occ {
                        None => "-",
                        Some(Occ::Should) => "s",
                        Some(Occ::Must) => "m",
                        Some(Occ::MustNot) => "x",
                    }.into());
                    self.encode(intern, sub, out);
                }
            }
        }
    }
}

pub fn is_marks(items: &[(Option<Op>, Option<Occ>, Q)]) -> bool {
    items.iter().all(|i| i.0.is_none())
}
pub fn is_chain(items: &[(Option<Op>, Option<Occ>, Q)]) -> bool {
    !items.is_empty() && items[0].0.is_none() && items[0].1.is_none() && items[1..].iter().all(|i| i.0.is_some() && i.1.is_none())
}

/// the documented meaning, by brute force
pub fn eval(g: &Gen, q: &Q, and_mode: bool, scope: Option<usize>, doc: &DocRec) -> bool {
    match q {
        Q::Leaf(i) => leaf_eval(&g.leaves[*i], scope, doc),
        Q::Boost(inner, _) => eval(g, inner, and_mode, scope, doc),
        Q::Neg(_) => false,
        Q::Scoped(f, inner) => eval(g, inner, and_mode, Some(*f), doc),
        Q::Seq(items) => {
            if is_marks(items) {
                let mut any_must = false;
                let mut any_should = false;
                for (_, occ, sub) in items {
                    let (o, v) = match (occ, sub) {
                        (None, Q::Neg(inner)) => (Occ::MustNot, eval(g, inner, and_mode, scope, doc)),
                        (None, _) => (if and_mode { Occ::Must } else { Occ::Should }, eval(g, sub, and_mode, scope, doc)),
                        (Some(o), _) => (*o, eval(g, sub, and_mode, scope, doc)),
                    };
                    match o {
                        Occ::Must => {
                            any_must = true;
                            if !v {
                                return false;
                            }
                        }
                        Occ::MustNot => {
                            if v {
                                return false;
                            }
                        }
                        Occ::Should => any_should |= v,
                    }
                }
                any_must || any_should
            } else if is_chain(items) {
                // OR over maximal AND runs
                let mut result = false;
                let mut cur = true;
                for (k, (op, _, sub)) in items.iter().enumerate() {
                    let v = eval(g, sub, and_mode, scope, doc);
                    if k == 0 || *op == Some(Op::And) {
                        cur = if k == 0 { v } else { cur && v };
                    } else {
                        result |= cur;
                        cur = v;
                    }
                }
                result || cur
            } else {
                false
            }
        }
    }
}

pub fn leaf_eval(l: &LeafSpec, scope: Option<usize>, doc: &DocRec) -> bool {
    match l {
        LeafSpec::All => scope.is_none(),
        LeafSpec::Exists { .. } => false,
        _ => match l.field().or(scope) {
            Some(f) => l.matches_on(f, doc),
            None => match l {
                LeafSpec::Lit { .. } | LeafSpec::Phrase { .. } => DEFAULT_FIELDS.iter().any(|f| l.matches_on(*f, doc)),
                _ => false,
            },
        },
    }
}

/// does the strict `QueryParser` have to refuse the query: an unsupported leaf, or only
/// excluding clauses
pub fn expect_err(g: &Gen, q: &Q, scope: Option<usize>) -> bool {
    fn unsupported(g: &Gen, q: &Q, scope: Option<usize>) -> bool {
        match q {
            Q::Leaf(i) => match &g.leaves[*i] {
                LeafSpec::Exists { .. } => true,
                LeafSpec::All => scope.is_some(),
                LeafSpec::Range { field, .. } | LeafSpec::Set { field, .. } => field.or(scope).is_none(),
                _ => false,
            },
            Q::Boost(i, _) | Q::Neg(i) => unsupported(g, i, scope),
            Q::Scoped(f, i) => unsupported(g, i, Some(*f)),
            Q::Seq(items) => items.iter().any(|(_, _, s)| unsupported(g, s, scope)),
        }
    }
    fn all_neg(q: &Q) -> bool {
        match q {
            Q::Leaf(_) => false,
            Q::Boost(i, _) | Q::Scoped(_, i) => all_neg(i),
            Q::Neg(_) => true,
            Q::Seq(items) => {
                if items.len() == 1 && items[0].1 != Some(Occ::MustNot) {
                    return all_neg(&items[0].2);
                }
                items.iter().all(|(_, occ, s)| *occ == Some(Occ::MustNot) || all_neg(s))
            }
        }
    }
    unsupported(g, q, scope) || all_neg(q)
}

pub fn has_dup_items(q: &Q) -> bool {
    match q {
        Q::Leaf(_) => false,
        Q::Boost(i, _) | Q::Neg(i) | Q::Scoped(_, i) => has_dup_items(i),
        Q::Seq(items) => {
            let keys: Vec<String> = items.iter().map(|(_, occ, s)| format!("{occ:?}{s:?}")).collect();
            let mut sorted = keys.clone();
            sorted.sort();
            sorted.dedup();
            sorted.len() != keys.len() || items.iter().any(|(_, _, s)| has_dup_items(s))
        }
    }
}
