//! What one harness run covered and found; serialised for `check`, which assembles the
//! evidence file and prints the verdict lines.
use serde::Serialize;
use serde_json::Value;
use std::collections::{BTreeMap, HashSet};

#[derive(Serialize, Clone, Debug)]
pub struct Violation {
    /// `oracle`: the implementation violates the property's own oracle (a witnessed violation);
    /// `model`: implementation and model disagree (correspondence broken);
    pub kind: String,
    /// attribution key; a violation whose key is listed in KNOWN_FINDINGS.txt is a known finding
    pub key: String,
    pub what: String,
    /// self-contained case that `tvh <Cxx> --replay` re-runs
    pub case: Value,
}

#[derive(Serialize, Default, Debug)]
pub struct Report {
    pub property: String,
    pub tier: String,
    pub seed: u64,
    pub evaluations: u64,
    pub distinct_nontrivial: u64,
    pub rule: String,
    pub samples: Vec<Value>,
    pub distribution: BTreeMap<String, u64>,
    pub model_requests: u64,
    pub traces_validated_against_impl: u64,
    pub correspondence_obligations: Vec<String>,
    pub violations: Vec<Violation>,
    pub notes: Vec<String>,
    pub wall_s: f64,
    #[serde(skip)]
    seen: HashSet<u64>,
}

impl Report {
    pub fn new(property: &str, tier: &str, seed: u64) -> Report {
        Report { property: property.into(), tier: tier.into(), seed, ..Default::default() }
    }
    pub fn count(&mut self, key: &str) {
        *self.distribution.entry(key.to_string()).or_insert(0) += 1;
    }
    pub fn count_n(&mut self, key: &str, n: u64) {
        *self.distribution.entry(key.to_string()).or_insert(0) += n;
    }
    /// record one evaluated case; `canon` is its canonical text (hashed for distinctness),
    /// `nontrivial` the per-property rule evaluated on it
    pub fn case(&mut self, canon: &str, nontrivial: bool) {
        self.evaluations += 1;
        if nontrivial {
            let h = fnv(canon.as_bytes());
            if self.seen.insert(h) {
                self.distinct_nontrivial += 1;
            }
        }
    }
    pub fn sample(&mut self, v: Value) {
        if self.samples.len() < 6 {
            self.samples.push(v);
        }
    }
    pub fn violation(&mut self, kind: &str, key: &str, what: String, case: Value) {
        // keep the first few per key; a flood of the same failure carries no more information
        let same = self.violations.iter().filter(|v| v.key == key).count();
        if same < 3 {
            self.violations.push(Violation { kind: kind.into(), key: key.into(), what, case });
        }
        self.count(&format!("violation:{key}"));
    }
}

pub fn fnv(bytes: &[u8]) -> u64 {
    let mut h: u64 = 0xcbf29ce484222325;
    for b in bytes {
        h ^= *b as u64;
        h = h.wrapping_mul(0x100000001b3);
    }
    h
}
