//! Canonical dump of one segment through the public `SegmentReader` API (shared by C04, C17):
//! alive docs, stored bytes, field norms, every fast-field column value per doc, and the full
//! term streams of every indexed field with postings (doc, tf, positions).
use crate::model::hex;
use crate::report::fnv;
use std::collections::BTreeMap;
use tantivy::columnar::{ColumnarReader, DynamicColumn};
use tantivy::index::{Segment, SegmentComponent};
use tantivy::postings::Postings;
use tantivy::schema::IndexRecordOption;
use tantivy::{DocSet, SegmentReader, TERMINATED};

pub type PostingRow = (u32, u32, Vec<u32>);

#[derive(Clone, Debug)]
pub struct SegDump {
    pub max_doc: u32,
    pub alive: Vec<bool>,
    /// canonical text per doc id (stored bytes, norms, fast values); also for deleted docs
    pub payload: Vec<String>,
    /// key = field id (4 bytes BE) ++ term bytes
    pub terms: BTreeMap<Vec<u8>, Vec<PostingRow>>,
    /// `TermInfo::doc_freq` as stored in the dictionary
    pub doc_freq: BTreeMap<Vec<u8>, u32>,
    /// `InvertedIndexReader::total_num_tokens` per indexed field
    pub total_num_tokens: BTreeMap<u32, u64>,
}

/// logical content: live docs in order; per term the postings of live docs renumbered densely
#[derive(Clone, Debug, PartialEq, Eq, Default)]
pub struct Logical {
    pub docs: Vec<String>,
    pub terms: BTreeMap<Vec<u8>, Vec<PostingRow>>,
}

fn column_values(col: &DynamicColumn, doc: u32, out: &mut String) -> Result<(), String> {
    use std::fmt::Write;
    match col {
        DynamicColumn::Bool(c) => c.values_for_doc(doc).for_each(|v| write!(out, "{},", v as u8).unwrap()),
        DynamicColumn::I64(c) => c.values_for_doc(doc).for_each(|v| write!(out, "{v},").unwrap()),
        DynamicColumn::U64(c) => c.values_for_doc(doc).for_each(|v| write!(out, "{v},").unwrap()),
        DynamicColumn::F64(c) => c.values_for_doc(doc).for_each(|v| write!(out, "{:x},", v.to_bits()).unwrap()),
        DynamicColumn::IpAddr(c) => c.values_for_doc(doc).for_each(|v| write!(out, "{:x},", u128::from(v)).unwrap()),
        DynamicColumn::DateTime(c) => c.values_for_doc(doc).for_each(|v| write!(out, "{},", v.into_timestamp_nanos()).unwrap()),
        DynamicColumn::Bytes(c) => {
            let mut buf = vec![];
            for ord in c.term_ords(doc) {
                buf.clear();
                c.ord_to_bytes(ord, &mut buf).map_err(|e| e.to_string())?;
                write!(out, "{},", hex(&buf)).unwrap();
            }
        }
        DynamicColumn::Str(c) => {
            let mut buf = vec![];
            for ord in c.term_ords(doc) {
                buf.clear();
                c.ord_to_bytes(ord, &mut buf).map_err(|e| e.to_string())?;
                write!(out, "{},", hex(&buf)).unwrap();
            }
        }
    }
    Ok(())
}

/// `alive_override`: in-memory alive bitset of an uncommitted segment entry
pub fn dump_segment(segment: &Segment, reader: &SegmentReader, alive_override: Option<&[bool]>) -> Result<SegDump, String> {
    let max_doc = reader.max_doc();
    let schema = reader.schema().clone();
    let alive: Vec<bool> = (0..max_doc)
        .map(|d| match alive_override {
            Some(a) => a[d as usize] && !reader.is_deleted(d),
            None => !reader.is_deleted(d),
        })
        .collect();
    let store = reader.get_store_reader(8).map_err(|e| format!("store: {e}"))?;
    let mut norm_readers = vec![];
    for (field, entry) in schema.fields() {
        if entry.is_indexed() && entry.has_fieldnorms() {
            norm_readers.push((field, reader.get_fieldnorms_reader(field).map_err(|e| format!("norms: {e}"))?));
        }
    }
    let mut columns = vec![];
    let ff_file = segment.open_read(SegmentComponent::FastFields).map_err(|e| format!("fast field file: {e}"))?;
    let columnar = ColumnarReader::open(ff_file).map_err(|e| format!("columnar: {e}"))?;
    if columnar.num_docs() != max_doc {
        return Err(format!("columnar has {} rows but max_doc is {}", columnar.num_docs(), max_doc));
    }
    for (name, handle) in columnar.list_columns().map_err(|e| format!("columns: {e}"))? {
        let ty = format!("{:?}", handle.column_type());
        let col = handle.open().map_err(|e| format!("column {name}: {e}"))?;
        columns.push((name, ty, col));
    }
    let mut payload = Vec::with_capacity(max_doc as usize);
    for doc in 0..max_doc {
        let mut s = String::new();
        let bytes = store.get_document_bytes(doc).map_err(|e| format!("store doc {doc}: {e}"))?;
        s.push_str("S:");
        s.push_str(&hex(bytes.as_slice()));
        s.push_str("|N:");
        for (field, nr) in &norm_readers {
            s.push_str(&format!("{}={},", field.field_id(), nr.fieldnorm_id(doc)));
        }
        s.push_str("|F:");
        for (name, ty, col) in &columns {
            let mut vals = String::new();
            column_values(col, doc, &mut vals)?;
            if !vals.is_empty() {
                s.push_str(&format!("{}:{}=[{}]", hex(name.as_bytes()), ty, vals));
            }
        }
        payload.push(s);
    }
    let mut terms = BTreeMap::new();
    let mut doc_freq = BTreeMap::new();
    let mut total_num_tokens = BTreeMap::new();
    for (field, entry) in schema.fields() {
        if !entry.is_indexed() {
            continue;
        }
        let is_json = matches!(entry.field_type(), tantivy::schema::FieldType::JsonObject(_));
        let has_positions = entry.field_type().get_index_record_option().map(|o| o.has_positions()).unwrap_or(false);
        let inv = reader.inverted_index(field).map_err(|e| format!("inverted index: {e}"))?;
        total_num_tokens.insert(field.field_id(), inv.total_num_tokens());
        let mut stream = inv.terms().stream().map_err(|e| e.to_string())?;
        let mut positions = vec![];
        let mut prev_key: Option<Vec<u8>> = None;
        while stream.advance() {
            let tkey = stream.key().to_vec();
            if let Some(p) = &prev_key {
                if *p >= tkey {
                    return Err(format!("term stream of field {} not strictly increasing", field.field_id()));
                }
            }
            prev_key = Some(tkey.clone());
            let ti = stream.value().clone();
            let mut key = field.field_id().to_be_bytes().to_vec();
            key.extend_from_slice(&tkey);
            let mut sp = inv
                .read_postings_from_terminfo(&ti, IndexRecordOption::WithFreqsAndPositions)
                .map_err(|e| format!("postings: {e}"))?;
            let mut rows = vec![];
            let mut doc = sp.doc();
            while doc != TERMINATED {
                let tf = sp.term_freq();
                // JSON terms that are not strings carry neither freqs nor positions
                let term_has_positions = has_positions
                    && (!is_json || tkey.iter().position(|b| *b == 0).and_then(|i| tkey.get(i + 1)).copied() == Some(b's'));
                if term_has_positions {
                    sp.positions(&mut positions);
                } else {
                    positions.clear();
                }
                rows.push((doc, tf, positions.clone()));
                doc = sp.advance();
            }
            doc_freq.insert(key.clone(), ti.doc_freq);
            terms.insert(key, rows);
        }
    }
    Ok(SegDump { max_doc, alive, payload, terms, doc_freq, total_num_tokens })
}

impl SegDump {
    pub fn num_alive(&self) -> usize {
        self.alive.iter().filter(|a| **a).count()
    }
    /// physical well-formedness: what `postingsOk` / `keysSorted` state in the model
    pub fn well_formed(&self) -> Result<(), String> {
        for (k, rows) in &self.terms {
            let mut prev: Option<u32> = None;
            for (d, tf, pos) in rows {
                if *d >= self.max_doc {
                    return Err(format!("term {}: doc {} >= max_doc {}", hex(k), d, self.max_doc));
                }
                if let Some(p) = prev {
                    if p >= *d {
                        return Err(format!("term {}: postings not strictly increasing ({} then {})", hex(k), p, d));
                    }
                }
                prev = Some(*d);
                if !pos.is_empty() && pos.len() != *tf as usize {
                    return Err(format!("term {}: doc {} tf {} but {} positions", hex(k), d, tf, pos.len()));
                }
                if pos.windows(2).any(|w| w[0] > w[1]) {
                    return Err(format!("term {}: doc {} positions not sorted", hex(k), d));
                }
            }
            if rows.is_empty() {
                return Err(format!("term {} has an empty posting list", hex(k)));
            }
            if self.doc_freq.get(k).copied() != Some(rows.len() as u32) {
                return Err(format!("term {}: doc_freq {:?} but {} postings", hex(k), self.doc_freq.get(k), rows.len()));
            }
        }
        Ok(())
    }
    /// logical content under the given alive set
    pub fn logical_with(&self, alive: &[bool]) -> Logical {
        let mut rank = Vec::with_capacity(alive.len() + 1);
        let mut r = 0u32;
        for a in alive {
            rank.push(r);
            if *a {
                r += 1;
            }
        }
        let docs = (0..self.max_doc as usize).filter(|d| alive[*d]).map(|d| self.payload[d].clone()).collect();
        let mut terms = BTreeMap::new();
        for (k, rows) in &self.terms {
            let live: Vec<PostingRow> = rows
                .iter()
                .filter(|(d, _, _)| alive[*d as usize])
                .map(|(d, tf, pos)| (rank[*d as usize], *tf, pos.clone()))
                .collect();
            if !live.is_empty() {
                terms.insert(k.clone(), live);
            }
        }
        Logical { docs, terms }
    }
    pub fn logical(&self) -> Logical {
        self.logical_with(&self.alive)
    }
    /// model protocol token `<alive>/<payload hashes>/<terms>`
    pub fn token_with(&self, alive: &[bool]) -> String {
        let a: String = if alive.is_empty() { "-".into() } else { alive.iter().map(|b| if *b { '1' } else { '0' }).collect() };
        let p: Vec<String> = self.payload.iter().map(|s| payload_hash(s).to_string()).collect();
        let p = if p.is_empty() { "-".to_string() } else { p.join(",") };
        format!("{a}/{p}/{}", terms_token(&self.terms))
    }
}

pub fn payload_hash(s: &str) -> u64 {
    fnv(s.as_bytes()) >> 4
}

pub fn terms_token(terms: &BTreeMap<Vec<u8>, Vec<PostingRow>>) -> String {
    if terms.is_empty() {
        return "-".into();
    }
    let mut out = String::new();
    for (i, (k, rows)) in terms.iter().enumerate() {
        if i > 0 {
            out.push(';');
        }
        out.push_str(&hex(k));
        out.push('=');
        for (j, (d, tf, pos)) in rows.iter().enumerate() {
            if j > 0 {
                out.push(',');
            }
            out.push_str(&format!("{d}:{tf}:"));
            if pos.is_empty() {
                out.push('_');
            } else {
                for (n, p) in pos.iter().enumerate() {
                    if n > 0 {
                        out.push('.');
                    }
                    out.push_str(&p.to_string());
                }
            }
        }
    }
    out
}

impl Logical {
    /// the text the model prints for a logical segment
    pub fn token(&self) -> String {
        let p: Vec<String> = self.docs.iter().map(|s| payload_hash(s).to_string()).collect();
        let p = if p.is_empty() { "-".to_string() } else { p.join(",") };
        format!("{p}/{}", terms_token(&self.terms))
    }
    /// concatenation of logical segments in order (the harness's own expectation of a merge)
    pub fn concat(parts: &[Logical]) -> Logical {
        let mut out = Logical::default();
        let mut base = 0u32;
        for p in parts {
            out.docs.extend(p.docs.iter().cloned());
            for (k, rows) in &p.terms {
                out.terms.entry(k.clone()).or_default().extend(rows.iter().map(|(d, tf, pos)| (d + base, *tf, pos.clone())));
            }
            base += p.docs.len() as u32;
        }
        out
    }
    /// first difference, human readable
    pub fn diff(&self, other: &Logical) -> Option<String> {
        if self.docs.len() != other.docs.len() {
            return Some(format!("number of live docs {} vs {}", self.docs.len(), other.docs.len()));
        }
        for (i, (a, b)) in self.docs.iter().zip(&other.docs).enumerate() {
            if a != b {
                let (sa, sb): (Vec<&str>, Vec<&str>) = (a.split('|').collect(), b.split('|').collect());
                let part = (0..sa.len().min(sb.len())).find(|j| sa[*j] != sb[*j]).map(|j| ["stored", "norms", "fast"][j.min(2)]).unwrap_or("payload");
                return Some(format!("doc {i}: {part} differ"));
            }
        }
        for (k, rows) in &self.terms {
            match other.terms.get(k) {
                None => return Some(format!("term {} missing on the right ({} postings on the left)", hex(k), rows.len())),
                Some(r2) => {
                    if rows != r2 {
                        let n = rows.iter().zip(r2.iter()).position(|(x, y)| x != y).unwrap_or(rows.len().min(r2.len()));
                        return Some(format!("term {}: postings differ at index {} ({:?} vs {:?}; lengths {} vs {})", hex(k), n, rows.get(n), r2.get(n), rows.len(), r2.len()));
                    }
                }
            }
        }
        for k in other.terms.keys() {
            if !self.terms.contains_key(k) {
                return Some(format!("term {} missing on the left", hex(k)));
            }
        }
        None
    }
}
