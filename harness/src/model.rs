//! Client of the compiled Lean model (`tvmodel`): one request line, one response line.
use std::io::{BufRead, BufReader, Write};
use std::process::{Child, ChildStdin, ChildStdout, Command, Stdio};

pub struct Model {
    child: Child,
    stdin: ChildStdin,
    stdout: BufReader<ChildStdout>,
    pub requests: u64,
}

impl Model {
    pub fn spawn(path: &str) -> Model {
        let mut child = Command::new(path)
            .stdin(Stdio::piped())
            .stdout(Stdio::piped())
            .spawn()
            .unwrap_or_else(|e| panic!("cannot start model driver {path}: {e}"));
        let stdin = child.stdin.take().unwrap();
        let stdout = BufReader::with_capacity(1 << 20, child.stdout.take().unwrap());
        let mut m = Model { child, stdin, stdout, requests: 0 };
        assert_eq!(m.ask("ping"), "pong", "model driver does not answer");
        m
    }
    pub fn ask(&mut self, line: &str) -> String {
        debug_assert!(!line.contains('\n'));
        self.requests += 1;
        self.stdin.write_all(line.as_bytes()).unwrap();
        self.stdin.write_all(b"\n").unwrap();
        self.stdin.flush().unwrap();
        let mut out = String::new();
        let n = self.stdout.read_line(&mut out).unwrap();
        if n == 0 {
            panic!("model driver died on request: {}", &line[..line.len().min(200)]);
        }
        while out.ends_with('\n') || out.ends_with('\r') {
            out.pop();
        }
        out
    }
}

impl Drop for Model {
    fn drop(&mut self) {
        let _ = self.child.kill();
        let _ = self.child.wait();
    }
}

pub fn hex(bytes: &[u8]) -> String {
    if bytes.is_empty() {
        return "-".to_string();
    }
    const D: &[u8; 16] = b"0123456789abcdef";
    let mut s = String::with_capacity(bytes.len() * 2);
    for b in bytes {
        s.push(D[(b >> 4) as usize] as char);
        s.push(D[(b & 15) as usize] as char);
    }
    s
}

pub fn unhex(s: &str) -> Option<Vec<u8>> {
    if s == "-" {
        return Some(vec![]);
    }
    let b = s.as_bytes();
    if b.len() % 2 != 0 {
        return None;
    }
    let v = |c: u8| -> Option<u8> {
        match c {
            b'0'..=b'9' => Some(c - b'0'),
            b'a'..=b'f' => Some(c - b'a' + 10),
            b'A'..=b'F' => Some(c - b'A' + 10),
            _ => None,
        }
    };
    let mut out = Vec::with_capacity(b.len() / 2);
    for p in b.chunks(2) {
        out.push(v(p[0])? * 16 + v(p[1])?);
    }
    Some(out)
}

pub fn nat_list<T: std::fmt::Display>(xs: &[T]) -> String {
    if xs.is_empty() {
        return "-".to_string();
    }
    let mut s = String::new();
    for (i, x) in xs.iter().enumerate() {
        if i > 0 {
            s.push(',');
        }
        s.push_str(&x.to_string());
    }
    s
}

pub fn parse_nat_list(s: &str) -> Option<Vec<u64>> {
    if s == "-" {
        return Some(vec![]);
    }
    s.split(',').map(|t| t.parse::<u64>().ok()).collect()
}
