//! `VDir`: an instrumented `Directory` (public trait) wrapping a `RamDirectory`.
//!
//! * logs every storage operation with a global sequence number and the issuing thread;
//! * can fail the k-th operation once or from then on (faulting);
//! * can make writers accept only part of each buffer (partial writes);
//! * calls a user hook before each operation, outside its own lock, so a test can pause a
//!   thread at its k-th operation or run other work at that exact point (gating);
//! * optionally records written bytes so that the content of every file at every point of the
//!   log can be reconstructed (crash images).
use crate::rng::Rng;
use std::io::{self, BufWriter, Write};
use std::path::{Path, PathBuf};
use std::sync::{Arc, Mutex};
use tantivy::directory::error::{DeleteError, OpenReadError, OpenWriteError};
use tantivy::directory::{
    AntiCallToken, FileHandle, FileSlice, RamDirectory, TerminatingWrite, WatchCallback,
    WatchHandle, WritePtr,
};
use tantivy::{Directory, HasLen};

#[derive(Clone, Copy, Debug, PartialEq, Eq, Hash)]
pub enum OpKind {
    OpenRead,
    Exists,
    Delete,
    OpenWrite,
    Write,
    Flush,
    Terminate,
    AtomicWrite,
    AtomicRead,
    SyncDir,
}

impl OpKind {
    pub fn name(self) -> &'static str {
        match self {
            OpKind::OpenRead => "open_read",
            OpKind::Exists => "exists",
            OpKind::Delete => "delete",
            OpKind::OpenWrite => "open_write",
            OpKind::Write => "write",
            OpKind::Flush => "flush",
            OpKind::Terminate => "terminate",
            OpKind::AtomicWrite => "atomic_write",
            OpKind::AtomicRead => "atomic_read",
            OpKind::SyncDir => "sync_dir",
        }
    }
    /// operations that change storage (the boundaries of the crash model)
    pub fn is_mutation(self) -> bool {
        !matches!(self, OpKind::OpenRead | OpKind::Exists | OpKind::AtomicRead)
    }
}

#[derive(Clone, Debug)]
pub struct OpRec {
    pub seq: u64,
    pub thread: String,
    pub kind: OpKind,
    pub path: String,
    /// bytes accepted (write), payload length (atomic_write)
    pub len: usize,
    /// the operation returned Ok
    pub ok: bool,
    /// a fault was injected at this operation
    pub faulted: bool,
    /// bytes accepted by a write / payload of an atomic_write (only with `record_data`)
    pub data: Option<Vec<u8>>,
}

impl OpRec {
    pub fn line(&self) -> String {
        format!(
            "{} {} {} {} {}{}",
            self.seq,
            self.thread,
            self.kind.name(),
            if self.path.is_empty() { "-" } else { &self.path },
            self.len,
            if self.faulted { " FAULT" } else if !self.ok { " err" } else { "" }
        )
    }
}

pub type Hook = Arc<dyn Fn(&OpRec) + Send + Sync>;

#[derive(Default)]
pub struct VState {
    pub log: Vec<OpRec>,
    pub seq: u64,
    /// fail the operation whose index (among operations selected by `fault_filter`) is `.0`;
    /// `.1` = permanent (every selected operation from then on fails)
    pub fail_at: Option<(u64, bool)>,
    pub fault_filter: Option<fn(OpKind, &str) -> bool>,
    pub faultable_seen: u64,
    pub faults_injected: u64,
    pub partial: Option<Rng>,
    pub record_data: bool,
    pub hook: Option<Hook>,
}

#[derive(Clone)]
pub struct VDir {
    pub inner: RamDirectory,
    pub st: Arc<Mutex<VState>>,
}

impl std::fmt::Debug for VDir {
    fn fmt(&self, f: &mut std::fmt::Formatter<'_>) -> std::fmt::Result {
        write!(f, "VDir")
    }
}

fn thread_name() -> String {
    let t = std::thread::current();
    match t.name() {
        Some(n) => n.to_string(),
        None => format!("{:?}", t.id()),
    }
}

fn injected() -> io::Error {
    io::Error::other("injected fault")
}

impl VDir {
    pub fn new() -> VDir {
        VDir::wrap(RamDirectory::create())
    }
    pub fn wrap(inner: RamDirectory) -> VDir {
        VDir { inner, st: Arc::new(Mutex::new(VState::default())) }
    }
    pub fn with_state<R>(&self, f: impl FnOnce(&mut VState) -> R) -> R {
        let mut g = self.st.lock().unwrap_or_else(|e| e.into_inner());
        f(&mut g)
    }
    pub fn log(&self) -> Vec<OpRec> {
        self.with_state(|s| s.log.clone())
    }
    pub fn log_len(&self) -> usize {
        self.with_state(|s| s.log.len())
    }
    pub fn set_hook(&self, h: Option<Hook>) {
        self.with_state(|s| s.hook = h);
    }
    /// start of an operation: assign a sequence number, decide whether it is faulted, log it,
    /// run the hook. Returns (index into log, faulted).
    fn pre(&self, kind: OpKind, path: &Path, len: usize, data: Option<&[u8]>) -> (usize, bool) {
        let p = path.to_string_lossy().to_string();
        let (idx, faulted, hook, rec) = {
            let mut g = self.st.lock().unwrap_or_else(|e| e.into_inner());
            let s = &mut *g;
            s.seq += 1;
            let selected = match s.fault_filter {
                Some(f) => f(kind, &p),
                None => true,
            };
            let mut faulted = false;
            if selected {
                if let Some((k, permanent)) = s.fail_at {
                    if s.faultable_seen == k || (permanent && s.faultable_seen > k) {
                        faulted = true;
                        s.faults_injected += 1;
                    }
                }
                s.faultable_seen += 1;
            }
            let rec = OpRec {
                seq: s.seq,
                thread: thread_name(),
                kind,
                path: p,
                len,
                ok: !faulted,
                faulted,
                data: if s.record_data { data.map(|d| d.to_vec()) } else { None },
            };
            s.log.push(rec.clone());
            (s.log.len() - 1, faulted, s.hook.clone(), rec)
        };
        if let Some(h) = hook {
            h(&rec);
        }
        (idx, faulted)
    }
    fn set_result(&self, idx: usize, ok: bool, len: Option<usize>, data: Option<&[u8]>) {
        self.with_state(|s| {
            let record = s.record_data;
            if let Some(r) = s.log.get_mut(idx) {
                r.ok = ok;
                if let Some(l) = len {
                    r.len = l;
                }
                if record {
                    if let Some(d) = data {
                        r.data = Some(d.to_vec());
                    }
                }
            }
        });
    }
    /// raw bytes of a file as the wrapped directory holds them (footer included)
    pub fn raw(&self, path: &Path) -> Option<Vec<u8>> {
        self.inner.open_read(path).ok().and_then(|f| f.read_bytes().ok()).map(|b| b.as_slice().to_vec())
    }
    /// overwrite a file's raw bytes behind tantivy's back (damage injection)
    pub fn overwrite_raw(&self, path: &Path, data: &[u8]) {
        self.inner.atomic_write(path, data).unwrap();
    }
}

struct VWriter {
    dir: VDir,
    path: PathBuf,
    inner: Box<dyn TerminatingWrite + Send + Sync>,
}

impl Write for VWriter {
    fn write(&mut self, buf: &[u8]) -> io::Result<usize> {
        let (idx, faulted) = self.dir.pre(OpKind::Write, &self.path, buf.len(), None);
        if faulted {
            return Err(injected());
        }
        let n = {
            let mut g = self.dir.st.lock().unwrap_or_else(|e| e.into_inner());
            match (&mut g.partial, buf.len()) {
                (Some(rng), l) if l > 1 => 1 + rng.usize_below(l),
                (_, l) => l,
            }
        };
        let res = self.inner.write_all(&buf[..n]);
        self.dir.set_result(idx, res.is_ok(), Some(n), Some(&buf[..n]));
        res.map(|_| n)
    }
    fn flush(&mut self) -> io::Result<()> {
        let (idx, faulted) = self.dir.pre(OpKind::Flush, &self.path, 0, None);
        if faulted {
            return Err(injected());
        }
        let res = self.inner.flush();
        self.dir.set_result(idx, res.is_ok(), None, None);
        res
    }
}

impl TerminatingWrite for VWriter {
    fn terminate_ref(&mut self, token: AntiCallToken) -> io::Result<()> {
        let (idx, faulted) = self.dir.pre(OpKind::Terminate, &self.path, 0, None);
        if faulted {
            return Err(injected());
        }
        let res = self.inner.terminate_ref(token);
        self.dir.set_result(idx, res.is_ok(), None, None);
        res
    }
}

impl Directory for VDir {
    fn get_file_handle(&self, path: &Path) -> Result<Arc<dyn FileHandle>, OpenReadError> {
        let file_slice = self.open_read(path)?;
        Ok(Arc::new(file_slice))
    }
    fn open_read(&self, path: &Path) -> Result<FileSlice, OpenReadError> {
        let (idx, faulted) = self.pre(OpKind::OpenRead, path, 0, None);
        if faulted {
            return Err(OpenReadError::wrap_io_error(injected(), path.to_path_buf()));
        }
        let res = self.inner.open_read(path);
        self.set_result(idx, res.is_ok(), res.as_ref().ok().map(|f| f.len()), None);
        res
    }
    fn delete(&self, path: &Path) -> Result<(), DeleteError> {
        let (idx, faulted) = self.pre(OpKind::Delete, path, 0, None);
        if faulted {
            return Err(DeleteError::IoError {
                io_error: Arc::new(injected()),
                filepath: path.to_path_buf(),
            });
        }
        let res = self.inner.delete(path);
        self.set_result(idx, res.is_ok(), None, None);
        res
    }
    fn exists(&self, path: &Path) -> Result<bool, OpenReadError> {
        let (idx, faulted) = self.pre(OpKind::Exists, path, 0, None);
        if faulted {
            return Err(OpenReadError::wrap_io_error(injected(), path.to_path_buf()));
        }
        let res = self.inner.exists(path);
        self.set_result(idx, res.is_ok(), res.as_ref().ok().map(|b| *b as usize), None);
        res
    }
    fn open_write(&self, path: &Path) -> Result<WritePtr, OpenWriteError> {
        let (idx, faulted) = self.pre(OpKind::OpenWrite, path, 0, None);
        if faulted {
            return Err(OpenWriteError::wrap_io_error(injected(), path.to_path_buf()));
        }
        let res = self.inner.open_write(path);
        self.set_result(idx, res.is_ok(), None, None);
        let w = res?;
        let inner = w.into_inner().map_err(|_| ()).expect("fresh BufWriter is empty");
        Ok(BufWriter::new(Box::new(VWriter { dir: self.clone(), path: path.to_path_buf(), inner })))
    }
    fn atomic_read(&self, path: &Path) -> Result<Vec<u8>, OpenReadError> {
        let (idx, faulted) = self.pre(OpKind::AtomicRead, path, 0, None);
        if faulted {
            return Err(OpenReadError::wrap_io_error(injected(), path.to_path_buf()));
        }
        let res = self.inner.atomic_read(path);
        self.set_result(idx, res.is_ok(), res.as_ref().ok().map(|d| d.len()), None);
        res
    }
    fn atomic_write(&self, path: &Path, data: &[u8]) -> io::Result<()> {
        let (idx, faulted) = self.pre(OpKind::AtomicWrite, path, data.len(), Some(data));
        if faulted {
            return Err(injected());
        }
        let res = self.inner.atomic_write(path, data);
        self.set_result(idx, res.is_ok(), None, None);
        res
    }
    fn sync_directory(&self) -> io::Result<()> {
        let (idx, faulted) = self.pre(OpKind::SyncDir, Path::new(""), 0, None);
        if faulted {
            return Err(injected());
        }
        let res = self.inner.sync_directory();
        self.set_result(idx, res.is_ok(), None, None);
        res
    }
    fn watch(&self, watch_callback: WatchCallback) -> tantivy::Result<WatchHandle> {
        self.inner.watch(watch_callback)
    }
}
