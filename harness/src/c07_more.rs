//! C07, further cases:
//!  * the recorders' unrolled u32 VInt encoder (`tantivy_common::serialize_vint_u32` /
//!    `read_u32_vint_no_advance`) value by value against the Lean model (`vint32_enc/dec`) and its
//!    own round trip (oracle);
//!  * end-to-end segments whose in-memory recorders see the encoder's threshold values
//!    2^(7k)-1, 2^(7k), 2^(7k)+1: token positions (PreTokenizedString and accumulated multi-value
//!    positions), term frequencies, doc-id gaps (sparse term among empty documents);
//!  * the recycled block cursor: `read_block_postings_from_terminfo` → advance / drain →
//!    `reset_block_postings_from_terminfo` to another term must enumerate exactly the new term.
use crate::c07_util::Opt;
use crate::model::hex;
use crate::rng::Rng;
use crate::Ctx;
use serde_json::{json, Value as J};
use std::panic::{catch_unwind, AssertUnwindSafe};
use tantivy::postings::{BlockSegmentPostings, Postings};
use tantivy::schema::{Field, IndexRecordOption, Schema, TextFieldIndexing, TextOptions};
use tantivy::tokenizer::{PreTokenizedString, Token};
use tantivy::{DocSet, Index, IndexWriter, TantivyDocument, Term, TERMINATED};

fn panic_msg(p: Box<dyn std::any::Any + Send>) -> String {
    if let Some(s) = p.downcast_ref::<&str>() {
        s.to_string()
    } else if let Some(s) = p.downcast_ref::<String>() {
        s.clone()
    } else {
        "panic".into()
    }
}

// ------------------------------------------------------------------------------------------
// serialize_vint_u32 / read_u32_vint_no_advance
// ------------------------------------------------------------------------------------------
pub fn check_vint32(ctx: &mut Ctx, v: u32, model: bool) {
    let case = json!({"kind": "vint32", "v": v});
    ctx.report.case(&format!("vint32|{v}"), true);
    ctx.report.count("codec:vint32");
    let real = catch_unwind(|| {
        let mut buf = [0u8; 8];
        let bytes = tantivy_common::serialize_vint_u32(v, &mut buf).to_vec();
        let mut padded = bytes.clone();
        padded.extend_from_slice(&[0x7f, 0x00, 0xff]);
        let back = tantivy_common::read_u32_vint_no_advance(&padded);
        (bytes, padded, back)
    });
    let (bytes, padded, back) = match real {
        Ok(x) => x,
        Err(p) => {
            ctx.report.violation("oracle", "C07:vint32-roundtrip", format!("serialize_vint_u32({v}) / read_u32_vint panicked: {}", panic_msg(p)), case);
            return;
        }
    };
    ctx.report.count(&format!("vint32-bytes:{}", bytes.len()));
    if back != (v, bytes.len()) || bytes.is_empty() || bytes.len() > 5 {
        ctx.report.violation(
            "oracle",
            "C07:vint32-roundtrip",
            format!("serialize_vint_u32({v}) = {} reads back as {:?} (expected ({v}, {}))", hex(&bytes), back, bytes.len()),
            case.clone(),
        );
    }
    if model {
        let m = ctx.model.ask(&format!("C07 vint32_enc {v}"));
        if m != hex(&bytes) {
            ctx.report.violation("model", "C07:model-vint32", format!("serialize_vint_u32({v}) = {}, model {m}", hex(&bytes)), case.clone());
        }
        let m = ctx.model.ask(&format!("C07 vint32_src {v}"));
        if m != hex(&bytes) {
            ctx.report.violation("model", "C07:model-vint32", format!("serialize_vint_u32({v}) = {}, translated source (rs2lean) gives {m}", hex(&bytes)), case.clone());
        }
        let m = ctx.model.ask(&format!("C07 vint32_dec {}", hex(&padded)));
        if m != format!("{} {}", back.0, back.1) {
            ctx.report.violation("model", "C07:model-vint32", format!("read_u32_vint_no_advance({}) = {:?}, model {m}", hex(&padded), back), case);
        }
    }
}

fn vint32_values(rng: &mut Rng, random: u64) -> Vec<u32> {
    let mut vs: Vec<u32> = vec![0, 1, 2, 126, u32::MAX, u32::MAX - 1, 1 << 31, (1 << 31) - 1];
    for k in 1..=4u32 {
        let p = 1u32 << (7 * k);
        vs.extend([p - 2, p - 1, p, p + 1, p + 2, 2 * p - 1, 2 * p]);
    }
    for _ in 0..random {
        let bits = 1 + rng.below(32);
        let v = rng.next_u64() as u32;
        vs.push(if bits == 32 { v } else { v & ((1u32 << bits) - 1) });
    }
    vs
}

// ------------------------------------------------------------------------------------------
// end-to-end threshold segments
// ------------------------------------------------------------------------------------------
type Posting = (u32, u32, Vec<u32>);

fn text_field(sb: &mut tantivy::schema::SchemaBuilder, name: &str, opt: Opt, tokenizer: &str) -> Field {
    let idx = TextFieldIndexing::default().set_tokenizer(tokenizer).set_index_option(opt.real()).set_fieldnorms(false);
    sb.add_text_field(name, TextOptions::default().set_indexing_options(idx))
}

fn tok(text: &str, position: usize) -> Token {
    Token { offset_from: 0, offset_to: text.len(), position, text: text.to_string(), position_length: 1 }
}

fn read_term(index: &Index, field: Field, term: &str, want_positions: bool) -> Result<(Vec<Posting>, u32), String> {
    let reader = index.reader().map_err(|e| e.to_string())?;
    let searcher = reader.searcher();
    if searcher.segment_readers().len() != 1 {
        return Err(format!("segments:{}", searcher.segment_readers().len()));
    }
    let inv = searcher.segment_reader(0).inverted_index(field).map_err(|e| e.to_string())?;
    let t = Term::from_field_text(field, term);
    let ti = inv.get_term_info(&t).map_err(|e| e.to_string())?.ok_or("term missing")?;
    let mut sp = inv
        .read_postings_from_terminfo(&ti, IndexRecordOption::WithFreqsAndPositions)
        .map_err(|e| e.to_string())?;
    let mut out = vec![];
    let mut guard = 0u64;
    while sp.doc() != TERMINATED {
        let mut pos = vec![];
        if want_positions {
            sp.positions(&mut pos);
        }
        out.push((sp.doc(), sp.term_freq(), pos));
        sp.advance();
        guard += 1;
        if guard > (ti.doc_freq as u64) + 8 {
            return Err("posting list longer than doc_freq + 8".into());
        }
    }
    Ok((out, ti.doc_freq))
}

fn first_diff(want: &[Posting], got: &[Posting]) -> String {
    let short = |p: Option<&Posting>| match p {
        None => "none".to_string(),
        Some((d, tf, pos)) => format!("(doc {d}, tf {tf}, positions {:?}{})", &pos[..pos.len().min(6)], if pos.len() > 6 { "…" } else { "" }),
    };
    for i in 0..want.len().max(got.len()) {
        if want.get(i) != got.get(i) {
            return format!("index {i}: expected {} got {} (lengths {} vs {})", short(want.get(i)), short(got.get(i)), want.len(), got.len());
        }
    }
    "equal".into()
}

/// variant "positions": PreTokenizedString tokens and accumulated multi-value positions such that
/// `position + 1` (what the recorder writes) is 2^(7k)-1, 2^(7k), 2^(7k)+1
fn thresholds_positions(ctx: &mut Ctx) -> Result<(), String> {
    let mut sb = Schema::builder();
    let f = text_field(&mut sb, "t", Opt::Positions, "raw");
    let index = Index::create_in_ram(sb.build());
    let mut w: IndexWriter = index.writer_with_num_threads(1, 50_000_000).map_err(|e| e.to_string())?;
    let mut want: Vec<Posting> = vec![];
    let mut doc_id = 0u32;
    let mut add = |w: &mut IndexWriter, values: Vec<Vec<(usize, &str)>>, positions: Vec<u32>, want: &mut Vec<Posting>| -> Result<(), String> {
        let mut d = TantivyDocument::default();
        for v in values {
            let tokens: Vec<Token> = v.iter().map(|(p, t)| tok(t, *p)).collect();
            d.add_pre_tokenized_text(f, PreTokenizedString { text: "x".into(), tokens });
        }
        w.add_document(d).map_err(|e| e.to_string())?;
        if !positions.is_empty() {
            want.push((doc_id, positions.len() as u32, positions));
        }
        doc_id += 1;
        Ok(())
    };
    add(&mut w, vec![vec![(0, "needle")]], vec![0], &mut want)?;
    for k in 1..=4usize {
        let p = 1usize << (7 * k);
        // three tokens in one document: recorder values P-1, P, P+1
        add(&mut w, vec![vec![(p - 2, "needle"), (p - 1, "needle"), (p, "needle")]], vec![(p - 2) as u32, (p - 1) as u32, p as u32], &mut want)?;
        // one token each
        for q in [p - 2, p - 1, p] {
            add(&mut w, vec![vec![(q, "needle")]], vec![q as u32], &mut want)?;
            add(&mut w, vec![vec![(1, "other")]], vec![], &mut want)?;
        }
        // accumulated over two values: first value ends at P-3+1, gap 1, second value's token at 0 → P-1
        add(&mut w, vec![vec![(p - 3, "filler")], vec![(0, "needle"), (1, "needle")]], vec![(p - 1) as u32, p as u32], &mut want)?;
        ctx.report.count(&format!("thresholds:position:2^{}", 7 * k));
    }
    add(&mut w, vec![vec![(5, "needle")]], vec![5], &mut want)?;
    w.commit().map_err(|e| e.to_string())?;
    drop(w);
    let (got, df) = read_term(&index, f, "needle", true)?;
    ctx.report.case("thresholds|positions", true);
    if got != want || df as usize != want.len() {
        ctx.report.violation(
            "oracle",
            "C07:threshold-positions",
            format!("term `needle` with token positions around 2^7k (doc_freq {df}, expected {}): {}", want.len(), first_diff(&want, &got)),
            json!({"kind": "thresholds", "variant": "positions"}),
        );
    }
    Ok(())
}

/// variant "tf": term frequencies 2^(7k)-1, 2^(7k), 2^(7k)+1 in documents that are not the last
/// one of the term (the recorder writes the tf when the next document of the term starts)
fn thresholds_tf(ctx: &mut Ctx, max_k: u32) -> Result<(), String> {
    let mut sb = Schema::builder();
    let f = text_field(&mut sb, "t", Opt::Freqs, "whitespace");
    let index = Index::create_in_ram(sb.build());
    index.tokenizers().register("whitespace", tantivy::tokenizer::TextAnalyzer::from(tantivy::tokenizer::WhitespaceTokenizer::default()));
    let mut w: IndexWriter = index.writer_with_num_threads(1, 200_000_000).map_err(|e| e.to_string())?;
    let mut want: Vec<Posting> = vec![];
    let mut doc_id = 0u32;
    for k in 1..=max_k {
        let p = 1u32 << (7 * k);
        for tf in [p - 1, p, p + 1] {
            let mut d = TantivyDocument::default();
            d.add_text(f, "x ".repeat(tf as usize));
            w.add_document(d).map_err(|e| e.to_string())?;
            want.push((doc_id, tf, vec![]));
            doc_id += 1;
        }
        ctx.report.count(&format!("thresholds:tf:2^{}", 7 * k));
    }
    let mut d = TantivyDocument::default();
    d.add_text(f, "x y");
    w.add_document(d).map_err(|e| e.to_string())?;
    want.push((doc_id, 1, vec![]));
    w.commit().map_err(|e| e.to_string())?;
    drop(w);
    let (got, df) = read_term(&index, f, "x", false)?;
    ctx.report.case(&format!("thresholds|tf|{max_k}"), true);
    if got != want || df as usize != want.len() {
        ctx.report.violation(
            "oracle",
            "C07:threshold-tf",
            format!("term `x` with term frequencies around 2^7k (doc_freq {df}, expected {}): {}", want.len(), first_diff(&want, &got)),
            json!({"kind": "thresholds", "variant": "tf", "max_k": max_k}),
        );
    }
    Ok(())
}

/// variant "gap": a sparse term among empty documents, consecutive docs of the term exactly
/// `gap` apart for gaps around 2^(7k)
fn thresholds_gap(ctx: &mut Ctx, gaps: &[u32]) -> Result<(), String> {
    let mut sb = Schema::builder();
    let f = text_field(&mut sb, "g", Opt::Freqs, "raw");
    let index = Index::create_in_ram(sb.build());
    let mut w: IndexWriter = index.writer_with_num_threads(1, 400_000_000).map_err(|e| e.to_string())?;
    let mut want: Vec<Posting> = vec![];
    let mut next = 3u32;
    let mut targets = vec![next];
    for g in gaps {
        next += g;
        targets.push(next);
    }
    let total = next + 2;
    let mut ti = 0usize;
    for doc_id in 0..total {
        let mut d = TantivyDocument::default();
        if ti < targets.len() && targets[ti] == doc_id {
            d.add_text(f, "g");
            if ti % 2 == 1 {
                d.add_text(f, "g");
            }
            want.push((doc_id, 1 + (ti % 2) as u32, vec![]));
            ti += 1;
        }
        w.add_document(d).map_err(|e| e.to_string())?;
    }
    w.commit().map_err(|e| e.to_string())?;
    drop(w);
    ctx.report.count_n("thresholds:gap-docs", total as u64);
    for g in gaps {
        ctx.report.count(&format!("thresholds:gap:{g}"));
    }
    let case = json!({"kind": "thresholds", "variant": "gap", "gaps": gaps});
    match read_term(&index, f, "g", false) {
        Err(e) if e.starts_with("segments:") => {
            ctx.report.notes.push(format!("thresholds gap: writer cut the segment ({e}); case skipped"));
            ctx.report.count("thresholds:gap-skipped");
        }
        Err(e) => return Err(e),
        Ok((got, df)) => {
            ctx.report.case(&format!("thresholds|gap|{gaps:?}"), true);
            if got != want || df as usize != want.len() {
                ctx.report.violation(
                    "oracle",
                    "C07:threshold-gap",
                    format!("sparse term with doc-id gaps {gaps:?} (doc_freq {df}, expected {}): {}", want.len(), first_diff(&want, &got)),
                    case,
                );
            }
        }
    }
    Ok(())
}

fn run_threshold_variant(ctx: &mut Ctx, case: &J) {
    let variant = case["variant"].as_str().unwrap_or("").to_string();
    let r = catch_unwind(AssertUnwindSafe(|| match variant.as_str() {
        "positions" => thresholds_positions(ctx),
        "tf" => thresholds_tf(ctx, case["max_k"].as_u64().unwrap_or(2) as u32),
        "gap" => {
            let gaps: Vec<u32> = case["gaps"].as_array().map(|a| a.iter().filter_map(|x| x.as_u64()).map(|x| x as u32).collect()).unwrap_or_default();
            thresholds_gap(ctx, &gaps)
        }
        _ => Err(format!("unknown variant {variant}")),
    }));
    match r {
        Ok(Ok(())) => {}
        Ok(Err(e)) => ctx.report.violation("oracle", "C07:threshold-read-error", format!("threshold segment ({variant}): {e}"), case.clone()),
        Err(p) => ctx.report.violation("oracle", "C07:panic", format!("threshold segment ({variant}): {}", panic_msg(p)), case.clone()),
    }
}

// ------------------------------------------------------------------------------------------
// recycled block cursor
// ------------------------------------------------------------------------------------------
fn drain(c: &mut BlockSegmentPostings, with_freqs: bool, limit: usize) -> (Vec<u32>, Vec<u32>) {
    let (mut docs, mut tfs) = (vec![], vec![]);
    loop {
        let block = c.docs();
        if block.is_empty() || docs.len() > limit {
            return (docs, tfs);
        }
        docs.extend_from_slice(block);
        if with_freqs {
            tfs.extend_from_slice(c.freqs());
        }
        c.advance();
    }
}

fn check_recycle(ctx: &mut Ctx, state: u64) {
    let case = json!({"kind": "recycle", "state": state.to_string()});
    let r = catch_unwind(AssertUnwindSafe(|| recycle_inner(ctx, state, &case)));
    match r {
        Ok(Ok(())) => {}
        Ok(Err(e)) => ctx.report.violation("oracle", "C07:read-error", format!("recycled cursor case: {e}"), case),
        Err(p) => ctx.report.violation("oracle", "C07:panic", format!("recycled cursor case: {}", panic_msg(p)), case),
    }
}

fn recycle_inner(ctx: &mut Ctx, state: u64, case: &J) -> Result<(), String> {
    let mut rng = Rng(state);
    let opt = *rng.pick(&[Opt::Basic, Opt::Freqs, Opt::Positions]);
    let n = 1000 + rng.below(700) as u32;
    // term -> rule
    let exact = |count: u32, stride: u32, offset: u32| move |d: u32| d % stride == offset && d / stride < count;
    let p_bern = 2 + rng.below(9) as u32;
    let salt = rng.next_u64();
    let rules: Vec<(&str, Box<dyn Fn(u32) -> bool>)> = vec![
        ("all", Box::new(|_| true)),
        ("third", Box::new(|d| d % 3 == 0)),
        ("block", Box::new(exact(128, 7, 3))),
        ("b127", Box::new(exact(127, 5, 1))),
        ("b129", Box::new(exact(129, 6, 2))),
        ("b256", Box::new(exact(256, 3, 1))),
        ("b384", Box::new(exact(384, 2, 1))),
        ("rare", Box::new(|d| d % 111 == 5)),
        ("single", Box::new(move |d| d == n / 2)),
        ("late", Box::new(move |d| d >= n - 130)),
        ("bern", Box::new(move |d| (crate::report::fnv(&[(d as u64 ^ salt).to_le_bytes().as_slice()].concat()) % p_bern as u64) == 0)),
    ];
    let mut sb = Schema::builder();
    let f = text_field(&mut sb, "tag", opt, "raw");
    let index = Index::create_in_ram(sb.build());
    let mut w: IndexWriter = index.writer_with_num_threads(1, 50_000_000).map_err(|e| e.to_string())?;
    let mut expected: Vec<(Vec<u32>, Vec<u32>)> = rules.iter().map(|_| (vec![], vec![])).collect();
    for d in 0..n {
        let mut doc = TantivyDocument::default();
        for (i, (name, rule)) in rules.iter().enumerate() {
            if rule(d) {
                let tf = 1 + (crate::report::fnv(&[(d as u64).to_le_bytes().as_slice(), name.as_bytes()].concat()) % 3) as u32;
                for _ in 0..tf {
                    doc.add_text(f, name);
                }
                expected[i].0.push(d);
                expected[i].1.push(tf);
            }
        }
        w.add_document(doc).map_err(|e| e.to_string())?;
    }
    w.commit().map_err(|e| e.to_string())?;
    drop(w);
    let reader = index.reader().map_err(|e| e.to_string())?;
    let searcher = reader.searcher();
    if searcher.segment_readers().len() != 1 {
        return Err(format!("{} segments", searcher.segment_readers().len()));
    }
    let inv = searcher.segment_reader(0).inverted_index(f).map_err(|e| e.to_string())?;
    let mut tis = vec![];
    for (name, _) in &rules {
        tis.push(inv.get_term_info(&Term::from_field_text(f, name)).map_err(|e| e.to_string())?.ok_or(format!("term {name} missing"))?);
    }
    let requested = if opt == Opt::Basic || rng.chance(1, 3) { Opt::Basic } else { opt };
    let with_freqs = requested != Opt::Basic;
    ctx.report.count(&format!("recycle:opt:{}:{}", opt.name(), requested.name()));
    for a in 0..rules.len() {
        for b in 0..rules.len() {
            for steps in [0usize, 1, 2, 3, usize::MAX] {
                // a fraction of the (a, b, steps) grid per case keeps the quick tier short
                if !(a == b || steps == usize::MAX || rng.chance(1, 3)) {
                    continue;
                }
                let mut cur = inv.read_block_postings_from_terminfo(&tis[a], requested.real()).map_err(|e| e.to_string())?;
                let how = if steps == usize::MAX {
                    let (d, _) = drain(&mut cur, false, n as usize + 300);
                    if d != expected[a].0 {
                        ctx.report.violation("oracle", "C07:recycled-cursor", format!("fresh block cursor of `{}` ({} docs) drains to {} docs", rules[a].0, expected[a].0.len(), d.len()), case.clone());
                    }
                    "drained".to_string()
                } else if steps == 3 && !expected[a].0.is_empty() {
                    let t = expected[a].0[expected[a].0.len() * 2 / 3];
                    cur.seek(t);
                    format!("seek({t})")
                } else {
                    for _ in 0..steps {
                        cur.advance();
                    }
                    format!("{steps} advances")
                };
                inv.reset_block_postings_from_terminfo(&tis[b], &mut cur).map_err(|e| e.to_string())?;
                let df = cur.doc_freq();
                let (d, t) = drain(&mut cur, with_freqs, n as usize + 300);
                ctx.report.case(&format!("recycle|{}|{}|{}|{}|{}", opt.name(), rules[a].0, rules[b].0, how, expected[b].0.len()), true);
                ctx.report.count(&format!("recycle:steps:{}", if steps == usize::MAX { "drain".to_string() } else { steps.to_string() }));
                let tf_ok = !with_freqs || t == expected[b].1;
                if df as usize != expected[b].0.len() || d != expected[b].0 || !tf_ok {
                    let i = d.iter().zip(&expected[b].0).position(|(x, y)| x != y).unwrap_or(d.len().min(expected[b].0.len()));
                    ctx.report.violation(
                        "oracle",
                        "C07:recycled-cursor",
                        format!(
                            "field option {}, requested {}: cursor of `{}` ({} docs) after {how}, then reset_block_postings_from_terminfo to `{}` ({} docs): doc_freq {df}, read {} docs, first difference at index {i}: got {:?} expected {:?}{}",
                            opt.name(), requested.name(), rules[a].0, expected[a].0.len(), rules[b].0, expected[b].0.len(), d.len(), d.get(i), expected[b].0.get(i),
                            if tf_ok { "" } else { " (term frequencies differ)" }
                        ),
                        case.clone(),
                    );
                }
            }
        }
    }
    Ok(())
}

// ------------------------------------------------------------------------------------------
// index sorting: the doc_id_map branch of Recorder::serialize
// ------------------------------------------------------------------------------------------
fn check_sorted_index(ctx: &mut Ctx, state: u64) {
    let case = json!({"kind": "sorted-index", "state": state.to_string()});
    let r = catch_unwind(AssertUnwindSafe(|| sorted_index_inner(ctx, state, &case)));
    match r {
        Ok(Ok(())) => {}
        Ok(Err(e)) => ctx.report.violation("oracle", "C07:read-error", format!("sorted index case: {e}"), case),
        Err(p) => ctx.report.violation("oracle", "C07:panic", format!("sorted index case: {}", panic_msg(p)), case),
    }
}

fn sorted_index_inner(ctx: &mut Ctx, state: u64, case: &J) -> Result<(), String> {
    use tantivy::{IndexSettings, IndexSortByField, Order};
    let mut rng = Rng(state);
    let opt = *rng.pick(&[Opt::Basic, Opt::Freqs, Opt::Positions]);
    let n = match rng.below(4) { 0 => 1 + rng.usize_below(5), 1 => 20 + rng.usize_below(60), 2 => 129 + rng.usize_below(10), _ => 260 + rng.usize_below(100) };
    let desc = rng.chance(1, 2);
    let mut keys: Vec<u64> = (0..n as u64).collect();
    rng.shuffle(&mut keys);
    let vocab = ["a", "b", "cc", "d", "e", "rare"];
    // doc -> values (each value one raw token)
    let docs: Vec<Vec<&str>> = (0..n)
        .map(|i| {
            let k = rng.usize_below(5);
            let mut v: Vec<&str> = (0..k).map(|_| { let m = if rng.chance(1, 20) { 6 } else { 3 }; vocab[rng.usize_below(m)] }).collect();
            if i % 2 == 0 || rng.chance(1, 3) {
                v.push("all");
            }
            v
        })
        .collect();
    let mut sb = Schema::builder();
    let f = text_field(&mut sb, "t", opt, "raw");
    let kf = sb.add_u64_field("k", tantivy::schema::FAST | tantivy::schema::INDEXED);
    let index = Index::builder()
        .schema(sb.build())
        .settings(IndexSettings { sort_by_field: Some(IndexSortByField { field: "k".to_string(), order: if desc { Order::Desc } else { Order::Asc } }), ..Default::default() })
        .create_in_ram()
        .map_err(|e| e.to_string())?;
    let mut w: IndexWriter = index.writer_with_num_threads(1, 50_000_000).map_err(|e| e.to_string())?;
    for (i, d) in docs.iter().enumerate() {
        let mut doc = TantivyDocument::default();
        for v in d {
            doc.add_text(f, v);
        }
        doc.add_u64(kf, keys[i]);
        w.add_document(doc).map_err(|e| e.to_string())?;
    }
    w.commit().map_err(|e| e.to_string())?;
    drop(w);
    let new_id: Vec<u32> = keys.iter().map(|k| if desc { (n as u64 - 1 - k) as u32 } else { *k as u32 }).collect();
    // expectation: invert the corpus in the new order
    let mut order: Vec<usize> = (0..n).collect();
    order.sort_by_key(|i| new_id[*i]);
    let mut want: std::collections::BTreeMap<Vec<u8>, Vec<Posting>> = Default::default();
    for (nd, old) in order.iter().enumerate() {
        let mut per: std::collections::BTreeMap<&str, Vec<u32>> = Default::default();
        for (pos, v) in docs[*old].iter().enumerate() {
            // one raw token per value: position = 2 * value index (token length 1 + gap 1)
            per.entry(v).or_default().push(2 * pos as u32);
        }
        for (t, ps) in per {
            want.entry(t.as_bytes().to_vec()).or_default().push((nd as u32, ps.len() as u32, ps));
        }
    }
    let project = |l: &Vec<Posting>| -> Vec<Posting> {
        l.iter().map(|(d, tf, ps)| match opt { Opt::Basic => (*d, 1, vec![]), Opt::Freqs => (*d, *tf, vec![]), Opt::Positions => (*d, *tf, ps.clone()) }).collect()
    };
    let text = |l: &[Posting]| -> String {
        l.iter().map(|(d, tf, ps)| format!("{d}:{tf}:{}", if ps.is_empty() { "-".to_string() } else { ps.iter().map(|p| p.to_string()).collect::<Vec<_>>().join(".") })).collect::<Vec<_>>().join(",")
    };
    let mut real_entries = vec![];
    for (t, l) in &want {
        let term = std::str::from_utf8(t).unwrap();
        let (got, df) = read_term(&index, f, term, opt == Opt::Positions)?;
        let exp = project(l);
        ctx.report.case(&format!("sorted-index|{}|{n}|{desc}|{term}|{}", opt.name(), l.len()), true);
        ctx.report.count(&format!("sorted-index:{}", opt.name()));
        if got != exp || df as usize != l.len() {
            ctx.report.violation("oracle", "C07:sorted-index-postings", format!("index sorted by a u64 field ({}, {n} docs, {}): term `{term}`: {}", opt.name(), if desc { "desc" } else { "asc" }, first_diff(&exp, &got)), case.clone());
        }
        real_entries.push(format!("{}={}", hex(t), text(&got)));
    }
    // the Lean model of the doc_id_map branch on the corpus in arrival order
    let corpus: Vec<String> = docs.iter().map(|d| d.iter().map(|v| format!("{}:0:1", hex(v.as_bytes()))).collect::<Vec<_>>().join("/")).collect();
    let ids = new_id.iter().map(|x| x.to_string()).collect::<Vec<_>>().join(",");
    let m = ctx.model.ask(&format!("C07 pipeline_remap {} {ids} {}", opt.name(), corpus.join(";")));
    if m == "bad-op" {
        ctx.report.violation("model", "C07:model-unavailable", "the Lean driver answers bad-op for pipeline_remap".into(), json!({"kind": "probe"}));
    } else {
        let mt = m.split('|').next().unwrap_or("");
        let real = if real_entries.is_empty() { "-".to_string() } else { real_entries.join(";") };
        if mt != real {
            let sh = |s: &str| if s.len() > 160 { format!("{}…", &s[..160]) } else { s.to_string() };
            ctx.report.violation("model", "C07:model-pipeline-remap", format!("sorted index ({}, {n} docs): real {} model {}", opt.name(), sh(&real), sh(mt)), case.clone());
        }
        // C07_remap_is_invert_of_permuted: the Lean specification `invert` of the corpus in its
        // new document order is what the sorted index reads back
        let permuted: Vec<String> = order.iter().map(|old| corpus[*old].clone()).collect();
        let mi = ctx.model.ask(&format!("C07 invert {} {}", opt.name(), permuted.join(";")));
        let mit = mi.split('|').next().unwrap_or("");
        if mit != real {
            let sh = |s: &str| if s.len() > 160 { format!("{}…", &s[..160]) } else { s.to_string() };
            ctx.report.violation("model", "C07:model-invert-permuted", format!("sorted index ({}, {n} docs): real {} invert of the permuted corpus {}", opt.name(), sh(&real), sh(mit)), case.clone());
        }
    }
    Ok(())
}

// ------------------------------------------------------------------------------------------
// recycled block cursor on raw term bytes: real reset vs expectation (oracle) and vs the model
// ------------------------------------------------------------------------------------------
fn check_recycle_codec(ctx: &mut Ctx, opt: Opt, a: &(Vec<u32>, Vec<u32>), b: &(Vec<u32>, Vec<u32>), mv: &str, model: bool) {
    use crate::props::c07::real_postings_bytes;
    let case = json!({"kind": "recycle-codec", "opt": opt.name(), "a_docs": a.0, "a_tfs": a.1, "b_docs": b.0, "b_tfs": b.1, "move": mv});
    ctx.report.case(&format!("recycle-codec|{}|{}|{}|{mv}|{:?}", opt.name(), a.0.len(), b.0.len(), b.0.first()), !b.0.is_empty());
    ctx.report.count(&format!("recycle-codec:{}", &mv[..1]));
    let tfs_a: Vec<u32> = if opt == Opt::Basic { vec![1; a.0.len()] } else { a.1.clone() };
    let tfs_b: Vec<u32> = if opt == Opt::Basic { vec![1; b.0.len()] } else { b.1.clone() };
    let r = catch_unwind(AssertUnwindSafe(|| -> Result<(Vec<u8>, Vec<u8>, Vec<u32>, Vec<u32>), String> {
        let ba = real_postings_bytes(opt, &a.0, &tfs_a);
        let bb = real_postings_bytes(opt, &b.0, &tfs_b);
        let mut cur = tantivy::verif::c07_open_block_postings(a.0.len() as u32, ba.clone(), opt.real(), opt.real()).map_err(|e| e.to_string())?;
        if mv == "D" {
            drain(&mut cur, false, a.0.len() + 300);
        } else if let Some(k) = mv.strip_prefix('A') {
            for _ in 0..k.parse::<usize>().unwrap_or(0) {
                cur.advance();
            }
        } else if let Some(t) = mv.strip_prefix('S') {
            cur.seek(t.parse::<u32>().unwrap_or(0));
        }
        tantivy::verif::c07_block_postings_reset(&mut cur, b.0.len() as u32, bb.clone()).map_err(|e| e.to_string())?;
        let (d, t) = drain(&mut cur, opt != Opt::Basic, b.0.len() + 300);
        Ok((ba, bb, d, t))
    }));
    let (ba, bb, d, t) = match r {
        Ok(Ok(x)) => x,
        Ok(Err(e)) => { ctx.report.violation("oracle", "C07:read-error", format!("recycle-codec: {e}"), case); return; }
        Err(p) => { ctx.report.violation("oracle", "C07:panic", format!("recycle-codec ({} -> {} docs, {mv}): {}", a.0.len(), b.0.len(), panic_msg(p)), case); return; }
    };
    if d != b.0 || (opt != Opt::Basic && t != tfs_b) {
        let i = d.iter().zip(&b.0).position(|(x, y)| x != y).unwrap_or(d.len().min(b.0.len()));
        ctx.report.violation("oracle", "C07:recycled-cursor", format!("{}: block cursor of a {}-doc list after {mv}, reset to a {}-doc list: read {} docs, first difference at index {i}: got {:?} expected {:?}", opt.name(), a.0.len(), b.0.len(), d.len(), d.get(i), b.0.get(i)), case.clone());
    }
    if model {
        let m = ctx.model.ask(&format!("C07 recycle {} {} {} {mv} {} {}", opt.name(), a.0.len(), hex(&ba), b.0.len(), hex(&bb)));
        let real = format!("{}|{}", crate::model::nat_list(&d), crate::model::nat_list(&if opt == Opt::Basic { vec![1u32; d.len()] } else { t.clone() }));
        if m != real {
            let sh = |s: &str| if s.len() > 120 { format!("{}…", &s[..120]) } else { s.to_string() };
            ctx.report.violation("model", "C07:model-recycle", format!("{}: cursor of {} docs after {mv}, reset to {} docs: real {} model {}", opt.name(), a.0.len(), b.0.len(), sh(&real), sh(&m)), case);
        }
    }
}

// ------------------------------------------------------------------------------------------
// JSON field with positions: `positions()` on a non-text term (number / bool / date)
// ------------------------------------------------------------------------------------------
/// Known finding `C07:json-nontext-positions-panic`: in a JSON field indexed with positions,
/// non-text leaves are recorded with the doc-id-only recorder (no tf, 1-byte empty position
/// stream), but `read_postings(.., WithFreqsAndPositions)` still attaches a PositionReader and
/// `positions()` reads `term_freq() = 1` position from it. Attribution is narrow: JSON field,
/// positional option, non-text term, the failing call is `positions()`; docs / term_freq / text
/// terms failing get other keys.
fn check_json_nontext_positions(ctx: &mut Ctx, ndocs: u32) {
    use tantivy::schema::JsonObjectOptions;
    let case = json!({"kind": "json-nontext-positions", "ndocs": ndocs});
    let r = catch_unwind(AssertUnwindSafe(|| -> Result<(), String> {
        let mut sb = Schema::builder();
        let idx = TextFieldIndexing::default().set_tokenizer("default").set_index_option(IndexRecordOption::WithFreqsAndPositions);
        let f = sb.add_json_field("j", JsonObjectOptions::default().set_indexing_options(idx));
        let index = Index::create_in_ram(sb.build());
        let mut w: IndexWriter = index.writer_with_num_threads(1, 50_000_000).map_err(|e| e.to_string())?;
        for d in 0..ndocs {
            let v: serde_json::Value = json!({"n": 5, "t": "hello world hello", "b": d % 2 == 0, "k": {"x": d}});
            let mut doc = TantivyDocument::default();
            doc.add_object(f, v.as_object().unwrap().iter().map(|(k, v)| (k.clone(), tantivy::schema::OwnedValue::from(v.clone()))).collect());
            w.add_document(doc).map_err(|e| e.to_string())?;
        }
        w.commit().map_err(|e| e.to_string())?;
        drop(w);
        let reader = index.reader().map_err(|e| e.to_string())?;
        let searcher = reader.searcher();
        let inv = searcher.segment_reader(0).inverted_index(f).map_err(|e| e.to_string())?;
        let mut stream = inv.terms().stream().map_err(|e| e.to_string())?;
        let mut terms: Vec<(Vec<u8>, tantivy::postings::TermInfo)> = vec![];
        while stream.advance() {
            terms.push((stream.key().to_vec(), stream.value().clone()));
        }
        for (key, ti) in terms {
            // [path] 0x00 [type code] [value]
            let Some(z) = key.iter().position(|b| *b == 0) else { continue };
            let is_text = key.get(z + 1) == Some(&b's');
            let kind = if is_text { "text" } else { "non-text" };
            ctx.report.count(&format!("json-positions:{kind}"));
            ctx.report.case(&format!("json-nontext|{ndocs}|{}", hex(&key)), true);
            // docs and term_freq first (must work for every term)
            let basic = catch_unwind(AssertUnwindSafe(|| -> Result<(Vec<u32>, Vec<u32>), String> {
                let mut sp = inv.read_postings_from_terminfo(&ti, IndexRecordOption::WithFreqsAndPositions).map_err(|e| e.to_string())?;
                let (mut docs, mut tfs) = (vec![], vec![]);
                while sp.doc() != TERMINATED {
                    docs.push(sp.doc());
                    tfs.push(sp.term_freq());
                    sp.advance();
                }
                Ok((docs, tfs))
            }));
            match basic {
                Ok(Ok((docs, _))) if docs.len() == ti.doc_freq as usize => {}
                other => {
                    ctx.report.violation("oracle", "C07:json", format!("JSON {kind} term {}: docs/term_freq read failed: {:?}", hex(&key), other.map_err(|_| "panic")), case.clone());
                    continue;
                }
            }
            let pos = catch_unwind(AssertUnwindSafe(|| -> Result<Vec<Vec<u32>>, String> {
                let mut sp = inv.read_postings_from_terminfo(&ti, IndexRecordOption::WithFreqsAndPositions).map_err(|e| e.to_string())?;
                let mut out = vec![];
                while sp.doc() != TERMINATED {
                    let mut p = vec![];
                    sp.positions(&mut p);
                    out.push(p);
                    sp.advance();
                }
                Ok(out)
            }));
            match (is_text, pos) {
                (true, Ok(Ok(ps))) if ps.iter().all(|p| !p.is_empty()) => {}
                (false, Ok(Ok(ps))) if ps.iter().all(|p| p.is_empty()) => {}
                (false, Err(p)) => {
                    ctx.report.violation(
                        "oracle",
                        "C07:json-nontext-positions-panic",
                        format!("JSON field with positions, non-text term {} ({} docs): positions() panicked: {}", hex(&key), ti.doc_freq, panic_msg(p)),
                        case.clone(),
                    );
                }
                (_, other) => {
                    ctx.report.violation("oracle", "C07:json", format!("JSON {kind} term {}: positions() gave {:?}", hex(&key), other.map_err(|_| "panic")), case.clone());
                }
            }
        }
        Ok(())
    }));
    match r {
        Ok(Ok(())) => {}
        Ok(Err(e)) => ctx.report.violation("oracle", "C07:read-error", format!("json non-text positions case: {e}"), case),
        Err(p) => ctx.report.violation("oracle", "C07:panic", format!("json non-text positions case: {}", panic_msg(p)), case),
    }
}

// ------------------------------------------------------------------------------------------
// JSON field: recycled block cursor across a text term and a number term (>= 128 docs each)
// ------------------------------------------------------------------------------------------
/// `BlockSegmentPostings::open` decides per term whether skip entries carry frequencies (JSON
/// numbers do not, JSON text does); `reset` keeps the decision of the term the cursor was opened on.
fn check_json_recycle(ctx: &mut Ctx, ndocs: u32, opt: Opt) {
    use tantivy::schema::JsonObjectOptions;
    let case = json!({"kind": "json-recycle", "ndocs": ndocs, "opt": opt.name()});
    let r = catch_unwind(AssertUnwindSafe(|| -> Result<(), String> {
        let mut sb = Schema::builder();
        let idx = TextFieldIndexing::default().set_tokenizer("raw").set_index_option(opt.real());
        let f = sb.add_json_field("j", JsonObjectOptions::default().set_indexing_options(idx));
        let index = Index::create_in_ram(sb.build());
        let mut w: IndexWriter = index.writer_with_num_threads(1, 50_000_000).map_err(|e| e.to_string())?;
        for d in 0..ndocs {
            let v: serde_json::Value = if d % 3 == 2 { json!({"t": "word"}) } else { json!({"n": 5, "t": "word"}) };
            let mut doc = TantivyDocument::default();
            doc.add_object(f, v.as_object().unwrap().iter().map(|(k, v)| (k.clone(), tantivy::schema::OwnedValue::from(v.clone()))).collect());
            w.add_document(doc).map_err(|e| e.to_string())?;
        }
        w.commit().map_err(|e| e.to_string())?;
        drop(w);
        let reader = index.reader().map_err(|e| e.to_string())?;
        let searcher = reader.searcher();
        let inv = searcher.segment_reader(0).inverted_index(f).map_err(|e| e.to_string())?;
        let mut stream = inv.terms().stream().map_err(|e| e.to_string())?;
        let mut terms: Vec<(bool, tantivy::postings::TermInfo)> = vec![];
        while stream.advance() {
            let key = stream.key();
            let z = key.iter().position(|b| *b == 0).unwrap_or(0);
            terms.push((key.get(z + 1) == Some(&b's'), stream.value().clone()));
        }
        let text = terms.iter().find(|t| t.0).ok_or("no text term")?.1.clone();
        let num = terms.iter().find(|t| !t.0).ok_or("no number term")?.1.clone();
        let want_text: Vec<u32> = (0..ndocs).collect();
        let want_num: Vec<u32> = (0..ndocs).filter(|d| d % 3 != 2).collect();
        for (name, first, second, want) in [("text->number", &text, &num, &want_num), ("number->text", &num, &text, &want_text), ("text->text", &text, &text, &want_text), ("number->number", &num, &num, &want_num)] {
            for req in [Opt::Basic, opt] {
                ctx.report.case(&format!("json-recycle|{ndocs}|{}|{name}|{}", opt.name(), req.name()), true);
                ctx.report.count(&format!("json-recycle:{name}"));
                let got = catch_unwind(AssertUnwindSafe(|| -> Result<Vec<u32>, String> {
                    let mut cur = inv.read_block_postings_from_terminfo(first, req.real()).map_err(|e| e.to_string())?;
                    inv.reset_block_postings_from_terminfo(second, &mut cur).map_err(|e| e.to_string())?;
                    Ok(drain(&mut cur, false, ndocs as usize + 300).0)
                }));
                let same_kind = name == "text->text" || name == "number->number";
                let key = if same_kind { "C07:recycled-cursor" } else { "C07:json-reset-record-option" };
                match got {
                    Ok(Ok(d)) if &d == want => {}
                    Ok(Ok(d)) => {
                        let i = d.iter().zip(want.iter()).position(|(x, y)| x != y).unwrap_or(d.len().min(want.len()));
                        ctx.report.violation("oracle", key, format!("JSON field ({}, requested {}), {ndocs} docs: block cursor opened on the {} term and reset to the {} term reads {} docs (expected {}), first difference at index {i}: got {:?} expected {:?}", opt.name(), req.name(), name.split("->").next().unwrap(), name.split("->").nth(1).unwrap(), d.len(), want.len(), d.get(i), want.get(i)), case.clone());
                    }
                    Ok(Err(e)) => ctx.report.violation("oracle", key, format!("JSON field ({}), {name}: {e}", opt.name()), case.clone()),
                    Err(p) => ctx.report.violation("oracle", key, format!("JSON field ({}, requested {}), {ndocs} docs, {name}: reading after reset panicked: {}", opt.name(), req.name(), panic_msg(p)), case.clone()),
                }
            }
        }
        Ok(())
    }));
    match r {
        Ok(Ok(())) => {}
        Ok(Err(e)) => ctx.report.violation("oracle", "C07:read-error", format!("json recycle case: {e}"), case),
        Err(p) => ctx.report.violation("oracle", "C07:panic", format!("json recycle case: {}", panic_msg(p)), case),
    }
}

// ------------------------------------------------------------------------------------------
// TermInfoStore (through the public TermDictionaryBuilder / TermDictionary)
// ------------------------------------------------------------------------------------------
type Ti = (u32, u64, u64, u64, u64); // doc_freq, postings start..end, positions start..end

fn ti_text(t: &Ti) -> String {
    format!("{}:{}:{}:{}:{}", t.0, t.1, t.2, t.3, t.4)
}

fn gen_term_infos(rng: &mut Rng, n: usize) -> Vec<Ti> {
    let mut p = if rng.chance(1, 2) { 0 } else { rng.next_u64() >> (24 + rng.below(30)) };
    let mut q = if rng.chance(1, 2) { 0 } else { rng.next_u64() >> (24 + rng.below(30)) };
    let len_bits = 1 + rng.below(24);
    let with_positions = rng.chance(2, 3);
    let df_bits = 1 + rng.below(31);
    (0..n)
        .map(|_| {
            let pl = match rng.below(6) { 0 => 0, 1 => 1, _ => rng.next_u64() & ((1 << len_bits) - 1) };
            let ql = if with_positions { match rng.below(4) { 0 => 0, _ => rng.next_u64() & ((1 << len_bits) - 1) } } else { 0 };
            let df = (rng.next_u64() & ((1u64 << df_bits) - 1)) as u32;
            let t = (df, p, p + pl, q, q + ql);
            p += pl;
            q += ql;
            t
        })
        .collect()
}

fn check_terminfo_store(ctx: &mut Ctx, tis: &[Ti], model: bool) {
    use tantivy::directory::FileSlice;
    use tantivy::postings::TermInfo;
    use tantivy::termdict::{TermDictionary, TermDictionaryBuilder};
    let case = json!({"kind": "terminfo", "infos": tis.iter().map(ti_text).collect::<Vec<_>>()});
    ctx.report.case(&format!("terminfo|{}|{:?}", tis.len(), tis.first()), !tis.is_empty());
    ctx.report.count(&format!("terminfo:len:{}", match tis.len() { 0 => "0".into(), 1 => "1".into(), n if n % 256 == 0 => "k*256".to_string(), n if n % 256 == 1 => "k*256+1".to_string(), n if n % 256 == 255 => "k*256-1".to_string(), _ => "other".to_string() }));
    let built = catch_unwind(|| -> Result<Vec<u8>, String> {
        let mut b = TermDictionaryBuilder::create(Vec::new()).map_err(|e| e.to_string())?;
        for (i, t) in tis.iter().enumerate() {
            let ti = TermInfo { doc_freq: t.0, postings_range: t.1 as usize..t.2 as usize, positions_range: t.3 as usize..t.4 as usize };
            b.insert((i as u32).to_be_bytes(), &ti).map_err(|e| e.to_string())?;
        }
        b.finish().map_err(|e| e.to_string())
    });
    let file = match built {
        Ok(Ok(f)) => f,
        Ok(Err(e)) => { ctx.report.violation("oracle", "C07:terminfo-roundtrip", format!("TermDictionaryBuilder failed: {e}"), case); return; }
        Err(p) => { ctx.report.violation("oracle", "C07:panic", format!("TermDictionaryBuilder: {}", panic_msg(p)), case); return; }
    };
    // oracle: the real dictionary returns what was written
    let back = catch_unwind(AssertUnwindSafe(|| -> Result<Vec<Option<Ti>>, String> {
        let d = TermDictionary::open(FileSlice::from(file.clone())).map_err(|e| e.to_string())?;
        if d.num_terms() != tis.len() {
            return Err(format!("num_terms {} != {}", d.num_terms(), tis.len()));
        }
        (0..tis.len())
            .map(|i| d.get((i as u32).to_be_bytes()).map(|o| o.map(|t| (t.doc_freq, t.postings_range.start as u64, t.postings_range.end as u64, t.positions_range.start as u64, t.positions_range.end as u64))).map_err(|e| e.to_string()))
            .collect()
    }));
    match back {
        Ok(Ok(got)) => {
            if let Some(i) = (0..tis.len()).find(|i| got[*i] != Some(tis[*i])) {
                ctx.report.violation("oracle", "C07:terminfo-roundtrip", format!("TermDictionary of {} terms: ordinal {i} reads {:?}, written {:?}", tis.len(), got[i], tis[i]), case.clone());
            }
        }
        Ok(Err(e)) => ctx.report.violation("oracle", "C07:terminfo-roundtrip", format!("TermDictionary of {} terms: {e}", tis.len()), case.clone()),
        Err(p) => ctx.report.violation("oracle", "C07:panic", format!("TermDictionary::get: {}", panic_msg(p)), case.clone()),
    }
    if !model || file.len() < 16 {
        return;
    }
    // file = fst ++ store ++ store_len u64 ++ fst version u32 ++ dictionary type u32
    let n = file.len();
    let store_len = u64::from_le_bytes(file[n - 16..n - 8].try_into().unwrap()) as usize;
    if store_len + 16 > n {
        ctx.report.violation("model", "C07:model-terminfo", format!("cannot locate the TermInfoStore in the dictionary file (len {n}, store_len {store_len})"), case);
        return;
    }
    let store = &file[n - 16 - store_len..n - 16];
    let infos = if tis.is_empty() { "-".to_string() } else { tis.iter().map(ti_text).collect::<Vec<_>>().join(";") };
    let m = ctx.model.ask(&format!("C07 tis_write {infos}"));
    if m != hex(store) {
        ctx.report.violation("model", "C07:model-terminfo", format!("TermInfoStore bytes of {} terms differ from the model's (real {} bytes, model {} hex chars)", tis.len(), store.len(), m.len()), case.clone());
    }
    let mut ords: Vec<usize> = vec![0, 1, 254, 255, 256, 257, 511, 512, tis.len().saturating_sub(1), tis.len() / 2];
    ords.retain(|o| *o < tis.len());
    ords.sort();
    ords.dedup();
    for o in ords {
        let m = ctx.model.ask(&format!("C07 tis_get {} {o}", hex(store)));
        if m != ti_text(&tis[o]) {
            ctx.report.violation("model", "C07:model-terminfo", format!("model reading ordinal {o} of the real TermInfoStore ({} terms): {m}, written {}", tis.len(), ti_text(&tis[o])), case.clone());
        }
    }
}

// ------------------------------------------------------------------------------------------
// a program of seeks on one BlockSegmentPostings (lazy skip reader + load_block + in-block search)
// ------------------------------------------------------------------------------------------
/// Real `BlockSegmentPostings::seek` sequence on the real bytes of a list; for non-decreasing
/// targets every answer must be the first doc >= target (TERMINATED if none); the Lean lazy
/// cursor model (`BlockPostings.seekAll`, op `lazyseeks`) must answer the same for any sequence.
fn check_lazy_seeks(ctx: &mut Ctx, opt: Opt, l: &(Vec<u32>, Vec<u32>), targets: &[u32], model: bool) {
    use crate::props::c07::real_postings_bytes;
    let case = json!({"kind": "lazy-seeks", "opt": opt.name(), "docs": l.0, "tfs": l.1, "targets": targets});
    let sorted = targets.windows(2).all(|w| w[0] <= w[1]);
    ctx.report.case(&format!("lazy-seeks|{}|{}|{}|{sorted}", opt.name(), l.0.len(), targets.len()), !l.0.is_empty() && !targets.is_empty());
    ctx.report.count("lazy-seeks");
    let tfs: Vec<u32> = if opt == Opt::Basic { vec![1; l.0.len()] } else { l.1.clone() };
    let r = catch_unwind(AssertUnwindSafe(|| -> Result<(Vec<u8>, Vec<u32>, Vec<u32>), String> {
        let bytes = real_postings_bytes(opt, &l.0, &tfs);
        let mut cur = tantivy::verif::c07_open_block_postings(l.0.len() as u32, bytes.clone(), opt.real(), opt.real()).map_err(|e| e.to_string())?;
        let mut out = vec![];
        let mut out_tf = vec![];
        for &t in targets {
            let idx = cur.seek(t);
            out.push(cur.doc(idx));
            out_tf.push(if cur.doc(idx) == tantivy::TERMINATED { 0 } else { cur.freq(idx) });
        }
        Ok((bytes, out, out_tf))
    }));
    let (bytes, out, out_tf) = match r {
        Ok(Ok(x)) => x,
        Ok(Err(e)) => { ctx.report.violation("oracle", "C07:read-error", format!("lazy-seeks: {e}"), case); return; }
        Err(p) => { ctx.report.violation("oracle", "C07:panic", format!("lazy-seeks ({} docs): {}", l.0.len(), panic_msg(p)), case); return; }
    };
    if sorted {
        let want: Vec<u32> = targets.iter().map(|&t| l.0.iter().copied().find(|&d| d >= t).unwrap_or(tantivy::TERMINATED)).collect();
        if out != want {
            let i = out.iter().zip(&want).position(|(x, y)| x != y).unwrap_or(0);
            ctx.report.violation("oracle", "C07:block-seek", format!("{}: BlockSegmentPostings::seek program on a {}-doc list: seek #{i} to {} landed on {:?}, first doc >= target is {:?}", opt.name(), l.0.len(), targets[i], out.get(i), want.get(i)), case.clone());
        }
    }
    if opt != Opt::Basic {
        // the frequency buffer at the returned index: the tf of the doc landed on
        if sorted {
            let want: Vec<u32> = targets.iter().map(|&t| l.0.iter().position(|&d| d >= t).map(|i| tfs[i]).unwrap_or(0)).collect();
            if out_tf != want {
                let i = out_tf.iter().zip(&want).position(|(x, y)| x != y).unwrap_or(0);
                ctx.report.violation("oracle", "C07:block-seek-freq", format!("{}: seek #{i} to {} on a {}-doc list: freq(idx) = {:?}, the doc's term frequency is {:?}", opt.name(), targets[i], l.0.len(), out_tf.get(i), want.get(i)), case.clone());
            }
        }
        if model {
            let m = ctx.model.ask(&format!("C07 lazyseeks_tf {} {} {} {}", opt.name(), l.0.len(), hex(&bytes), crate::model::nat_list(targets)));
            let real = crate::model::nat_list(&out_tf);
            if m != real {
                let sh = |s: &str| if s.len() > 120 { format!("{}…", &s[..120]) } else { s.to_string() };
                ctx.report.violation("model", "C07:model-lazyseek", format!("{}: term frequencies after seeks on {} docs: real {} model {}", opt.name(), l.0.len(), sh(&real), sh(&m)), case.clone());
            }
        }
    }
    if model {
        let m = ctx.model.ask(&format!("C07 lazyseeks {} {} {} {}", opt.name(), l.0.len(), hex(&bytes), crate::model::nat_list(targets)));
        let real = crate::model::nat_list(&out);
        if m != real {
            let sh = |s: &str| if s.len() > 120 { format!("{}…", &s[..120]) } else { s.to_string() };
            ctx.report.violation("model", "C07:model-lazyseek", format!("{}: seeks on {} docs: real {} model {}", opt.name(), l.0.len(), sh(&real), sh(&m)), case);
        }
    }
}

// ------------------------------------------------------------------------------------------
// ExpUnrolledLinkedList: the recorders' byte logs, several lists interleaved in one arena
// ------------------------------------------------------------------------------------------
fn check_expull(ctx: &mut Ctx, nlists: usize, writes: &[(usize, Vec<u8>)], model: bool) {
    let case = json!({"kind": "expull", "lists": nlists, "writes": writes.iter().map(|(i, b)| format!("{i}:{}", if b.is_empty() { "-".to_string() } else { hex(b) })).collect::<Vec<_>>()});
    let total: usize = writes.iter().map(|w| w.1.len()).sum();
    ctx.report.case(&format!("expull|{nlists}|{}|{}", writes.len(), total.min(1 << 20).next_power_of_two()), total > 0);
    ctx.report.count("expull");
    let r = catch_unwind(AssertUnwindSafe(|| tantivy::verif::c07_expull_run(nlists, writes)));
    let (outs, len) = match r {
        Ok(x) => x,
        Err(p) => { ctx.report.violation("oracle", "C07:panic", format!("ExpUnrolledLinkedList ({nlists} lists, {} writes): {}", writes.len(), panic_msg(p)), case); return; }
    };
    let mut want = vec![Vec::<u8>::new(); nlists];
    for (i, b) in writes {
        want[*i].extend_from_slice(b);
    }
    if outs != want {
        let i = (0..nlists).find(|i| outs[*i] != want[*i]).unwrap_or(0);
        let j = outs[i].iter().zip(&want[i]).position(|(x, y)| x != y).unwrap_or(outs[i].len().min(want[i].len()));
        ctx.report.violation("oracle", "C07:expull-roundtrip", format!("ExpUnrolledLinkedList #{i} of {nlists}: read_to_end returns {} bytes, {} were written; first difference at byte {j}", outs[i].len(), want[i].len()), case.clone());
    }
    if model {
        let ws = if writes.is_empty() { "-".to_string() } else { writes.iter().map(|(i, b)| format!("{i}:{}", if b.is_empty() { "-".to_string() } else { hex(b) })).collect::<Vec<_>>().join(";") };
        let m = ctx.model.ask(&format!("C07 expull {nlists} {ws}"));
        let mut parts: Vec<String> = outs.iter().map(|o| if o.is_empty() { "-".to_string() } else { hex(o) }).collect();
        parts.push(len.to_string());
        let real = parts.join("|");
        if m != real {
            let sh = |s: &str| if s.len() > 120 { format!("{}…", &s[..120]) } else { s.to_string() };
            ctx.report.violation("model", "C07:model-expull", format!("{nlists} lists, {} writes: real {} (arena len {len}) model {}", writes.len(), sh(&real), sh(&m)), case);
        }
    }
}

fn gen_expull_writes(rng: &mut Rng, nlists: usize, n: usize, big: usize) -> Vec<(usize, Vec<u8>)> {
    (0..n).map(|_| {
        let i = rng.usize_below(nlists);
        let len = match rng.below(12) {
            0 => 0,
            1 => 7 + rng.usize_below(3),
            2 => 15 + rng.usize_below(3),
            3 => 20 + rng.usize_below(80),
            4 if big > 0 => big / 2 + rng.usize_below(big),
            _ => 1 + rng.usize_below(5),
        };
        (i, (0..len).map(|_| rng.below(256) as u8).collect())
    }).collect()
}

// ------------------------------------------------------------------------------------------
// block-level programs mixing advance and seek on one BlockSegmentPostings
// ------------------------------------------------------------------------------------------
/// `ops`: None = advance (generated only out of a full block), Some(t) = seek(t). The oracle tracks
/// the block start `n` on the doc list: advance moves to n+128; seek steps over full blocks whose
/// last doc is < t and then answers the first doc >= t from the block start on.
fn check_block_ops(ctx: &mut Ctx, opt: Opt, l: &(Vec<u32>, Vec<u32>), ops: &[Option<u32>], model: bool) {
    use crate::props::c07::real_postings_bytes;
    let prog: Vec<String> = ops.iter().map(|o| match o { None => "A".to_string(), Some(t) => format!("S{t}") }).collect();
    let case = json!({"kind": "block-ops", "opt": opt.name(), "docs": l.0, "tfs": l.1, "ops": prog});
    ctx.report.case(&format!("block-ops|{}|{}|{}", opt.name(), l.0.len() / 128, prog.iter().map(|p| &p[..1]).collect::<String>()), !ops.is_empty());
    ctx.report.count("block-ops");
    let tfs: Vec<u32> = if opt == Opt::Basic { vec![1; l.0.len()] } else { l.1.clone() };
    let mut n = 0usize;
    let mut want = vec![];
    for o in ops {
        match o {
            None => {
                if l.0.len() - n.min(l.0.len()) < 128 { return; } // not a program of the precondition
                n += 128;
                want.push(l.0.get(n).copied().unwrap_or(TERMINATED));
            }
            Some(t) => {
                while l.0.len() - n >= 128 && l.0[n + 127] < *t { n += 128; }
                want.push(l.0[n..].iter().copied().find(|d| d >= t).unwrap_or(TERMINATED));
            }
        }
    }
    let r = catch_unwind(AssertUnwindSafe(|| -> Result<(Vec<u8>, Vec<u32>), String> {
        let bytes = real_postings_bytes(opt, &l.0, &tfs);
        let mut cur = tantivy::verif::c07_open_block_postings(l.0.len() as u32, bytes.clone(), opt.real(), opt.real()).map_err(|e| e.to_string())?;
        let mut out = vec![];
        for o in ops {
            match o {
                None => { cur.advance(); out.push(cur.doc(0)); }
                Some(t) => { let idx = cur.seek(*t); out.push(cur.doc(idx)); }
            }
        }
        Ok((bytes, out))
    }));
    let (bytes, out) = match r {
        Ok(Ok(x)) => x,
        Ok(Err(e)) => { ctx.report.violation("oracle", "C07:read-error", format!("block-ops: {e}"), case); return; }
        Err(p) => { ctx.report.violation("oracle", "C07:panic", format!("block-ops ({} docs): {}", l.0.len(), panic_msg(p)), case); return; }
    };
    if out != want {
        let i = out.iter().zip(&want).position(|(x, y)| x != y).unwrap_or(0);
        ctx.report.violation("oracle", "C07:block-ops", format!("{}: block-level program on a {}-doc list: op #{i} ({}) shows {:?}, the doc list prescribes {:?}", opt.name(), l.0.len(), prog[i], out.get(i), want.get(i)), case.clone());
    }
    if model {
        let m = ctx.model.ask(&format!("C07 lazyops {} {} {} {}", opt.name(), l.0.len(), hex(&bytes), if prog.is_empty() { "-".to_string() } else { prog.join(",") }));
        let real = crate::model::nat_list(&out);
        if m != real {
            let sh = |s: &str| if s.len() > 120 { format!("{}…", &s[..120]) } else { s.to_string() };
            ctx.report.violation("model", "C07:model-lazyops", format!("{}: block-level program on {} docs: real {} model {}", opt.name(), l.0.len(), sh(&real), sh(&m)), case);
        }
    }
}

fn gen_block_ops(rng: &mut Rng, docs: &[u32]) -> Vec<Option<u32>> {
    let mut n = 0usize;
    let mut ops = vec![];
    let top = docs.last().copied().unwrap_or(10) + 3;
    for _ in 0..(1 + rng.usize_below(7)) {
        if docs.len() - n >= 128 && rng.below(3) == 0 {
            ops.push(None);
            n += 128;
        } else {
            let t = match rng.below(5) {
                0 if n < docs.len() => docs[n + rng.usize_below(docs.len() - n)],
                1 if docs.len() - n >= 128 => docs[n + 127] + rng.below(2) as u32,
                2 => TERMINATED,
                _ => rng.below(top as u64 + 1) as u32,
            };
            ops.push(Some(t));
            while docs.len() - n >= 128 && docs[n + 127] < t { n += 128; }
        }
    }
    ops
}

// ------------------------------------------------------------------------------------------
pub fn obligations() -> Vec<String> {
    vec![
        "TermInfoStore bytes written through TermDictionaryBuilder = model `tis_write`; model `tis_get` of the real bytes = written TermInfo; TermDictionary::get = written TermInfo".into(),
        "serialize_vint_u32 bytes / read_u32_vint_no_advance = model (unrolled ladder with extracted thresholds); round trip on the real code".into(),
        "segments whose recorders see 2^(7k)-1, 2^(7k), 2^(7k)+1 as position+1, term frequency or doc-id gap read back exactly".into(),
        "index sorted by a fast field (doc_id_map branch of Recorder::serialize): read-back = inversion in the new order = model `pipeline_remap`".into(),
        "ExpUnrolledLinkedList: read_to_end of every list sharing a MemoryArena = the bytes written to it, = the Lean model (op expull, arena length included)".into(),
        "block-level programs of BlockSegmentPostings::advance / seek show what the doc list prescribes (block start tracked on the list) and = the lazy cursor model (op lazyops)".into(),
        "a program of BlockSegmentPostings::seek calls lands on the first doc >= target each time and = the lazy cursor model (op lazyseeks)".into(),
        "recycled block cursor (read_block_postings_from_terminfo, advance/drain/seek, reset_block_postings_from_terminfo) enumerates exactly the new term".into(),
    ]
}

pub fn replay(ctx: &mut Ctx, case: &J) -> bool {
    match case["kind"].as_str().unwrap_or("") {
        "vint32" => check_vint32(ctx, case["v"].as_u64().unwrap_or(0) as u32, true),
        "thresholds" => run_threshold_variant(ctx, case),
        "recycle" => check_recycle(ctx, case["state"].as_str().and_then(|s| s.parse().ok()).unwrap_or(0)),
        "recycle-codec" => {
            let u = |k: &str| -> Vec<u32> { case[k].as_array().map(|a| a.iter().filter_map(|x| x.as_u64()).map(|x| x as u32).collect()).unwrap_or_default() };
            let opt = Opt::from_name(case["opt"].as_str().unwrap_or("")).unwrap_or(Opt::Basic);
            let has = ctx.model.ask("C07 recycle basic 0 - A0 0 -") != "bad-op";
            check_recycle_codec(ctx, opt, &(u("a_docs"), u("a_tfs")), &(u("b_docs"), u("b_tfs")), case["move"].as_str().unwrap_or("A0"), has);
        }
        "expull" => {
            let n = case["lists"].as_u64().unwrap_or(1) as usize;
            let ws: Vec<(usize, Vec<u8>)> = case["writes"].as_array().map(|a| a.iter().filter_map(|x| {
                let (i, h) = x.as_str()?.split_once(':')?;
                let b = if h == "-" { vec![] } else { (0..h.len() / 2).filter_map(|k| u8::from_str_radix(&h[2 * k..2 * k + 2], 16).ok()).collect() };
                Some((i.parse().ok()?, b))
            }).collect()).unwrap_or_default();
            let has = ctx.model.ask("C07 expull 1 -") != "bad-op";
            check_expull(ctx, n.max(1), &ws, has);
        }
        "block-ops" => {
            let u = |k: &str| -> Vec<u32> { case[k].as_array().map(|a| a.iter().filter_map(|x| x.as_u64()).map(|x| x as u32).collect()).unwrap_or_default() };
            let opt = Opt::from_name(case["opt"].as_str().unwrap_or("")).unwrap_or(Opt::Basic);
            let ops: Vec<Option<u32>> = case["ops"].as_array().map(|a| a.iter().filter_map(|x| { let w = x.as_str()?; if w == "A" { Some(None) } else { w[1..].parse().ok().map(Some) } }).collect()).unwrap_or_default();
            let has = ctx.model.ask("C07 lazyops basic 0 - -") != "bad-op";
            check_block_ops(ctx, opt, &(u("docs"), u("tfs")), &ops, has);
        }
        "lazy-seeks" => {
            let u = |k: &str| -> Vec<u32> { case[k].as_array().map(|a| a.iter().filter_map(|x| x.as_u64()).map(|x| x as u32).collect()).unwrap_or_default() };
            let opt = Opt::from_name(case["opt"].as_str().unwrap_or("")).unwrap_or(Opt::Basic);
            let has = ctx.model.ask("C07 lazyseeks basic 0 - -") != "bad-op";
            check_lazy_seeks(ctx, opt, &(u("docs"), u("tfs")), &u("targets"), has);
        }
        "sorted-index" => check_sorted_index(ctx, case["state"].as_str().and_then(|s| s.parse().ok()).unwrap_or(0)),
        "json-recycle" => check_json_recycle(ctx, case["ndocs"].as_u64().unwrap_or(300) as u32, Opt::from_name(case["opt"].as_str().unwrap_or("")).unwrap_or(Opt::Freqs)),
        "json-nontext-positions" => check_json_nontext_positions(ctx, case["ndocs"].as_u64().unwrap_or(3) as u32),
        "terminfo" => {
            let tis: Vec<Ti> = case["infos"].as_array().map(|a| a.iter().filter_map(|x| {
                let p: Vec<u64> = x.as_str()?.split(':').filter_map(|t| t.parse().ok()).collect();
                if p.len() == 5 { Some((p[0] as u32, p[1], p[2], p[3], p[4])) } else { None }
            }).collect()).unwrap_or_default();
            let has = ctx.model.ask("C07 tis_write -") != "bad-op";
            check_terminfo_store(ctx, &tis, has);
        }
        _ => return false,
    }
    true
}

pub fn run(ctx: &mut Ctx, model_has_vint32: bool) {
    // corpus first: the exact thresholds of the size ladder
    let mut rng = ctx.rng.fork();
    for v in vint32_values(&mut rng, ctx.budget(600, 20_000)) {
        check_vint32(ctx, v, model_has_vint32);
    }
    run_threshold_variant(ctx, &json!({"kind": "thresholds", "variant": "positions"}));
    let tf_k = ctx.budget(3, 3);
    run_threshold_variant(ctx, &json!({"kind": "thresholds", "variant": "tf", "max_k": tf_k}));
    let p21 = 1u32 << 21;
    if ctx.thorough() {
        run_threshold_variant(ctx, &json!({"kind": "thresholds", "variant": "gap", "gaps": [127, 128, 129, 16383, 16384, 16385, p21 - 1, p21, p21 + 1]}));
    } else {
        run_threshold_variant(ctx, &json!({"kind": "thresholds", "variant": "gap", "gaps": [127, 128, 129, 16383, 16384, 16385, p21]}));
    }
    for _ in 0..ctx.budget(6, 120) {
        let state = ctx.rng.fork().0;
        check_recycle(ctx, state);
    }
    for _ in 0..ctx.budget(12, 240) {
        let state = ctx.rng.fork().0;
        check_sorted_index(ctx, state);
    }
    let has_recycle = ctx.model.ask("C07 recycle basic 0 - A0 0 -") != "bad-op";
    if !has_recycle {
        ctx.report.violation("model", "C07:model-unavailable", "the Lean driver answers bad-op for recycle".into(), json!({"kind": "probe"}));
    }
    let mut rng2 = ctx.rng.fork();
    for _ in 0..ctx.budget(150, 3000) {
        let opt = *rng2.pick(&[Opt::Basic, Opt::Freqs, Opt::Positions]);
        let (da, ta, _) = crate::props::c07::gen_posting_list(&mut rng2);
        let (db, tb, _) = crate::props::c07::gen_posting_list(&mut rng2);
        let mv = match rng2.below(5) {
            0 => "A0".to_string(),
            1 => "A1".to_string(),
            2 => format!("A{}", 2 + rng2.below(4)),
            3 => "D".to_string(),
            _ => if da.is_empty() { "A1".to_string() } else { format!("S{}", da[rng2.usize_below(da.len())]) },
        };
        check_recycle_codec(ctx, opt, &(da, ta), &(db, tb), &mv, has_recycle);
    }
    let has_expull = ctx.model.ask("C07 expull 1 -") != "bad-op";
    if !has_expull {
        ctx.report.violation("model", "C07:model-unavailable", "the Lean driver answers bad-op for expull".into(), json!({"kind": "probe"}));
    }
    let mut rng4 = ctx.rng.fork();
    for round in 0..ctx.budget(60, 240) {
        let nlists = 1 + rng4.usize_below(4);
        let n = match round % 6 { 0 => rng4.usize_below(4), 1 => 40 + rng4.usize_below(200), _ => 1 + rng4.usize_below(40) };
        let big = if round % 10 == 3 && n <= 40 { 20_000 } else { 0 };
        let ws = gen_expull_writes(&mut rng4, nlists, n, big);
        check_expull(ctx, nlists, &ws, has_expull);
    }
    if ctx.thorough() {
        // across the 1 MiB page of the arena
        let ws: Vec<(usize, Vec<u8>)> = (0..5).map(|k| (k % 2, (0..230_000u32).map(|x| (x.wrapping_mul(2654435761).wrapping_add(k as u32) >> 13) as u8).collect())).collect();
        check_expull(ctx, 2, &ws, has_expull);
    }
    let has_lazy = ctx.model.ask("C07 lazyseeks basic 0 - -") != "bad-op";
    if !has_lazy {
        ctx.report.violation("model", "C07:model-unavailable", "the Lean driver answers bad-op for lazyseeks".into(), json!({"kind": "probe"}));
    }
    let mut rng3 = ctx.rng.fork();
    for _ in 0..ctx.budget(120, 600) {
        let opt = *rng3.pick(&[Opt::Basic, Opt::Freqs, Opt::Positions]);
        let (d, t, _) = crate::props::c07::gen_posting_list(&mut rng3);
        let n = 1 + rng3.usize_below(6);
        let top = d.last().copied().unwrap_or(10) + 3;
        let mut targets: Vec<u32> = (0..n).map(|_| match rng3.below(6) {
            0 if !d.is_empty() => d[rng3.usize_below(d.len())],
            1 if !d.is_empty() => d[rng3.usize_below(d.len())] + 1,
            2 if d.len() >= 128 => d[(128 * (1 + rng3.usize_below(d.len() / 128)) - 1).min(d.len() - 1)] + rng3.below(2) as u32,
            3 => tantivy::TERMINATED,
            _ => rng3.below(top as u64 + 1) as u32,
        }).collect();
        if rng3.below(5) != 0 {
            targets.sort();
        }
        check_lazy_seeks(ctx, opt, &(d, t), &targets, has_lazy);
    }
    let has_ops = ctx.model.ask("C07 lazyops basic 0 - -") != "bad-op";
    if !has_ops {
        ctx.report.violation("model", "C07:model-unavailable", "the Lean driver answers bad-op for lazyops".into(), json!({"kind": "probe"}));
    }
    let mut rng5 = ctx.rng.fork();
    for _ in 0..ctx.budget(120, 600) {
        let opt = *rng5.pick(&[Opt::Basic, Opt::Freqs, Opt::Positions]);
        let (d, t, _) = crate::props::c07::gen_posting_list(&mut rng5);
        let ops = gen_block_ops(&mut rng5, &d);
        check_block_ops(ctx, opt, &(d, t), &ops, has_ops);
    }
    for (ndocs, opt) in [(50u32, Opt::Freqs), (400, Opt::Basic), (400, Opt::Freqs), (400, Opt::Positions)] {
        check_json_recycle(ctx, ndocs, opt);
    }
    for ndocs in [1u32, 3, 130] {
        check_json_nontext_positions(ctx, ndocs);
    }
    let has_tis = ctx.model.ask("C07 tis_write -") != "bad-op";
    if !has_tis {
        ctx.report.violation("model", "C07:model-unavailable", "the Lean driver answers bad-op for tis_write".into(), json!({"kind": "probe"}));
    }
    let mut rng = ctx.rng.fork();
    for round in 0..ctx.budget(4, 60) {
        for n in [0usize, 1, 2, 3, 255, 256, 257, 511, 512, 513, 700 + 97 * round as usize % 400] {
            let tis = gen_term_infos(&mut rng, n);
            check_terminfo_store(ctx, &tis, has_tis);
        }
    }
    ctx.report.sample(json!({"recycled_cursor": "terms all/third/block(128)/b127/b129/b256/b384/rare/single/late/bern over 1000-1700 docs; cursor of A moved by 0-2 advances, a seek or a full drain, then reset to B and drained", "thresholds": "positions (PreTokenizedString + accumulated multi-value), tf via repeated tokens, doc-id gaps via a sparse term among empty docs"}));
}
