//! C07 helpers: segment-case generator, independent term encodings, analysed corpus and the
//! independent Rust inversion (`invert_rust`) used as the oracle of `props/c07.rs`.
use crate::rng::Rng;
use std::collections::{BTreeMap, BTreeSet};
use tantivy::schema::document::OwnedValue;
use tantivy::schema::{
    BytesOptions, DateOptions, Facet, FacetOptions, Field, IndexRecordOption, IpAddrOptions,
    JsonObjectOptions, NumericOptions, Schema, TextFieldIndexing, TextOptions,
};
use tantivy::tokenizer::{SimpleTokenizer, TextAnalyzer, MAX_TOKEN_LEN};
use tantivy::{DateTime, Index, IndexWriter, TantivyDocument};

#[derive(Clone, Copy, PartialEq, Eq, Debug, PartialOrd, Ord)]
pub enum Opt {
    Basic,
    Freqs,
    Positions,
}

impl Opt {
    pub fn name(self) -> &'static str {
        match self {
            Opt::Basic => "basic",
            Opt::Freqs => "freqs",
            Opt::Positions => "positions",
        }
    }
    pub fn real(self) -> IndexRecordOption {
        match self {
            Opt::Basic => IndexRecordOption::Basic,
            Opt::Freqs => IndexRecordOption::WithFreqs,
            Opt::Positions => IndexRecordOption::WithFreqsAndPositions,
        }
    }
    pub fn from_name(s: &str) -> Option<Opt> {
        match s {
            "basic" => Some(Opt::Basic),
            "freqs" => Some(Opt::Freqs),
            "positions" => Some(Opt::Positions),
            _ => None,
        }
    }
    pub fn pick(rng: &mut Rng) -> Opt {
        *rng.pick(&[Opt::Basic, Opt::Freqs, Opt::Positions, Opt::Positions])
    }
}

#[derive(Clone, Copy, PartialEq, Eq, Debug)]
pub enum Kind {
    Text,
    U64,
    I64,
    F64,
    Date,
    Bytes,
    Ip,
    Bool,
    Facet,
    Json,
}

impl Kind {
    pub fn name(self) -> &'static str {
        match self {
            Kind::Text => "text",
            Kind::U64 => "u64",
            Kind::I64 => "i64",
            Kind::F64 => "f64",
            Kind::Date => "date",
            Kind::Bytes => "bytes",
            Kind::Ip => "ip",
            Kind::Bool => "bool",
            Kind::Facet => "facet",
            Kind::Json => "json",
        }
    }
}

#[derive(Clone, Debug)]
pub struct FieldSpec {
    pub name: String,
    pub kind: Kind,
    pub opt: Opt,
    pub tokenizer: &'static str,
    pub fieldnorms: bool,
    pub expand_dots: bool,
}

#[derive(Clone, Debug)]
pub enum Val {
    Text(String),
    U64(u64),
    I64(i64),
    F64(f64),
    Date(i64),
    Bytes(Vec<u8>),
    Ip(u128),
    Bool(bool),
    Facet(Vec<String>),
    Json(OwnedValue),
}

pub struct SegCase {
    pub profile: String,
    pub specs: Vec<FieldSpec>,
    /// per doc: (field index, value) in insertion order
    pub docs: Vec<Vec<(usize, Val)>>,
}

// ------------------------------------------------------------------------------------------
// independent term encodings (what the term dictionary must contain)
// ------------------------------------------------------------------------------------------
const HI: u64 = 1u64 << 63;

pub fn enc_u64(v: u64) -> Vec<u8> {
    v.to_be_bytes().to_vec()
}
pub fn map_i64(v: i64) -> u64 {
    (v as u64) ^ HI
}
pub fn enc_i64(v: i64) -> Vec<u8> {
    map_i64(v).to_be_bytes().to_vec()
}
pub fn map_f64(v: f64) -> u64 {
    let b = v.to_bits();
    if b & HI == 0 {
        b ^ HI
    } else {
        !b
    }
}
pub fn enc_f64(v: f64) -> Vec<u8> {
    map_f64(v).to_be_bytes().to_vec()
}
/// seconds precision, truncation toward zero (integer division), then the i64 mapping
pub fn map_date(nanos: i64) -> u64 {
    map_i64((nanos / 1_000_000_000) * 1_000_000_000)
}
pub fn enc_date(nanos: i64) -> Vec<u8> {
    map_date(nanos).to_be_bytes().to_vec()
}
pub fn enc_bool(b: bool) -> Vec<u8> {
    (b as u64).to_be_bytes().to_vec()
}
pub fn enc_ip(v: u128) -> Vec<u8> {
    v.to_be_bytes().to_vec()
}
/// mirror of `FacetTokenizer`: root "" then every prefix ending before a 0 byte found at an
/// index >= cursor+1, then the whole encoded path
pub fn facet_tokens(path: &[String]) -> Vec<Vec<u8>> {
    let enc: Vec<u8> = path.join("\u{0}").into_bytes();
    let mut out = vec![vec![]];
    if enc.is_empty() {
        return out;
    }
    let mut cursor = 0usize;
    loop {
        match enc[cursor + 1..].iter().position(|b| *b == 0) {
            Some(p) => {
                let next = cursor + 1 + p;
                out.push(enc[..next].to_vec());
                cursor = next;
            }
            None => {
                out.push(enc.clone());
                break;
            }
        }
    }
    out
}

// ------------------------------------------------------------------------------------------
// analysed corpus and inversion
// ------------------------------------------------------------------------------------------
#[derive(Clone, Debug)]
pub struct Tok {
    pub term: Vec<u8>,
    pub pos: u32,
    pub plen: u32,
}

/// doc -> values -> tokens (tokens longer than MAX_TOKEN_LEN already removed)
pub type Corpus = Vec<Vec<Vec<Tok>>>;

pub type PostingList = Vec<(u32, u32, Vec<u32>)>;

#[derive(Default, Debug)]
pub struct Expected {
    /// full information: (doc, number of occurrences, absolute positions)
    pub map: BTreeMap<Vec<u8>, PostingList>,
    /// terms recorded with the doc-id-only recorder although the field records more (JSON
    /// non-text leaves)
    pub basic_terms: BTreeSet<Vec<u8>>,
    pub total_tokens: u64,
    pub tokens_per_doc: Vec<u32>,
    /// JSON fields: per document the leaf events in traversal order, in the line-protocol text of
    /// the Lean model (`<pathhex>~T~<tokens>` / `<pathhex>~N~<termhex>`)
    pub json_events: Vec<Vec<String>>,
    pub json_cur: Vec<String>,
}

impl Expected {
    fn occurrence(&mut self, term: &[u8], doc: u32, pos: u32) {
        self.total_tokens += 1;
        let list = self.map.entry(term.to_vec()).or_default();
        match list.last_mut() {
            Some(last) if last.0 == doc => {
                last.1 += 1;
                last.2.push(pos);
            }
            _ => list.push((doc, 1, vec![pos])),
        }
    }
}

/// KNOB for self-tests of the oracle (must be 1 and 0): the position gap between two values of
/// a field and an off-by-one added to every term frequency.
pub const POSITION_GAP: u32 = 1;
pub const TF_SKEW: u32 = 0;

/// Independent inversion of an analysed corpus: tantivy's positional rule
/// (`postings_writer.rs::index_text`, POSITION_GAP = 1).
pub fn invert_rust(corpus: &Corpus) -> Expected {
    let mut e = Expected::default();
    for (d, doc) in corpus.iter().enumerate() {
        let mut end_position = 0u32;
        let mut ntok = 0u32;
        for value in doc {
            let base = end_position;
            let mut end_candidate = end_position;
            for t in value {
                let start = base + t.pos;
                end_candidate = end_candidate.max(start + t.plen);
                e.occurrence(&t.term, d as u32, start);
                ntok += 1;
            }
            end_position = end_candidate + POSITION_GAP;
        }
        e.tokens_per_doc.push(ntok);
    }
    if TF_SKEW != 0 {
        for l in e.map.values_mut() {
            for p in l.iter_mut() {
                p.1 += TF_SKEW;
            }
        }
    }
    e
}

/// what a reader must return for a posting of a field recorded with `opt`
pub fn project(opt: Opt, p: &(u32, u32, Vec<u32>)) -> (u32, u32, Vec<u32>) {
    match opt {
        Opt::Basic => (p.0, 1, vec![]),
        Opt::Freqs => (p.0, p.1, vec![]),
        Opt::Positions => (p.0, p.1, p.2.clone()),
    }
}

pub fn analyse_text(an: &mut TextAnalyzer, text: &str, dropped: &mut u64) -> Vec<Tok> {
    let mut ts = an.token_stream(text);
    let mut out = vec![];
    while ts.advance() {
        let t = ts.token();
        if t.text.len() > MAX_TOKEN_LEN {
            *dropped += 1;
            continue;
        }
        out.push(Tok { term: t.text.as_bytes().to_vec(), pos: t.position as u32, plen: t.position_length as u32 });
    }
    out
}

fn one(term: Vec<u8>) -> Vec<Tok> {
    vec![Tok { term, pos: 0, plen: 1 }]
}

/// analysed corpus of a non-JSON field
pub fn analyse_field(case: &SegCase, fi: usize, index: &Index, dropped: &mut u64) -> Corpus {
    let spec = &case.specs[fi];
    let mut an = if spec.kind == Kind::Text { index.tokenizers().get(spec.tokenizer) } else { None };
    let mut corpus: Corpus = Vec::with_capacity(case.docs.len());
    for doc in &case.docs {
        let mut values = vec![];
        for (f, v) in doc {
            if *f != fi {
                continue;
            }
            values.push(match v {
                Val::Text(s) => analyse_text(an.as_mut().expect("tokenizer"), s, dropped),
                Val::U64(x) => one(enc_u64(*x)),
                Val::I64(x) => one(enc_i64(*x)),
                Val::F64(x) => one(enc_f64(*x)),
                Val::Date(x) => one(enc_date(*x)),
                Val::Bytes(b) => one(b.clone()),
                Val::Ip(x) => one(enc_ip(*x)),
                Val::Bool(b) => one(enc_bool(*b)),
                Val::Facet(p) => facet_tokens(p).into_iter().map(|t| Tok { term: t, pos: 0, plen: 1 }).collect(),
                Val::Json(_) => unreachable!(),
            });
        }
        corpus.push(values);
    }
    corpus
}

// JSON ---------------------------------------------------------------------------------------

fn json_path(segments: &[String], expand_dots: bool) -> Vec<u8> {
    // mirror of JsonPathWriter::push: segments joined by 0x01; with expand_dots every '.' of a
    // segment becomes 0x01
    let mut out: Vec<u8> = vec![];
    for (i, s) in segments.iter().enumerate() {
        if i > 0 {
            out.push(1);
        }
        for b in s.bytes() {
            out.push(if expand_dots && b == b'.' { 1 } else { b });
        }
    }
    out
}

fn json_fast_term(path: &[u8], code: u8, payload: u64) -> Vec<u8> {
    let mut t = path.to_vec();
    t.push(0);
    t.push(code);
    t.extend_from_slice(&payload.to_be_bytes());
    t
}

#[allow(clippy::too_many_arguments)]
fn json_walk(
    v: &OwnedValue,
    segs: &mut Vec<String>,
    expand_dots: bool,
    an: &mut TextAnalyzer,
    doc: u32,
    state: &mut BTreeMap<Vec<u8>, u32>,
    e: &mut Expected,
    ntok: &mut u32,
    dropped: &mut u64,
) {
    let path = json_path(segs, expand_dots);
    let basic = |e: &mut Expected, code: u8, payload: u64| {
        let t = json_fast_term(&path, code, payload);
        e.basic_terms.insert(t.clone());
        e.occurrence(&t, doc, 0);
        e.json_cur.push(format!("{}~N~{}", crate::model::hex(&path), crate::model::hex(&t)));
    };
    match v {
        OwnedValue::Null => {}
        OwnedValue::Str(s) => {
            let toks = analyse_text(an, s, dropped);
            let end_position = state.entry(path.clone()).or_insert(0);
            let base = *end_position;
            let mut end_candidate = base;
            let mut ev: Vec<String> = vec![];
            for t in toks {
                {
                    let mut full = path.clone();
                    full.push(0);
                    full.push(b's');
                    full.extend_from_slice(&t.term);
                    ev.push(format!("{}:{}:{}", crate::model::hex(&full), t.pos, t.plen));
                }
                let start = base + t.pos;
                end_candidate = end_candidate.max(start + t.plen);
                let mut term = path.clone();
                term.push(0);
                term.push(b's');
                term.extend_from_slice(&t.term);
                e.occurrence(&term, doc, start);
                *ntok += 1;
            }
            *end_position = end_candidate + POSITION_GAP;
            e.json_cur.push(format!("{}~T~{}", crate::model::hex(&path), if ev.is_empty() { "_".to_string() } else { ev.join(",") }));
        }
        OwnedValue::U64(x) => {
            if *x <= i64::MAX as u64 {
                basic(e, b'i', map_i64(*x as i64));
            } else {
                basic(e, b'u', *x);
            }
            *ntok += 1;
        }
        OwnedValue::I64(x) => {
            basic(e, b'i', map_i64(*x));
            *ntok += 1;
        }
        OwnedValue::F64(x) => {
            if !x.is_finite() {
                return;
            }
            let fract = x.fract();
            if fract == 0.0 && *x >= i64::MIN as f64 && *x <= i64::MAX as f64 {
                basic(e, b'i', map_i64(*x as i64));
            } else if fract == 0.0 && *x >= 0.0 && *x <= u64::MAX as f64 {
                basic(e, b'u', *x as u64);
            } else {
                basic(e, b'f', map_f64(*x));
            }
            *ntok += 1;
        }
        OwnedValue::Bool(b) => {
            basic(e, b'o', *b as u64);
            *ntok += 1;
        }
        OwnedValue::Date(d) => {
            basic(e, b'd', map_date(d.into_timestamp_nanos()));
            *ntok += 1;
        }
        OwnedValue::Array(xs) => {
            for x in xs {
                json_walk(x, segs, expand_dots, an, doc, state, e, ntok, dropped);
            }
        }
        OwnedValue::Object(kvs) => {
            for (k, x) in kvs {
                if k.as_bytes().contains(&0u8) {
                    continue;
                }
                segs.push(k.clone());
                json_walk(x, segs, expand_dots, an, doc, state, e, ntok, dropped);
                segs.pop();
            }
        }
        _ => unreachable!("generator does not produce this JSON leaf"),
    }
}

/// independent inversion of a JSON field (positions are kept per path within a doc)
pub fn invert_json(case: &SegCase, fi: usize, index: &Index, dropped: &mut u64) -> Expected {
    let spec = &case.specs[fi];
    let mut an = index.tokenizers().get(spec.tokenizer).expect("tokenizer");
    let mut e = Expected::default();
    for (d, doc) in case.docs.iter().enumerate() {
        let mut state: BTreeMap<Vec<u8>, u32> = BTreeMap::new();
        let mut ntok = 0u32;
        for (f, v) in doc {
            if *f != fi {
                continue;
            }
            if let Val::Json(j) = v {
                let mut segs = vec![];
                json_walk(j, &mut segs, spec.expand_dots, &mut an, d as u32, &mut state, &mut e, &mut ntok, dropped);
            }
        }
        e.tokens_per_doc.push(ntok);
        let cur = std::mem::take(&mut e.json_cur);
        e.json_events.push(cur);
    }
    e
}

// ------------------------------------------------------------------------------------------
// building the real index
// ------------------------------------------------------------------------------------------
pub fn build_index(case: &SegCase) -> Result<(Index, Vec<Field>), String> {
    let mut sb = Schema::builder();
    let mut fields = vec![];
    for s in &case.specs {
        let num = || {
            let o = NumericOptions::default().set_indexed();
            if s.fieldnorms { o.set_fieldnorm() } else { o }
        };
        let tfi = || TextFieldIndexing::default().set_tokenizer(s.tokenizer).set_index_option(s.opt.real()).set_fieldnorms(s.fieldnorms);
        let f = match s.kind {
            Kind::Text => sb.add_text_field(&s.name, TextOptions::default().set_indexing_options(tfi())),
            Kind::U64 => sb.add_u64_field(&s.name, num()),
            Kind::I64 => sb.add_i64_field(&s.name, num()),
            Kind::F64 => sb.add_f64_field(&s.name, num()),
            Kind::Bool => sb.add_bool_field(&s.name, num()),
            Kind::Date => {
                let o = DateOptions::default().set_indexed();
                sb.add_date_field(&s.name, if s.fieldnorms { o.set_fieldnorm() } else { o })
            }
            Kind::Bytes => {
                let o = BytesOptions::default().set_indexed();
                sb.add_bytes_field(&s.name, if s.fieldnorms { o.set_fieldnorms() } else { o })
            }
            Kind::Ip => {
                let o = IpAddrOptions::default().set_indexed();
                sb.add_ip_addr_field(&s.name, if s.fieldnorms { o.set_fieldnorms() } else { o })
            }
            Kind::Facet => sb.add_facet_field(&s.name, FacetOptions::default()),
            Kind::Json => {
                let o = JsonObjectOptions::default().set_indexing_options(tfi());
                sb.add_json_field(&s.name, if s.expand_dots { o.set_expand_dots_enabled() } else { o })
            }
        };
        fields.push(f);
    }
    let index = Index::create_in_ram(sb.build());
    index.tokenizers().register("simple", SimpleTokenizer::default());
    let mut w: IndexWriter = index.writer_with_num_threads(1, 50_000_000).map_err(|e| e.to_string())?;
    for doc in &case.docs {
        let mut d = TantivyDocument::default();
        for (fi, v) in doc {
            let f = fields[*fi];
            match v {
                Val::Text(s) => d.add_text(f, s),
                Val::U64(x) => d.add_u64(f, *x),
                Val::I64(x) => d.add_i64(f, *x),
                Val::F64(x) => d.add_f64(f, *x),
                Val::Date(x) => d.add_date(f, DateTime::from_timestamp_nanos(*x)),
                Val::Bytes(b) => d.add_bytes(f, b),
                Val::Ip(x) => d.add_ip_addr(f, std::net::Ipv6Addr::from(*x)),
                Val::Bool(b) => d.add_bool(f, *b),
                Val::Facet(p) => d.add_facet(f, Facet::from_path(p.iter())),
                Val::Json(j) => d.add_field_value(f, j),
            }
        }
        w.add_document(d).map_err(|e| e.to_string())?;
    }
    w.commit().map_err(|e| e.to_string())?;
    drop(w);
    Ok((index, fields))
}

// ------------------------------------------------------------------------------------------
// generators
// ------------------------------------------------------------------------------------------
pub const BOUNDARY_LENS: [usize; 13] = [1, 2, 127, 128, 129, 255, 256, 257, 383, 384, 385, 4096, 4097];

const VOCAB: [&str; 16] = [
    "a", "b", "c", "the", "fox", "Fox", "dog", "ÉCOLE", "naïve", "日本語", "x1", "42",
    "qqqqqqqqqqqqqqqqqqqqqqqqqqqqqqqqqqqqqqqq",       // 40 bytes: kept by RemoveLong(40)
    "qqqqqqqqqqqqqqqqqqqqqqqqqqqqqqqqqqqqqqqqq",      // 41 bytes: removed by "default"
    "rrrrrrrrrrrrrrrrrrrrrrrrrrrrrrrrrrrrrrrrrrrrr", // 45 bytes
    "Zz",
];
const SEPS: [&str; 6] = [" ", " ", ", ", "-", "  ", " !!! "];

fn free_text(rng: &mut Rng, tokenizer: &str) -> String {
    match rng.below(60) {
        0..=3 => String::new(),
        4..=5 => "!!!".to_string(),
        6 => "   ".to_string(),
        7 => {
            // one token 130 or 300 times: term frequency / position count across a 128 block
            let w = *rng.pick(&VOCAB[..12]);
            let n = *rng.pick(&[130usize, 300]);
            vec![w; n].join(" ")
        }
        8 => {
            // a token longer than MAX_TOKEN_LEN (dropped by the indexer), or exactly at the limit
            let n = *rng.pick(&[MAX_TOKEN_LEN + 1, MAX_TOKEN_LEN, MAX_TOKEN_LEN + 7]);
            let long = "x".repeat(n);
            if tokenizer == "raw" || rng.chance(1, 3) { long } else { format!("a {long} b a") }
        }
        _ => {
            let n = 1 + rng.usize_below(12);
            let mut s = String::new();
            for i in 0..n {
                if i > 0 {
                    s.push_str(*rng.pick(&SEPS));
                }
                s.push_str(*rng.pick(&VOCAB));
            }
            s
        }
    }
}

fn raw_pool_text(rng: &mut Rng) -> String {
    rng.pick(&["", "a", "A", "hello world", "x\u{0}y", "naïve", "a", "b", "tag-1", "tag-2"]).to_string()
}

fn pool_u64(rng: &mut Rng) -> u64 {
    match rng.below(3) {
        0 => rng.next_u64(),
        _ => *rng.pick(&[0u64, 1, 2, 127, 128, 255, 256, 65535, 65536, u32::MAX as u64, u32::MAX as u64 + 1, i64::MAX as u64, i64::MAX as u64 + 1, u64::MAX - 1, u64::MAX]),
    }
}
fn pool_i64(rng: &mut Rng) -> i64 {
    match rng.below(3) {
        0 => rng.next_u64() as i64,
        _ => *rng.pick(&[i64::MIN, i64::MIN + 1, -65536, -256, -1, 0, 1, 255, 256, i64::MAX - 1, i64::MAX]),
    }
}
fn pool_f64(rng: &mut Rng) -> f64 {
    match rng.below(4) {
        0 => f64::from_bits(rng.next_u64()),
        1 => (rng.next_u64() as i64 as f64) / 1024.0,
        _ => *rng.pick(&[f64::NEG_INFINITY, f64::MIN, -1.5, -1.0, -f64::MIN_POSITIVE, -0.0, 0.0, f64::MIN_POSITIVE, 0.5, 1.0, 1e300, f64::MAX, f64::INFINITY, f64::NAN, 9.223372036854775807e18, 1.8446744073709552e19, 1e19]),
    }
}
fn pool_date(rng: &mut Rng) -> i64 {
    match rng.below(3) {
        0 => rng.next_u64() as i64,
        _ => *rng.pick(&[i64::MIN, -1_500_000_000, -1_000_000_000, -999_999_999, -1, 0, 1, 999_999_999, 1_000_000_000, 1_700_000_000_123_456_789, i64::MAX]),
    }
}
fn pool_bytes(rng: &mut Rng) -> Vec<u8> {
    match rng.below(10) {
        0 => vec![],
        1 => vec![0],
        2 => vec![0, 0],
        3 => vec![255],
        4 => vec![255, 255],
        5 => b"abc".to_vec(),
        6 => rng.bytes(300),
        _ => {
            let n = 1 + rng.usize_below(20);
            rng.bytes(n)
        }
    }
}
fn pool_ip(rng: &mut Rng) -> u128 {
    match rng.below(3) {
        0 => ((rng.next_u64() as u128) << 64) | rng.next_u64() as u128,
        _ => *rng.pick(&[0u128, 1, 0xffff_7f00_0001, u128::MAX, u128::MAX - 1, 1u128 << 64, 1u128 << 127]),
    }
}
fn pool_facet(rng: &mut Rng) -> Vec<String> {
    let depth = rng.usize_below(4);
    let mut p: Vec<String> = (0..depth).map(|_| rng.pick(&["a", "b", "top", "x y", "é", "a"]).to_string()).collect();
    if depth > 0 && rng.chance(1, 30) {
        let i = rng.usize_below(depth);
        p[i] = String::new();
    }
    p
}

fn json_leaf(rng: &mut Rng, tokenizer: &str) -> OwnedValue {
    match rng.below(9) {
        0 | 1 | 2 => OwnedValue::Str(if tokenizer == "raw" { raw_pool_text(rng) } else {
            let n = rng.usize_below(5);
            (0..n).map(|_| *rng.pick(&VOCAB[..12])).collect::<Vec<_>>().join(" ")
        }),
        3 => OwnedValue::U64(*rng.pick(&[0u64, 1, 7, i64::MAX as u64, i64::MAX as u64 + 1, u64::MAX])),
        4 => OwnedValue::I64(*rng.pick(&[i64::MIN, -1, 0, 1, 7, i64::MAX])),
        5 => OwnedValue::F64(*rng.pick(&[1.0, 1.5, -0.0, 7.0, 1e19, 9.223372036854775807e18, 1.8446744073709552e19, 3e19, f64::NAN, f64::INFINITY, -2.5, -9.3e18, -1e19])),
        6 => OwnedValue::Bool(rng.chance(1, 2)),
        7 => OwnedValue::Null,
        _ => OwnedValue::Date(DateTime::from_timestamp_nanos(pool_date(rng))),
    }
}

fn json_value(rng: &mut Rng, depth: u32, tokenizer: &str) -> OwnedValue {
    if depth >= 3 {
        return json_leaf(rng, tokenizer);
    }
    match rng.below(10) {
        0 | 1 => {
            let n = rng.usize_below(4);
            OwnedValue::Array((0..n).map(|_| json_value(rng, depth + 1, tokenizer)).collect())
        }
        2 | 3 => json_object(rng, depth + 1, tokenizer),
        _ => json_leaf(rng, tokenizer),
    }
}

fn json_object(rng: &mut Rng, depth: u32, tokenizer: &str) -> OwnedValue {
    let n = rng.usize_below(5);
    OwnedValue::Object(
        (0..n)
            .map(|_| (rng.pick(&["a", "b", "c", "a.b", "k1", "a", "b.", "x\u{0}y"]).to_string(), json_value(rng, depth, tokenizer)))
            .collect(),
    )
}

fn free_value(rng: &mut Rng, spec: &FieldSpec) -> Val {
    match spec.kind {
        Kind::Text => Val::Text(if spec.tokenizer == "raw" && !rng.chance(1, 4) { raw_pool_text(rng) } else { free_text(rng, spec.tokenizer) }),
        Kind::U64 => Val::U64(pool_u64(rng)),
        Kind::I64 => Val::I64(pool_i64(rng)),
        Kind::F64 => Val::F64(pool_f64(rng)),
        Kind::Date => Val::Date(pool_date(rng)),
        Kind::Bytes => Val::Bytes(pool_bytes(rng)),
        Kind::Ip => Val::Ip(pool_ip(rng)),
        Kind::Bool => Val::Bool(rng.chance(1, 2)),
        Kind::Facet => Val::Facet(pool_facet(rng)),
        Kind::Json => Val::Json(json_object(rng, 0, spec.tokenizer)),
    }
}

const ALL_KINDS: [Kind; 10] = [Kind::Text, Kind::U64, Kind::I64, Kind::F64, Kind::Date, Kind::Bytes, Kind::Ip, Kind::Bool, Kind::Facet, Kind::Json];

fn gen_spec(rng: &mut Rng, i: usize, kind: Kind) -> FieldSpec {
    let textual = matches!(kind, Kind::Text | Kind::Json);
    FieldSpec {
        name: format!("f{i}_{}", kind.name()),
        kind,
        opt: if textual { Opt::pick(rng) } else { Opt::Basic },
        tokenizer: if textual { *rng.pick(&["default", "default", "raw", "simple"]) } else { "" },
        fieldnorms: !matches!(kind, Kind::Facet | Kind::Json) && rng.chance(1, 2),
        expand_dots: kind == Kind::Json && rng.chance(1, 2),
    }
}

/// small segments, rich schema, free-form multi-valued docs
fn gen_small(rng: &mut Rng) -> SegCase {
    let n = *rng.pick(&[1usize, 2, 3, 5, 8, 13, 20, 40]);
    let nf = 2 + rng.usize_below(7);
    let mut specs = vec![gen_spec(rng, 0, Kind::Text)];
    for i in 1..nf {
        let k = *rng.pick(&ALL_KINDS);
        specs.push(gen_spec(rng, i, k));
    }
    let mut docs = vec![];
    for _ in 0..n {
        let mut d = vec![];
        for (fi, s) in specs.iter().enumerate() {
            let k = *rng.pick(&[0usize, 1, 1, 1, 2, 3, 4]);
            for _ in 0..k {
                d.push((fi, free_value(rng, s)));
            }
        }
        // values of different fields interleaved: index_document groups them by field (stable)
        if rng.chance(1, 2) {
            rng.shuffle(&mut d);
        }
        docs.push(d);
    }
    SegCase { profile: "small".into(), specs, docs }
}

/// doc set of a planned term
fn planned_set(rng: &mut Rng, n: usize) -> Vec<bool> {
    let mut set = vec![false; n];
    let mut lens: Vec<usize> = BOUNDARY_LENS.iter().cloned().filter(|l| *l <= n).collect();
    if n >= 4097 && rng.chance(1, 3) {
        lens = vec![4096, 4097, 4095];
    }
    let pick = if n > 20000 && rng.chance(1, 2) { 9 } else { rng.below(12) };
    if pick >= 9 && n > 20000 {
        lens = vec![128, 129, 256, 257, 384, 385];
    }
    match pick {
        9 | 10 | 11 if n >= 64 => {
            // clusters of consecutive docs separated by big gaps: one 128-block then holds a
            // wide gap next to width-0 gaps
            let k = (*rng.pick(&lens)).min(n / 2).max(2);
            let nclusters = 2 + rng.usize_below(3);
            let per = k.div_ceil(nclusters);
            let mut starts: Vec<usize> = (0..nclusters).map(|_| rng.usize_below(n - per + 1)).collect();
            starts[0] = if rng.chance(1, 2) { 0 } else { starts[0] };
            if rng.chance(1, 2) {
                starts[nclusters - 1] = n - per;
            }
            for st in starts {
                for s in set.iter_mut().skip(st).take(per) {
                    *s = true;
                }
            }
        }
        0 | 1 => {
            // exactly k random docs
            let k = *rng.pick(&lens);
            let mut ids: Vec<usize> = (0..n).collect();
            rng.shuffle(&mut ids);
            for i in &ids[..k] {
                set[*i] = true;
            }
        }
        2 => {
            let k = *rng.pick(&lens);
            for s in set.iter_mut().take(k) {
                *s = true;
            }
        }
        3 => {
            let k = *rng.pick(&lens);
            for i in n - k..n {
                set[i] = true;
            }
        }
        4 | 5 => {
            let e = rng.below(if n > 20000 { 10 } else { 13 }) as u32;
            for i in (0..n).step_by(1usize << e) {
                set[i] = true;
            }
        }
        6 => {
            set[0] = true;
            set[n - 1] = true;
        }
        7 => set.iter_mut().for_each(|s| *s = true),
        _ => {
            let den = *rng.pick(&[2u64, 3, 10, 100, 1000]);
            for s in set.iter_mut() {
                *s = rng.chance(1, den);
            }
        }
    }
    set
}

#[derive(Clone, Copy)]
enum TfProfile {
    One,
    Small,
    Many,
    Heavy,
}

/// segments with controlled posting-list lengths and gaps
fn gen_planned(rng: &mut Rng, n: usize, profile: &str) -> SegCase {
    let big = n >= 2000;
    let mut specs = vec![];
    let ntext = if big { 1 } else { 2 };
    for i in 0..ntext {
        let mut s = gen_spec(rng, i, Kind::Text);
        if i == 0 {
            s.opt = Opt::Positions;
            s.tokenizer = *rng.pick(&["default", "simple"]);
        }
        specs.push(s);
    }
    let others: Vec<Kind> = if big {
        vec![*rng.pick(&[Kind::U64, Kind::Bool, Kind::Facet, Kind::I64])]
    } else {
        let mut k = vec![Kind::U64];
        for _ in 0..rng.usize_below(3) {
            k.push(*rng.pick(&ALL_KINDS[1..9]));
        }
        k
    };
    for k in others {
        let i = specs.len();
        specs.push(gen_spec(rng, i, k));
    }
    // planned terms per text field
    struct Planned {
        word: String,
        set: Vec<bool>,
        tf: TfProfile,
        heavy_doc: usize,
    }
    let mut plans: Vec<Vec<Planned>> = vec![];
    for s in specs.iter().take(ntext) {
        let np = if big { 5 + rng.usize_below(4) } else { 6 + rng.usize_below(9) };
        let mut ps = vec![];
        for j in 0..np {
            let set = planned_set(rng, n);
            let members: Vec<usize> = (0..n).filter(|d| set[*d]).collect();
            let tf = if s.tokenizer == "raw" {
                *rng.pick(&[TfProfile::One, TfProfile::Small])
            } else if big {
                *rng.pick(&[TfProfile::One, TfProfile::One, TfProfile::Small, TfProfile::Heavy])
            } else {
                *rng.pick(&[TfProfile::One, TfProfile::Small, TfProfile::Many, TfProfile::Heavy])
            };
            let heavy_doc = if members.is_empty() { 0 } else { *rng.pick(&members) };
            ps.push(Planned { word: format!("t{j}w"), set, tf, heavy_doc });
        }
        plans.push(ps);
    }
    // pools of the other fields
    let pools: Vec<Vec<Val>> = specs
        .iter()
        .map(|s| {
            if s.kind == Kind::Text {
                return vec![];
            }
            let m = *rng.pick(&[1usize, 2, 3, 7, 50]);
            (0..m + 1).map(|_| free_value(rng, s)).collect()
        })
        .collect();
    let strides: Vec<(usize, usize)> = specs.iter().map(|_| (1 + rng.usize_below(5), rng.usize_below(7))).collect();
    let mut docs = vec![];
    for d in 0..n {
        let mut vals: Vec<(usize, Val)> = vec![];
        for (fi, s) in specs.iter().enumerate() {
            if fi < ntext {
                let mut toks: Vec<&str> = vec![];
                for p in &plans[fi] {
                    if !p.set[d] {
                        continue;
                    }
                    let tf = match p.tf {
                        TfProfile::One => 1,
                        TfProfile::Small => 1 + rng.usize_below(4),
                        TfProfile::Many => 6 + rng.usize_below(7),
                        TfProfile::Heavy => {
                            if d == p.heavy_doc { *rng.pick(&[130usize, 300, 128, 129]) } else { 1 }
                        }
                    };
                    for _ in 0..tf {
                        toks.push(&p.word);
                    }
                }
                if toks.len() <= 64 {
                    rng.shuffle(&mut toks);
                }
                if toks.is_empty() {
                    if rng.chance(1, 4) {
                        vals.push((fi, Val::Text(String::new())));
                    }
                } else if s.tokenizer == "raw" {
                    for t in toks {
                        vals.push((fi, Val::Text(t.to_string())));
                    }
                } else {
                    let parts = 1 + rng.usize_below(3.min(toks.len()));
                    let per = toks.len().div_ceil(parts);
                    for c in toks.chunks(per) {
                        vals.push((fi, Val::Text(c.join(" "))));
                    }
                }
            } else {
                let pool = &pools[fi];
                let m = pool.len() - 1;
                let (a, b) = strides[fi];
                // the last pool entry is the rare value: first and last doc only
                if d == 0 || d == n - 1 {
                    vals.push((fi, pool[m].clone()));
                }
                if (d + b) % 5 != 0 {
                    vals.push((fi, pool[(d * a + b) % m].clone()));
                    if !big && rng.chance(1, 6) {
                        // duplicate / second value in the same doc
                        vals.push((fi, pool[(d * a + b + rng.usize_below(2)) % m].clone()));
                    }
                }
            }
        }
        docs.push(vals);
    }
    SegCase { profile: profile.into(), specs, docs }
}

pub fn gen_case(rng: &mut Rng, profile: &str) -> SegCase {
    match profile {
        "small" => gen_small(rng),
        "medium" => {
            let n = *rng.pick(&[127usize, 128, 129, 255, 256, 257, 300, 383, 384, 385, 500, 700]);
            gen_planned(rng, n, "medium")
        }
        "huge" => {
            // > 2^16 tiny docs: doc-id gaps of 14..16 bits inside full blocks
            let n = 66000 + rng.usize_below(5000);
            gen_planned(rng, n, "huge")
        }
        _ => {
            let n = 4200 + rng.usize_below(4801);
            gen_planned(rng, n, "big")
        }
    }
}
