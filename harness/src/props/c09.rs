//! C09 — stored documents are returned exactly as they were added.
//!
//! Ties `Model/Store/*.lean` to `schema/document/{se,de}.rs`, `store/{writer,reader,store_compressor}.rs`,
//! `store/index/*` and `merger.rs::write_storable_fields`.
//!
//! Oracle (implementation alone): `Searcher::doc`, `StoreReader::get / iter / iter_raw /
//! get_document_bytes`, `to_json` / `to_named_doc` return exactly the stored-flagged field values
//! in order, for every compressor × block size × dedicated thread × cache size × access order,
//! before and after merges (with / without deletes, several segments); nothing panics.
//! Model correspondence: real serializer bytes decoded by the Lean codec, Lean-encoded bytes
//! decoded by the real deserializer (and byte equality); store files (compressor none) written by
//! the real `StoreWriter` are byte-identical to the model's and read back by the model, model-written
//! files are read by the real `StoreReader` (this covers the skip index: its bytes and every seek);
//! merged store files equal the model's merge; `CacheStats` equal the model's LRU.
use crate::model::{hex, nat_list, unhex};
use crate::rng::Rng;
use crate::Ctx;
use serde_json::{json, Value as J};
use std::net::Ipv6Addr;
use std::panic::{catch_unwind, AssertUnwindSafe};
use std::path::Path;
use tantivy::directory::{Directory, FileSlice, RamDirectory};
use tantivy::index::SegmentComponent;
use tantivy::indexer::NoMergePolicy;
use tantivy::schema::{
    BytesOptions, DateOptions, FacetOptions, Facet, Field, IpAddrOptions, JsonObjectOptions, NumericOptions,
    OwnedValue, Schema, TextFieldIndexing, TextOptions, FAST, INDEXED, STORED, STRING, TEXT,
};
use tantivy::store::{Compressor, StoreReader, StoreWriter, ZstdCompressor};
use tantivy::tokenizer::{PreTokenizedString, Token};
use tantivy::{
    DateTime, DocAddress, Document, Index, IndexSettings, IndexWriter, TantivyDocument, Term,
};

// ------------------------------------------------------------------------------------------
// canonical text (the same grammar as Driver/C09.lean)
// ------------------------------------------------------------------------------------------

fn canon_value(v: &OwnedValue, out: &mut String) {
    match v {
        OwnedValue::Null => out.push('N'),
        OwnedValue::Str(s) => {
            out.push('S');
            out.push_str(&hex(s.as_bytes()));
        }
        OwnedValue::PreTokStr(p) => {
            out.push('T');
            out.push_str(&hex(serde_json::to_string(p).unwrap().as_bytes()));
        }
        OwnedValue::U64(x) => out.push_str(&format!("U{x}")),
        OwnedValue::I64(x) => out.push_str(&format!("I{}", *x as u64)),
        OwnedValue::F64(x) => out.push_str(&format!("F{}", tantivy_common::f64_to_u64(*x))),
        OwnedValue::Bool(b) => out.push_str(if *b { "B1" } else { "B0" }),
        OwnedValue::Date(d) => out.push_str(&format!("D{}", d.into_timestamp_nanos() as u64)),
        OwnedValue::Facet(f) => {
            out.push('C');
            out.push_str(&hex(f.encoded_str().as_bytes()));
        }
        OwnedValue::Bytes(b) => {
            out.push('Y');
            out.push_str(&hex(b));
        }
        OwnedValue::IpAddr(ip) => out.push_str(&format!("P{}", u128::from(*ip))),
        OwnedValue::Array(vs) => {
            out.push_str("A[");
            for (i, v) in vs.iter().enumerate() {
                if i > 0 {
                    out.push(',');
                }
                canon_value(v, out);
            }
            out.push(']');
        }
        OwnedValue::Object(es) => {
            out.push_str("O{");
            for (i, (k, v)) in es.iter().enumerate() {
                if i > 0 {
                    out.push(',');
                }
                out.push_str(&hex(k.as_bytes()));
                out.push(':');
                canon_value(v, out);
            }
            out.push('}');
        }
    }
}

fn canon_fields(fvs: &[(Field, OwnedValue)]) -> String {
    if fvs.is_empty() {
        return "-".into();
    }
    let mut out = String::new();
    for (i, (f, v)) in fvs.iter().enumerate() {
        if i > 0 {
            out.push(';');
        }
        out.push_str(&format!("{}=", f.field_id()));
        canon_value(v, &mut out);
    }
    out
}

/// NaN-safe comparison form of a named document (field name → values in order)
fn canon_named(n: &tantivy::schema::NamedFieldDocument) -> Vec<(String, Vec<String>)> {
    n.0.iter()
        .map(|(k, vs)| {
            (
                k.clone(),
                vs.iter()
                    .map(|v| {
                        let mut s = String::new();
                        canon_value(v, &mut s);
                        s
                    })
                    .collect(),
            )
        })
        .collect()
}

fn canon_doc(doc: &TantivyDocument) -> String {
    let fvs: Vec<(Field, OwnedValue)> = doc.field_values().map(|(f, v)| (f, OwnedValue::from(v))).collect();
    canon_fields(&fvs)
}

// ------------------------------------------------------------------------------------------
// schema and document generation
// ------------------------------------------------------------------------------------------

#[derive(Clone, Copy, PartialEq, Debug)]
enum Kind {
    Text,
    Str,
    U64,
    I64,
    F64,
    Bool,
    Date,
    Facet,
    Bytes,
    Ip,
    JsonIndexed,
    JsonStoredOnly,
}

struct FieldSpec {
    field: Field,
    kind: Kind,
    stored: bool,
}

struct Sch {
    schema: Schema,
    id: Field,
    /// random sort key (fast, not stored): sorting by it interleaves the segments in a merge
    sk: Field,
    fields: Vec<FieldSpec>,
}

/// constants extracted from the Rust sources (through `Gen/Store.lean` and the model driver)
#[derive(Clone, Copy)]
struct Consts {
    period: usize,
    default_bs: usize,
    cache_cap: usize,
    min_stack_blocks: usize,
    footer_len: usize,
}

fn read_consts(ctx: &mut Ctx) -> Consts {
    let r = ctx.model.ask("C09 consts");
    let v: Vec<usize> = r.split(' ').filter_map(|t| t.parse().ok()).collect();
    if v.len() == 6 {
        Consts { period: v[0], default_bs: v[1], cache_cap: v[2], min_stack_blocks: v[4], footer_len: v[5] }
    } else {
        ctx.report.notes.push(format!("model driver did not report the constants ({r}); using the pinned values"));
        Consts { period: 8, default_bs: 16384, cache_cap: 100, min_stack_blocks: 6, footer_len: 28 }
    }
}

fn build_schema() -> Sch {
    let mut sb = Schema::builder();
    let id = sb.add_u64_field("id", INDEXED | FAST);
    let sk = sb.add_u64_field("sk", FAST);
    let mut fields = vec![];
    let mut add = |field: Field, kind: Kind, stored: bool| fields.push(FieldSpec { field, kind, stored });
    add(sb.add_text_field("title", TEXT | STORED), Kind::Text, true);
    add(sb.add_text_field("body_ns", TEXT), Kind::Text, false);
    add(sb.add_text_field("tag", STRING | STORED), Kind::Str, true);
    add(sb.add_text_field("raw", TextOptions::default().set_stored()), Kind::Text, true);
    add(sb.add_u64_field("u", NumericOptions::default().set_stored().set_fast().set_indexed()), Kind::U64, true);
    add(sb.add_u64_field("u_ns", FAST), Kind::U64, false);
    add(sb.add_i64_field("i", STORED), Kind::I64, true);
    add(sb.add_f64_field("f", NumericOptions::default().set_stored().set_fast()), Kind::F64, true);
    add(sb.add_bool_field("b", STORED | INDEXED), Kind::Bool, true);
    add(sb.add_date_field("d", DateOptions::default().set_stored().set_indexed()), Kind::Date, true);
    add(sb.add_facet_field("fc", FacetOptions::default().set_stored()), Kind::Facet, true);
    add(sb.add_facet_field("fc_ns", FacetOptions::default()), Kind::Facet, false);
    add(sb.add_bytes_field("by", BytesOptions::default().set_stored()), Kind::Bytes, true);
    add(sb.add_bytes_field("by_ns", BytesOptions::default().set_fast()), Kind::Bytes, false);
    add(sb.add_ip_addr_field("ip", IpAddrOptions::default().set_stored().set_indexed()), Kind::Ip, true);
    add(
        sb.add_json_field(
            "js",
            JsonObjectOptions::default().set_stored().set_indexing_options(TextFieldIndexing::default()),
        ),
        Kind::JsonIndexed,
        true,
    );
    add(sb.add_json_field("js_so", JsonObjectOptions::default().set_stored()), Kind::JsonStoredOnly, true);
    add(
        sb.add_json_field("js_ns", JsonObjectOptions::default().set_indexing_options(TextFieldIndexing::default())),
        Kind::JsonIndexed,
        false,
    );
    Sch { schema: sb.build(), id, sk, fields }
}

const WORDS: &[&str] = &[
    "alpha", "beta", "gamma", "Δέλτα", "épsilon", "ζ", "日本語", "🙂🙃", "a\u{0301}", "x", "", "tab\tsep", "q\"uote", "back\\slash",
    "\u{0}nul", "\u{7f}", "\u{80}", "\u{7ff}", "\u{800}", "\u{ffff}", "\u{10000}", "\u{10ffff}",
];

fn gen_string(rng: &mut Rng, max_words: usize) -> String {
    let n = rng.usize_below(max_words + 1);
    let mut parts: Vec<&str> = vec![];
    for _ in 0..n {
        parts.push(*rng.pick(WORDS));
    }
    parts.join(" ")
}

fn gen_len_biased(rng: &mut Rng) -> usize {
    match rng.below(12) {
        0 => 0,
        1 => 1,
        2 => 127,
        3 => 128,
        4 => 129,
        5 => 16383,
        6 => 16384,
        7 => 16385,
        8 => 300 + rng.usize_below(3000),
        _ => rng.usize_below(40),
    }
}

fn gen_text(rng: &mut Rng, big: bool) -> String {
    if big {
        let n = gen_len_biased(rng);
        let mut s = String::with_capacity(n + 4);
        let alphabet: Vec<char> = "abc déf ζ日🙂\n".chars().collect();
        while s.len() < n {
            s.push(*rng.pick(&alphabet));
        }
        s
    } else {
        gen_string(rng, 6)
    }
}

fn gen_u64(rng: &mut Rng) -> u64 {
    match rng.below(8) {
        0 => 0,
        1 => 1,
        2 => 127,
        3 => 128,
        4 => u64::MAX,
        5 => u64::MAX - 1,
        6 => 1 << (rng.below(64)),
        _ => rng.next_u64(),
    }
}

fn gen_i64(rng: &mut Rng) -> i64 {
    match rng.below(8) {
        0 => 0,
        1 => -1,
        2 => i64::MIN,
        3 => i64::MAX,
        4 => 1,
        _ => rng.next_u64() as i64,
    }
}

fn gen_f64(rng: &mut Rng) -> f64 {
    match rng.below(12) {
        0 => 0.0,
        1 => -0.0,
        2 => f64::INFINITY,
        3 => f64::NEG_INFINITY,
        4 => f64::NAN,
        5 => f64::MIN_POSITIVE,
        6 => f64::MAX,
        7 => -1.5,
        8 => f64::from_bits(1), // subnormal
        _ => f64::from_bits(rng.next_u64()),
    }
}

fn gen_date(rng: &mut Rng) -> DateTime {
    let nanos = match rng.below(6) {
        0 => 0,
        1 => -1,
        2 => 1_700_000_000_123_456_789,
        3 => i64::MAX / 2,
        4 => -(1i64 << 60),
        _ => (rng.next_u64() >> 2) as i64 - (1i64 << 61),
    };
    DateTime::from_timestamp_nanos(nanos)
}

fn gen_facet(rng: &mut Rng) -> Facet {
    if rng.chance(1, 12) {
        return Facet::root();
    }
    let n = 1 + rng.usize_below(3);
    let segs: Vec<String> = (0..n)
        .map(|_| {
            let w = *rng.pick(&["a", "b", "top", "Δ", "日本", "with/slash", "x y", "🙂"]);
            w.to_string()
        })
        .collect();
    Facet::from_path(segs)
}

fn gen_ip(rng: &mut Rng) -> Ipv6Addr {
    match rng.below(5) {
        0 => Ipv6Addr::from(0u128),
        1 => Ipv6Addr::from(u128::MAX),
        2 => std::net::Ipv4Addr::new(192, 168, 0, rng.below(256) as u8).to_ipv6_mapped(),
        3 => Ipv6Addr::from(1u128),
        _ => Ipv6Addr::from(((rng.next_u64() as u128) << 64) | rng.next_u64() as u128),
    }
}

fn gen_pretok(rng: &mut Rng) -> PreTokenizedString {
    let n = rng.usize_below(5);
    let words: Vec<&str> = (0..n).map(|_| *rng.pick(&["alpha", "beta", "ζ", "日本語", "x"])).collect();
    let text = words.join(" ");
    let mut tokens = vec![];
    let mut off = 0;
    for (i, w) in words.iter().enumerate() {
        tokens.push(Token { offset_from: off, offset_to: off + w.len(), position: i, text: w.to_string(), position_length: 1 });
        off += w.len() + 1;
    }
    PreTokenizedString { text, tokens }
}

/// a JSON-like tree; `wild` additionally allows the leaf types only a stored-only field can hold
fn gen_tree(rng: &mut Rng, depth: usize, wild: bool, budget: &mut usize) -> OwnedValue {
    if *budget > 0 {
        *budget -= 1;
    }
    let leaf = depth == 0 || *budget == 0 || rng.chance(2, 5);
    if leaf {
        let k = rng.below(if wild { 13 } else { 8 });
        return match k {
            0 => OwnedValue::Null,
            1 => OwnedValue::Str(gen_string(rng, 3)),
            2 => OwnedValue::U64(gen_u64(rng)),
            3 => OwnedValue::I64(gen_i64(rng)),
            4 => OwnedValue::F64(gen_f64(rng)),
            5 => OwnedValue::Bool(rng.chance(1, 2)),
            6 => OwnedValue::Date(gen_date(rng)),
            7 => {
                let big = rng.chance(1, 10);
                OwnedValue::Str(gen_text(rng, big))
            }
            8 => {
                let n = rng.usize_below(20);
                OwnedValue::Bytes(rng.bytes(n))
            }
            9 => OwnedValue::IpAddr(gen_ip(rng)),
            10 => OwnedValue::Facet(gen_facet(rng)),
            11 => OwnedValue::PreTokStr(gen_pretok(rng)),
            _ => OwnedValue::Bytes(vec![]),
        };
    }
    let width = match rng.below(6) {
        0 => 0,
        1 => 1,
        2 => 2,
        3 => 63 + rng.usize_below(3), // object header count crosses one VInt byte (2*64 = 128)
        4 => 127 + rng.usize_below(3),
        _ => rng.usize_below(6),
    }
    .min(*budget);
    if rng.chance(1, 2) {
        OwnedValue::Array((0..width).map(|_| gen_tree(rng, depth - 1, wild, budget)).collect())
    } else {
        OwnedValue::Object(
            (0..width)
                .map(|i| {
                    let key = if wild { format!("{}{}", rng.pick(WORDS), i) } else { format!("k{}{}", rng.pick(&["a", "b", "Δ", "日"]), i) };
                    // duplicate keys are legal in the binary format (a list of pairs)
                    let key = if rng.chance(1, 10) { "dup".to_string() } else { key };
                    (key, gen_tree(rng, depth - 1, wild, budget))
                })
                .collect(),
        )
    }
}

/// a chain of single-element containers, `depth` deep
fn gen_deep(rng: &mut Rng, depth: usize) -> OwnedValue {
    let mut v = OwnedValue::U64(depth as u64);
    for i in 0..depth {
        v = if rng.chance(1, 2) { OwnedValue::Array(vec![v]) } else { OwnedValue::Object(vec![(format!("k{i}"), v)]) };
    }
    v
}

/// one very wide array or object: the element count needs 2 or 3 VInt bytes
/// (an object writes twice its number of entries)
fn gen_wide(rng: &mut Rng) -> OwnedValue {
    let width = match rng.below(12) {
        0 => 200,
        1 => 255,
        2 => 256,
        3 => 257,
        4 => 8191,
        5 => 8192,
        6 => 8193,
        7 => 16384,
        8 => 16383,
        _ => 130 + rng.usize_below(400),
    };
    let leaf = |rng: &mut Rng, i: usize| match rng.below(4) {
        0 => OwnedValue::Null,
        1 => OwnedValue::Bool(i % 2 == 0),
        2 => OwnedValue::U64(i as u64),
        _ => OwnedValue::Str(format!("v{i}")),
    };
    if rng.chance(1, 2) {
        OwnedValue::Array((0..width).map(|i| leaf(rng, i)).collect())
    } else {
        OwnedValue::Object((0..width).map(|i| (format!("k{i}"), leaf(rng, i))).collect())
    }
}

fn gen_json_top(rng: &mut Rng, wild: bool, profile: u64) -> OwnedValue {
    let v = match profile {
        1 => gen_wide(rng),
        0 => {
            let depth = 1 + rng.usize_below(60);
            gen_deep(rng, depth)
        }
        _ => {
            let mut budget = match rng.below(4) { 0 => 3, 1 => 400, _ => 40 };
            let depth = 1 + rng.usize_below(5);
            gen_tree(rng, depth, wild, &mut budget)
        }
    };
    match v {
        OwnedValue::Object(_) => v,
        other => OwnedValue::Object(vec![("root".to_string(), other)]),
    }
}

fn gen_value(rng: &mut Rng, kind: Kind, big: bool) -> OwnedValue {
    match kind {
        Kind::Text => {
            if rng.chance(1, 8) { OwnedValue::PreTokStr(gen_pretok(rng)) } else { OwnedValue::Str(gen_text(rng, big)) }
        }
        Kind::Str => OwnedValue::Str(gen_string(rng, 2)),
        Kind::U64 => OwnedValue::U64(gen_u64(rng)),
        Kind::I64 => OwnedValue::I64(gen_i64(rng)),
        Kind::F64 => OwnedValue::F64(gen_f64(rng)),
        Kind::Bool => OwnedValue::Bool(rng.chance(1, 2)),
        Kind::Date => OwnedValue::Date(gen_date(rng)),
        Kind::Facet => OwnedValue::Facet(gen_facet(rng)),
        Kind::Bytes => {
            let n = if big { gen_len_biased(rng) } else { rng.usize_below(12) };
            OwnedValue::Bytes(rng.bytes(n))
        }
        Kind::Ip => OwnedValue::IpAddr(gen_ip(rng)),
        Kind::JsonIndexed => {
            let p = rng.below(6);
            gen_json_top(rng, false, p)
        }
        Kind::JsonStoredOnly => {
            let p = rng.below(6);
            gen_json_top(rng, true, p)
        }
    }
}

/// what the store must return for an added value (top-level pre-tokenized text → its text)
fn stored_of(v: &OwnedValue) -> OwnedValue {
    match v {
        OwnedValue::PreTokStr(p) => OwnedValue::Str(p.text.clone()),
        other => other.clone(),
    }
}

struct GenDoc {
    /// every (field, value) given to `add_document`, in order (without the id field)
    added: Vec<(Field, OwnedValue)>,
    /// the stored view
    expected: Vec<(Field, OwnedValue)>,
}

#[derive(Clone, Copy, PartialEq, Debug)]
enum DocProfile {
    Empty,
    OnlyNonStored,
    Small,
    Mixed,
    Big,
    Huge,
    ManyValues,
    Json,
}

fn gen_doc(rng: &mut Rng, sch: &Sch, profile: DocProfile) -> GenDoc {
    let mut added = vec![];
    let stored_fields: Vec<&FieldSpec> = sch.fields.iter().filter(|f| f.stored).collect();
    let ns_fields: Vec<&FieldSpec> = sch.fields.iter().filter(|f| !f.stored).collect();
    match profile {
        DocProfile::Empty => {}
        DocProfile::OnlyNonStored => {
            for _ in 0..1 + rng.usize_below(3) {
                let f = *rng.pick(&ns_fields);
                added.push((f.field, gen_value(rng, f.kind, false)));
            }
        }
        DocProfile::Small => {
            let f = *rng.pick(&stored_fields);
            added.push((f.field, gen_value(rng, f.kind, false)));
        }
        DocProfile::Mixed | DocProfile::Big => {
            let n = 1 + rng.usize_below(8);
            for _ in 0..n {
                let f = rng.pick(&sch.fields);
                added.push((f.field, gen_value(rng, f.kind, profile == DocProfile::Big)));
            }
        }
        DocProfile::Huge => {
            let n = 200_000 + rng.usize_below(900_000);
            let unit = "huge ζ日🙂 text ";
            let text: String = unit.repeat(n / unit.len() + 1);
            added.push((sch.fields[3].field, OwnedValue::Str(text)));
            added.push((sch.fields[0].field, OwnedValue::Str("after huge".into())));
        }
        DocProfile::ManyValues => {
            // several values per field, fields interleaved, stored and non-stored mixed
            let f1 = *rng.pick(&stored_fields);
            let f2 = *rng.pick(&stored_fields);
            let f3 = *rng.pick(&ns_fields);
            // the number of stored values of a document is a VInt: cross its one-byte range too
            let n = match rng.below(8) {
                0 => 126 + rng.usize_below(5),
                1 => 300,
                _ => 2 + rng.usize_below(12),
            };
            for i in 0..n {
                let f = match i % 3 { 0 => f1, 1 => f2, _ => if rng.chance(1, 2) { f3 } else { f1 } };
                added.push((f.field, gen_value(rng, f.kind, false)));
            }
        }
        DocProfile::Json => {
            let n = 1 + rng.usize_below(3);
            for _ in 0..n {
                let f = *rng.pick(&[&sch.fields[15], &sch.fields[16], &sch.fields[17]]);
                added.push((f.field, gen_value(rng, f.kind, false)));
            }
        }
    }
    let stored = |f: Field| sch.fields.iter().any(|s| s.field == f && s.stored);
    let expected = added.iter().filter(|(f, _)| stored(*f)).map(|(f, v)| (*f, stored_of(v))).collect();
    GenDoc { added, expected }
}

fn pick_profile(rng: &mut Rng, allow_huge: bool) -> DocProfile {
    match rng.below(24) {
        0 => DocProfile::Empty,
        1 => DocProfile::OnlyNonStored,
        2 | 3 | 4 => DocProfile::Small,
        5 | 6 | 7 | 8 | 9 => DocProfile::Mixed,
        10 | 11 => DocProfile::Big,
        12 | 13 | 14 | 15 => DocProfile::ManyValues,
        16 | 17 | 18 | 19 => DocProfile::Json,
        20 if allow_huge => DocProfile::Huge,
        _ => DocProfile::Mixed,
    }
}

fn to_tantivy_doc(fvs: &[(Field, OwnedValue)]) -> TantivyDocument {
    let mut doc = TantivyDocument::default();
    for (f, v) in fvs {
        match v {
            // exercise the typed entry points as well as `add_field_value`
            OwnedValue::Str(s) => doc.add_text(*f, s),
            OwnedValue::PreTokStr(p) => doc.add_pre_tokenized_text(*f, p.clone()),
            OwnedValue::Bytes(b) => doc.add_bytes(*f, b),
            OwnedValue::Facet(fc) => doc.add_facet(*f, fc.clone()),
            other => doc.add_field_value(*f, other),
        }
    }
    doc
}

// ------------------------------------------------------------------------------------------
// codec cases: real serializer ↔ Lean codec
// ------------------------------------------------------------------------------------------

fn case_codec(ctx: &mut Ctx, sch: &Sch, sub: u64) {
    let mut rng = Rng::new(sub);
    let profile = pick_profile(&mut rng, false);
    let gd = gen_doc(&mut rng, sch, profile);
    let case = json!({"kind": "codec", "sub": sub.to_string()});
    let expected = canon_fields(&gd.expected);
    let doc = to_tantivy_doc(&gd.added);
    ctx.report.count(&format!("codec-profile:{:?}", profile));
    let nested = expected.contains("A[") || expected.contains("O{");
    ctx.report.case(&format!("codec|{expected}"), nested || gd.expected.len() >= 3);
    let bytes = match catch_unwind(AssertUnwindSafe(|| tantivy::verif::c09_serialize_doc(&doc, &sch.schema))) {
        Ok(Ok(b)) => b,
        Ok(Err(e)) => {
            ctx.report.violation("oracle", "C09:serialize-error", format!("serialize_doc failed: {e}"), case);
            return;
        }
        Err(_) => {
            ctx.report.violation("oracle", "C09:serialize-panic", "serialize_doc panicked".into(), case);
            return;
        }
    };
    // oracle: the real codec round-trips to the stored view
    match catch_unwind(AssertUnwindSafe(|| tantivy::verif::c09_deserialize_doc(&bytes))) {
        Ok(Ok(back)) => {
            let got = canon_doc(&back);
            if got != expected {
                ctx.report.violation("oracle", "C09:codec-roundtrip", format!("deserialize(serialize(doc)) differs from the stored view: got {} expected {}", clip(&got), clip(&expected)), case.clone());
            }
        }
        Ok(Err(e)) => ctx.report.violation("oracle", "C09:codec-roundtrip", format!("deserialize failed on serialized doc: {e}"), case.clone()),
        Err(_) => ctx.report.violation("oracle", "C09:codec-panic", "deserialize panicked on serialized doc".into(), case.clone()),
    }
    if bytes.len() > 200_000 {
        return;
    }
    // model: Lean decodes the real bytes
    let m = ctx.model.ask(&format!("C09 docdec {}", hex(&bytes)));
    if m != expected {
        ctx.report.violation("model", "C09:model-decode-real-bytes", format!("Lean codec on real bytes: {} expected {}", clip(&m), clip(&expected)), case.clone());
    }
    // model: Lean encodes, the real deserializer reads; bytes are identical
    let menc = ctx.model.ask(&format!("C09 docenc {expected}"));
    match unhex(&menc) {
        Some(mb) => {
            if mb != bytes {
                layout_differs(ctx, "document-bytes", format!("{} vs {} bytes", mb.len(), bytes.len()));
            }
            match catch_unwind(AssertUnwindSafe(|| tantivy::verif::c09_deserialize_doc(&mb))) {
                Ok(Ok(back)) => {
                    if canon_doc(&back) != expected {
                        ctx.report.violation("model", "C09:real-decode-model-bytes", "real deserializer on Lean-encoded bytes returns another document".into(), case.clone());
                    }
                }
                _ => ctx.report.violation("model", "C09:real-decode-model-bytes", "real deserializer fails on Lean-encoded bytes".into(), case.clone()),
            }
        }
        None => ctx.report.violation("model", "C09:model-encode-bytes-differ", format!("model refused canonical document: {menc}"), case.clone()),
    }
    // the in-memory form: `node_data` of a document holding one of the values (leaf encodings,
    // address tables of arrays / objects) against the Lean `cdAdd`, and the model's read-back
    if let Some((f, v)) = gd.expected.iter().max_by_key(|(_, v)| matches!(v, OwnedValue::Object(_) | OwnedValue::Array(_)) as u8) {
        let mut cv = String::new();
        canon_value(v, &mut cv);
        if cv.len() <= 20_000 {
            let mut d1 = TantivyDocument::default();
            d1.add_field_value(*f, v);
            let m = ctx.model.ask(&format!("C09 cdoc {cv}"));
            let parts: Vec<&str> = m.split('|').collect();
            if parts.len() != 3 || parts[0] != hex(&d1.node_data) {
                ctx.report.violation("model", "C09:compact-doc-bytes", format!("node_data of a TantivyDocument holding {} differs from the model's ({} bytes real)", clip(&cv), d1.node_data.len()), case.clone());
            } else if parts[2] != cv {
                ctx.report.violation("model", "C09:compact-doc-model-read", format!("the model reads {} back from its own node_data for {}", clip(parts[2]), clip(&cv)), case.clone());
            }
            ctx.report.count("checked:compact-doc-node-data");
        }
    }
    // a top-level pre-tokenized text: what `add_pre_tokenized_text` puts into node_data (its JSON)
    for (f, v) in gd.added.iter() {
        if let OwnedValue::PreTokStr(p) = v {
            let mut d1 = TantivyDocument::default();
            d1.add_pre_tokenized_text(*f, p.clone());
            let mut cv = String::new();
            canon_value(v, &mut cv);
            let m = ctx.model.ask(&format!("C09 cdoc {cv}"));
            if m.split('|').next() != Some(hex(&d1.node_data).as_str()) {
                ctx.report.violation("model", "C09:compact-doc-bytes", format!("node_data of a document holding the pre-tokenized text {} differs from the model's", clip(&cv)), case.clone());
            }
            ctx.report.count("checked:compact-doc-pretok");
            break;
        }
    }
    if ctx.report.samples.len() < 2 && nested {
        ctx.report.sample(json!({"kind":"codec","stored_view": clip(&expected), "bytes": bytes.len()}));
    }
}

/// a byte-level difference of something whose layout the property does not promise (flush rule,
/// skip-index shape, …): not a violation as long as both sides still read each other's bytes
/// (checked separately); counted and noted so that it is visible in the evidence
fn layout_differs(ctx: &mut Ctx, what: &str, detail: String) {
    let key = format!("layout-differs:{what}");
    if !ctx.report.distribution.contains_key(&key) {
        ctx.report.notes.push(format!("{what}: real bytes differ from the model's ({detail}); cross-decoding is what decides"));
    }
    ctx.report.count(&key);
}

fn clip(s: &str) -> String {
    let limit: usize = std::env::var("TVH_CLIP").ok().and_then(|v| v.parse().ok()).unwrap_or(300);
    if s.len() <= limit {
        s.to_string()
    } else {
        let mut end = limit;
        while !s.is_char_boundary(end) {
            end -= 1;
        }
        format!("{}…({} chars)", &s[..end], s.len())
    }
}

/// very deep nesting (a chain of single-element arrays / objects) through the codec alone
fn case_deep(ctx: &mut Ctx, sch: &Sch, depth: usize) {
    let mut rng = ctx.rng.fork();
    let case = json!({"kind": "deep", "sub": depth.to_string()});
    let field = sch.fields[16].field; // stored-only json
    let v = OwnedValue::Object(vec![("deep".to_string(), gen_deep(&mut rng, depth))]);
    let expected = canon_fields(&[(field, v.clone())]);
    let mut doc = TantivyDocument::default();
    doc.add_field_value(field, &v);
    ctx.report.case(&format!("deep|{depth}|{}", expected.len()), true);
    ctx.report.count("codec-deep-nesting");
    let res = catch_unwind(AssertUnwindSafe(|| -> Result<(Vec<u8>, String), String> {
        let bytes = tantivy::verif::c09_serialize_doc(&doc, &sch.schema).map_err(|e| e.to_string())?;
        let back = tantivy::verif::c09_deserialize_doc(&bytes).map_err(|e| e.to_string())?;
        Ok((bytes, canon_doc(&back)))
    }));
    match res {
        Ok(Ok((bytes, got))) => {
            if got != expected {
                ctx.report.violation("oracle", "C09:codec-roundtrip", format!("nesting depth {depth}: round trip differs"), case.clone());
            }
            let m = ctx.model.ask(&format!("C09 docdec {}", hex(&bytes)));
            if m != expected {
                ctx.report.violation("model", "C09:model-decode-real-bytes", format!("nesting depth {depth}: Lean codec disagrees"), case);
            }
        }
        Ok(Err(e)) => ctx.report.violation("oracle", "C09:codec-roundtrip", format!("nesting depth {depth}: {e}"), case),
        Err(_) => ctx.report.violation("oracle", "C09:codec-panic", format!("nesting depth {depth}: panic"), case),
    }
}

fn case_vint(ctx: &mut Ctx) {
    use tantivy_common::{BinarySerializable, VInt};
    let mut vals: Vec<u64> = vec![0, 1, 127, 128, 129, 16383, 16384, u32::MAX as u64, 1 << 32, 1 << 35, (1 << 35) - 1, u64::MAX, u64::MAX - 1];
    for k in 1..10 {
        vals.extend([(1u64 << (7 * k)) - 1, 1u64 << (7 * k), (1u64 << (7 * k)) + 1]);
    }
    for _ in 0..40 {
        vals.push(ctx.rng.next_u64() >> ctx.rng.below(64));
    }
    for v in vals {
        let mut buf = vec![];
        VInt(v).serialize(&mut buf).unwrap();
        let m = ctx.model.ask(&format!("C09 vintenc {v}"));
        ctx.report.case(&format!("vint|{v}"), v >= 128);
        if m != hex(&buf) {
            ctx.report.violation("model", "C09:vint-bytes", format!("VInt({v}) real {} model {m}", hex(&buf)), json!({"kind":"vint","v":v.to_string()}));
        }
        buf.extend([0xaa, 0x05]);
        let md = ctx.model.ask(&format!("C09 vintdec {}", hex(&buf)));
        let mut slice = &buf[..];
        let rd = VInt::deserialize(&mut slice).map(|x| x.0);
        if rd.as_ref().ok() != Some(&v) || md != format!("{v}:aa05") {
            ctx.report.violation("model", "C09:vint-bytes", format!("VInt decode of {v}: real {:?} model {md}", rd.ok()), json!({"kind":"vint","v":v.to_string()}));
        }
    }
}

// ------------------------------------------------------------------------------------------
// store cases: StoreWriter / StoreReader directly, arbitrary document bytes
// ------------------------------------------------------------------------------------------

fn compressor_name(c: &Compressor) -> &'static str {
    match c {
        Compressor::None => "none",
        Compressor::Lz4 => "lz4",
        Compressor::Zstd(_) => "zstd",
    }
}

fn pick_compressor(rng: &mut Rng) -> Compressor {
    match rng.below(5) {
        0 | 1 => Compressor::None,
        2 => Compressor::Lz4,
        3 => Compressor::Zstd(ZstdCompressor::default()),
        _ => Compressor::Zstd(ZstdCompressor { compression_level: Some(1 + rng.below(6) as i32) }),
    }
}

fn pick_blocksize(rng: &mut Rng, default_bs: usize) -> usize {
    match rng.below(10) {
        0 => 0,
        1 => 1,
        2 => 9,
        3 => 16,
        4 => 17,
        5 => 64 + rng.usize_below(200),
        6 => 1000 + rng.usize_below(3000),
        7 => default_bs,
        8 => default_bs + 1,
        _ => 20 + rng.usize_below(40),
    }
}

fn write_real_store(docs: &[Vec<u8>], comp: Compressor, bs: usize, thread: bool) -> std::io::Result<Vec<u8>> {
    let dir = RamDirectory::create();
    let path = Path::new("store");
    let w = dir.open_write(path).map_err(|e| std::io::Error::other(format!("{e:?}")))?;
    let mut sw = StoreWriter::new(w, comp, bs, thread)?;
    for d in docs {
        sw.store_bytes(d)?;
    }
    sw.close()?;
    let data = dir.open_read(path).map_err(|e| std::io::Error::other(format!("{e:?}")))?.read_bytes()?;
    Ok(data.as_slice().to_vec())
}

fn open_real(file: &[u8], cache: usize) -> std::io::Result<StoreReader> {
    StoreReader::open(FileSlice::from(file.to_vec()), cache)
}

fn real_get_bytes(r: &StoreReader, doc: u32) -> Result<Vec<u8>, String> {
    match catch_unwind(AssertUnwindSafe(|| r.get_document_bytes(doc))) {
        Ok(Ok(b)) => Ok(b.as_slice().to_vec()),
        Ok(Err(e)) => Err(format!("err:{}", short_err(&e.to_string()))),
        Err(_) => Err("panic".into()),
    }
}

fn short_err(s: &str) -> String {
    s.chars().take(60).collect()
}

fn gen_doc_sizes(rng: &mut Rng, n: usize, bs: usize) -> Vec<usize> {
    let profile = rng.below(5);
    (0..n)
        .map(|_| match profile {
            0 => 1,
            1 => 1 + rng.usize_below(4),
            2 => match rng.below(8) { 0 => bs + 1, 1 => bs.saturating_sub(8).max(1), 2 => 2 * bs + 3, _ => 1 + rng.usize_below(12) },
            3 => 1 + rng.usize_below(bs.max(1)),
            _ => match rng.below(10) { 0 => 1 + rng.usize_below(5000), _ => 1 + rng.usize_below(30) },
        })
        .collect()
}

fn boundary_count(rng: &mut Rng, period: usize, thorough: bool) -> usize {
    let p = period;
    let mut cands = vec![1, 2, p - 1, p, p + 1, 2 * p, p * p - 1, p * p, p * p + 1, p * p + p, 3, 20, 100];
    if rng.chance(1, 3) || thorough {
        cands.extend([p * p * p - 1, p * p * p, p * p * p + 1, p * p * p + p * p + p + 1]);
    }
    if thorough && rng.chance(1, 6) {
        cands.extend([p * p * p * p, p * p * p * p + 1]);
    }
    *rng.pick(&cands)
}

fn case_store(ctx: &mut Ctx, k: Consts, sub: u64) {
    let mut rng = Rng::new(sub);
    let case = json!({"kind": "store", "sub": sub.to_string()});
    let comp = pick_compressor(&mut rng);
    let bs = pick_blocksize(&mut rng, k.default_bs);
    let thread = rng.chance(1, 2);
    let n = boundary_count(&mut rng, k.period, ctx.thorough());
    // keep the total volume bounded: many documents → small documents
    let sizes = if n > 600 || (bs > 4000 && n > 100) { vec![1 + rng.usize_below(3); n] } else { gen_doc_sizes(&mut rng, n, bs.min(3000)) };
    let docs: Vec<Vec<u8>> = sizes
        .iter()
        .enumerate()
        .map(|(i, &len)| {
            // unique content so that a wrong block or offset cannot go unnoticed
            let mut d = (i as u32).to_le_bytes().to_vec();
            d.extend(rng.bytes(len.saturating_sub(4)));
            d.truncate(len.max(1));
            if len < 4 { d = vec![(i % 251) as u8 + 1; len.max(1)]; }
            d
        })
        .collect();
    ctx.report.count(&format!("store-compressor:{}", compressor_name(&comp)));
    ctx.report.count(&format!("store-thread:{thread}"));
    let file = match catch_unwind(AssertUnwindSafe(|| write_real_store(&docs, comp, bs, thread))) {
        Ok(Ok(f)) => f,
        Ok(Err(e)) => {
            ctx.report.violation("oracle", "C09:store-write-error", format!("StoreWriter failed: {e}"), case);
            return;
        }
        Err(_) => {
            ctx.report.violation("oracle", "C09:store-write-panic", "StoreWriter panicked".into(), case);
            return;
        }
    };
    let cache = *rng.pick(&[0usize, 1, 2, 3, k.cache_cap]);
    let reader = match open_real(&file, cache) {
        Ok(r) => r,
        Err(e) => {
            ctx.report.violation("oracle", "C09:store-open-error", format!("StoreReader::open failed: {e}"), case);
            return;
        }
    };
    let cps = tantivy::verif::c09_block_checkpoints(&reader);
    let layers = { let mut l = 0; let mut m = cps.len(); while m > 0 { l += 1; m /= k.period; } l };
    ctx.report.count(&format!("store-blocks:{}", bucket(cps.len())));
    ctx.report.count(&format!("store-skip-layers:{layers}"));
    if docs.iter().any(|d| d.len() > bs) {
        ctx.report.count("store-doc-larger-than-block");
    }
    ctx.report.case(&format!("store|{}|{bs}|{thread}|{:?}", compressor_name(&comp), sizes), cps.len() >= 2);
    // oracle: every document reads back, in every access order; beyond the end is an error
    let mut order: Vec<u32> = (0..n as u32).collect();
    match rng.below(4) {
        0 => {}
        1 => order.reverse(),
        2 => rng.shuffle(&mut order),
        _ => {
            let extra: Vec<u32> = (0..n.min(200)).map(|_| rng.below(n as u64) as u32).collect();
            order = extra.iter().flat_map(|&d| [d, d, (d + 1) % n as u32]).collect();
            order.extend(0..n as u32);
        }
    }
    if order.len() > 3000 {
        // all block boundaries plus a sample
        let mut o: Vec<u32> = cps.iter().flat_map(|c| [c.0, c.1 - 1]).collect();
        o.extend((0..600).map(|_| rng.below(n as u64) as u32));
        rng.shuffle(&mut o);
        order = o;
    }
    for &d in &order {
        match real_get_bytes(&reader, d) {
            Ok(b) if b == docs[d as usize] => {}
            other => {
                ctx.report.violation("oracle", "C09:store-get-differs", format!("get_document_bytes({d}) of {n} docs, block size {bs}, {}: {:?} expected {} bytes", compressor_name(&comp), other.map(|b| b.len()), docs[d as usize].len()), case.clone());
                return;
            }
        }
    }
    for d in [n as u32, n as u32 + 1, u32::MAX] {
        match real_get_bytes(&reader, d) {
            Err(e) if e != "panic" => {}
            other => {
                ctx.report.violation("oracle", "C09:store-get-past-end", format!("get_document_bytes({d}) beyond {n} docs: {:?}", other.map(|b| b.len())), case.clone());
                return;
            }
        }
    }
    // iteration: live documents in doc-id order
    let raw: Vec<_> = match catch_unwind(AssertUnwindSafe(|| tantivy::verif::c09_iter_raw(&reader, None))) {
        Ok(v) => v,
        Err(_) => {
            ctx.report.violation("oracle", "C09:iter-panic", "iter_raw panicked".into(), case);
            return;
        }
    };
    let raw_ok: Vec<Vec<u8>> = raw.into_iter().filter_map(|r| r.ok()).collect();
    if raw_ok != docs {
        ctx.report.violation("oracle", "C09:iter-differs", format!("iter_raw yields {} items, expected the {} documents in order", raw_ok.len(), docs.len()), case.clone());
        return;
    }
    // iteration with deletes: exactly the live documents, in order (also against the model)
    {
        let pattern = rng.below(5);
        let alive: Vec<bool> = (0..n)
            .map(|i| match pattern {
                0 => i % 2 == 0,
                1 => i != 0 && i + 1 != n,
                2 => !cps.iter().any(|c| c.0 as usize == i), // first document of every block deleted
                3 => rng.chance(1, 10),
                _ => rng.chance(3, 4),
            })
            .collect();
        let mut bitset = tantivy_common::BitSet::with_max_value(n as u32);
        for (i, a) in alive.iter().enumerate() {
            if *a {
                bitset.insert(i as u32);
            }
        }
        let mut buf = vec![];
        tantivy::fastfield::write_alive_bitset(&bitset, &mut buf).unwrap();
        let ab = tantivy::fastfield::AliveBitSet::open(tantivy::directory::OwnedBytes::new(buf));
        let got: Vec<Vec<u8>> = match catch_unwind(AssertUnwindSafe(|| tantivy::verif::c09_iter_raw(&reader, Some(&ab)))) {
            Ok(v) => v.into_iter().filter_map(|r| r.ok()).collect(),
            Err(_) => {
                ctx.report.violation("oracle", "C09:iter-panic", "iter_raw with deletes panicked".into(), case);
                return;
            }
        };
        let want: Vec<Vec<u8>> = docs.iter().zip(alive.iter()).filter(|(_, a)| **a).map(|(d, _)| d.clone()).collect();
        if got != want {
            ctx.report.violation("oracle", "C09:iter-differs", format!("iter_raw with {} of {} documents deleted yields {} items, expected the {} live documents in order", n - want.len(), n, got.len(), want.len()), case.clone());
            return;
        }
        ctx.report.count("store-iter-with-deletes");
        if matches!(comp, Compressor::None) && file.len() <= 100_000 {
            let bits: String = alive.iter().map(|a| if *a { '1' } else { '0' }).collect();
            let mi = ctx.model.ask(&format!("C09 iter {} {}", hex(&file), bits));
            let want_hex: Vec<String> = want.iter().map(|d| hex(d)).collect();
            let want_hex = if want_hex.is_empty() { "-".to_string() } else { want_hex.join(",") };
            if mi != want_hex {
                ctx.report.violation("model", "C09:model-iter-real-file", "model iterRaw on the real store file differs from the live documents".into(), case.clone());
            }
        }
    }
    // cache statistics against the model's LRU (block start offsets as keys)
    {
        let r2 = open_real(&file, cache).unwrap();
        let seq: Vec<u32> = order.iter().take(400).cloned().collect();
        let mut keys = vec![];
        for &d in &seq {
            let _ = real_get_bytes(&r2, d);
            keys.push(cps.iter().find(|c| c.0 <= d && d < c.1).map(|c| c.2).unwrap_or(0));
        }
        let (h, m, e) = tantivy::verif::c09_cache_stats(&r2);
        let ms = ctx.model.ask(&format!("C09 cachesim {cache} {}", nat_list(&keys)));
        if ms != format!("{h}/{m}/{e}") {
            ctx.report.violation("model", "C09:cache-stats", format!("CacheStats hits/misses/entries real {h}/{m}/{e} model {ms} (capacity {cache}, {} accesses)", seq.len()), case.clone());
        }
        ctx.report.count(&format!("cache-capacity:{cache}"));
    }
    // the skip index of the real file (any compressor): builder bytes and seek answers
    if file.len() >= k.footer_len && k.footer_len == 28 && cps.len() <= 5000 {
        let foot = &file[file.len() - 28..];
        let offset = u64::from_le_bytes(foot[4..12].try_into().unwrap()) as usize;
        if offset <= file.len() - 28 {
            let skip = &file[offset..file.len() - 28];
            let dls: Vec<u32> = cps.iter().map(|c| c.1 - c.0).collect();
            let bls: Vec<usize> = cps.iter().map(|c| c.3 - c.2).collect();
            let ms = ctx.model.ask(&format!("C09 skipser {} {} {}", k.period, nat_list(&dls), nat_list(&bls)));
            if ms != hex(skip) {
                layout_differs(ctx, "skip-index", format!("{} checkpoints, {} bytes", cps.len(), skip.len()));
            }
            let mut targets: Vec<u32> = cps.iter().flat_map(|c| [c.0, c.1 - 1]).collect();
            targets.extend([n as u32, n as u32 + 7]);
            targets.truncate(600);
            let want: Vec<String> = targets
                .iter()
                .map(|&t| cps.iter().find(|c| c.1 > t).map(|c| format!("{}-{}-{}-{}", c.0, c.1, c.2, c.3)).unwrap_or("none".into()))
                .collect();
            let mk = ctx.model.ask(&format!("C09 skipseek {} {}", hex(skip), nat_list(&targets)));
            if mk != want.join(",") {
                ctx.report.violation("model", "C09:skip-index-seek", format!("model seek on the real skip index bytes ({} checkpoints) differs from the checkpoint containing the target", cps.len()), case.clone());
            }
            ctx.report.count("store-skip-index-compared");
        }
    }
    // lz4 / zstd: every compressed block starts with the frame the model puts around the raw codec
    if !matches!(comp, Compressor::None) {
        for c in cps.iter().take(120) {
            let lens: Vec<usize> = (c.0..c.1).map(|d| docs[d as usize].len()).collect();
            let mf = ctx.model.ask(&format!("C09 frame {}", nat_list(&lens)));
            if c.3 - c.2 < 4 || mf != hex(&file[c.2..c.2 + 4]) {
                ctx.report.violation("model", "C09:block-frame", format!("{} block of docs {}..{}: header {} but the model's frame is {mf}", compressor_name(&comp), c.0, c.1, hex(&file[c.2..(c.2 + 4).min(c.3)])), case.clone());
                break;
            }
        }
        ctx.report.count("store-block-frame-compared");
    }
    // whole-file correspondence for lz4: the model reader (skip index, frame, LZ4 block decoder with
    // literals and overlapping matches, block offsets) on the file the real writer produced
    if matches!(comp, Compressor::Lz4) && file.len() <= 60_000 {
        let mut probe: Vec<u32> = order.iter().take(120).cloned().collect();
        probe.push(n as u32);
        let mg = ctx.model.ask(&format!("C09 getlz4 {} {}", hex(&file), nat_list(&probe)));
        let expect: Vec<String> = probe.iter().map(|&d| if (d as usize) < n { hex(&docs[d as usize]) } else { "err".into() }).collect();
        if mg != expect.join(",") {
            ctx.report.violation("model", "C09:model-get-real-lz4-file", format!("model reader with the LZ4 block decoder on the real lz4 store file disagrees ({} docs, {} blocks)", n, cps.len()), case.clone());
        }
        ctx.report.count("store-model-whole-file-lz4");
    }
    // model correspondence on whole files (compressor none)
    let total: usize = file.len();
    if matches!(comp, Compressor::None) && total <= 300_000 {
        let docs_hex: Vec<String> = docs.iter().map(|d| hex(d)).collect();
        let mfile = ctx.model.ask(&format!("C09 write {bs} {}", docs_hex.join(",")));
        if mfile != hex(&file) {
            layout_differs(ctx, "store-file", format!("{} bytes, {} blocks, block size {bs}", file.len(), cps.len()));
        }
        // the model reads the real file (seek through every layer, block decode, offsets)
        let mut probe: Vec<u32> = order.iter().take(300).cloned().collect();
        probe.extend([n as u32, n as u32 + 1]);
        let mg = ctx.model.ask(&format!("C09 get {} {}", hex(&file), nat_list(&probe)));
        let expect: Vec<String> = probe.iter().map(|&d| if (d as usize) < n { hex(&docs[d as usize]) } else { "err".into() }).collect();
        if mg != expect.join(",") {
            ctx.report.violation("model", "C09:model-get-real-file", format!("model reader on the real store file disagrees ({} docs, {} blocks)", n, cps.len()), case.clone());
        }
        // the real reader reads the model's file
        if let Some(mb) = unhex(&mfile) {
            match open_real(&mb, cache) {
                Ok(r3) => {
                    for &d in probe.iter().take(200) {
                        let got = real_get_bytes(&r3, d);
                        let ok = if (d as usize) < n { got.as_ref().ok() == Some(&docs[d as usize]) } else { matches!(&got, Err(e) if e != "panic") };
                        if !ok {
                            ctx.report.violation("model", "C09:real-get-model-file", format!("real reader on the model-written file: doc {d} wrong"), case.clone());
                            break;
                        }
                    }
                }
                Err(e) => ctx.report.violation("model", "C09:real-get-model-file", format!("real reader cannot open the model-written file: {e}"), case.clone()),
            }
        }
        // skip index bytes and checkpoints, as the model sees them in the real file
        let mc = ctx.model.ask(&format!("C09 filecps {}", hex(&file)));
        let rc: Vec<String> = cps.iter().map(|c| format!("{}-{}-{}-{}", c.0, c.1, c.2, c.3)).collect();
        let rc = if rc.is_empty() { "-".to_string() } else { rc.join(",") };
        if mc != rc {
            ctx.report.violation("model", "C09:checkpoints", "checkpoints decoded by the model differ from block_checkpoints()".into(), case.clone());
        }
        ctx.report.count("store-model-whole-file");
        // a mix of iterations and fetches on ONE reader: cache statistics against the model's
        // `runOps` (iter_raw reads its blocks through the same LRU)
        if total <= 60_000 {
            let r4 = open_real(&file, cache).unwrap();
            let mut spec: Vec<String> = vec![];
            let bits: String = (0..n).map(|i| if i % 3 == 1 { '0' } else { '1' }).collect();
            let ab = make_alive_bitset(&(0..n).map(|i| i % 3 != 1).collect::<Vec<_>>());
            for step in 0..6 {
                match (step + rng.below(2)) % 3 {
                    0 => { let _ = tantivy::verif::c09_iter_raw(&r4, None); spec.push("iall".into()); }
                    1 => { let d = rng.below(n as u64 + 1) as u32; let _ = real_get_bytes(&r4, d); spec.push(format!("g{d}")); }
                    _ => { let _ = tantivy::verif::c09_iter_raw(&r4, Some(&ab)); spec.push(format!("i{bits}")); }
                }
            }
            let (h, m, e) = tantivy::verif::c09_cache_stats(&r4);
            let mo = ctx.model.ask(&format!("C09 ops {cache} {} {}", hex(&file), spec.join(";")));
            if mo != format!("{h}/{m}/{e}/1") {
                ctx.report.violation("model", "C09:cache-stats-mixed", format!("iterations and fetches on one reader (capacity {cache}): CacheStats {h}/{m}/{e}, model {mo} (last field: cached answers = uncached)"), case.clone());
            }
            ctx.report.count("store-mixed-ops-compared");
        }
    }
    if ctx.report.samples.len() < 4 && cps.len() > 8 {
        ctx.report.sample(json!({"kind":"store","docs":n,"block_size":bs,"compressor":compressor_name(&comp),"dedicated_thread":thread,"blocks":cps.len(),"skip_layers":layers,"cache":cache}));
    }
}

fn bucket(n: usize) -> &'static str {
    match n {
        0 => "0",
        1 => "1",
        2..=7 => "2-7",
        8 => "8",
        9..=63 => "9-63",
        64 => "64",
        65..=511 => "65-511",
        512 => "512",
        _ => ">512",
    }
}

/// behaviour on a store without any document (not reachable through an index: every segment
/// has at least one document); recorded as a note, the model predicts the bogus checkpoint
fn probe_empty_store(ctx: &mut Ctx) {
    for comp in [Compressor::None, Compressor::Lz4] {
        let res = catch_unwind(AssertUnwindSafe(|| {
            let file = write_real_store(&[], comp, 100, false).unwrap();
            let r = open_real(&file, 1).unwrap();
            r.get_document_bytes(0).map(|b| b.len()).map_err(|e| short_err(&e.to_string()))
        }));
        let what = match res {
            Ok(Ok(n)) => format!("returns {n} bytes"),
            Ok(Err(e)) => format!("error: {e}"),
            Err(_) => "panics".to_string(),
        };
        ctx.report.notes.push(format!("empty store ({}): get_document_bytes(0) {what} (SkipIndex::seek on an index without layers returns the initial checkpoint 0..1 / 0..0, see C09_skip_index_seek_empty_store)", compressor_name(&comp)));
    }
}

/// A doc store in the previous format (`DocStoreVersion::V1`: dates as microseconds), as written
/// by tantivy ≤ 0.21 and still readable (`INDEX_FORMAT_OLDEST_SUPPORTED_VERSION`). Built here from a
/// current store by setting the version field of its footer to 1; the date bytes of the document
/// are then microseconds by definition of the format. Merging must not change what is returned.
fn case_v1_store(ctx: &mut Ctx, sch: &Sch, sub: u64) {
    use crate::dirs::VDir;
    let mut rng = Rng::new(sub);
    let case = json!({"kind": "v1", "sub": sub.to_string()});
    let date_field = sch.fields.iter().find(|f| f.kind == Kind::Date && f.stored).unwrap().field;
    let title = sch.fields[0].field;
    let with_deletes = rng.chance(1, 2);
    let many = rng.chance(1, 2); // enough blocks for the stacking path
    let bs = if many { 1 } else { 16384 };
    let mut doc0_bytes: Vec<u8> = vec![];
    let res = catch_unwind(AssertUnwindSafe(|| -> tantivy::Result<Option<(String, String, String, String, String)>> {
        let vdir = VDir::new();
        let settings = IndexSettings { docstore_compression: Compressor::None, docstore_blocksize: bs, ..Default::default() };
        let index = Index::create(vdir.clone(), sch.schema.clone(), settings)?;
        let mut w: IndexWriter = index.writer_with_num_threads(1, 30_000_000)?;
        w.set_merge_policy(Box::new(NoMergePolicy));
        let n = if many { 12 } else { 3 };
        // the raw i64 on disk; as microseconds it is a date in 2023
        let raw: i64 = 1_700_000_000_000_000 + rng.below(1_000_000) as i64;
        for i in 0..n {
            let mut doc = TantivyDocument::default();
            doc.add_text(title, format!("doc {i}"));
            doc.add_date(date_field, DateTime::from_timestamp_nanos(raw + i as i64));
            // other values must come back unchanged; a nested date is re-read like a top-level one
            doc.add_field_value(sch.fields[16].field, &OwnedValue::Object(vec![
                ("when".to_string(), OwnedValue::Array(vec![OwnedValue::Date(DateTime::from_timestamp_nanos(raw / 3)), OwnedValue::I64(-5)])),
                ("s".to_string(), OwnedValue::Str(gen_string(&mut rng, 3))),
            ]));
            doc.add_field_value(sch.fields[4].field, &OwnedValue::U64(gen_u64(&mut rng)));
            if i == 0 {
                doc0_bytes = tantivy::verif::c09_serialize_doc(&doc, &sch.schema)?;
            }
            doc.add_u64(sch.id, i as u64);
            doc.add_u64(sch.sk, 7);
            w.add_document(doc)?;
        }
        w.commit()?;
        // rewrite the store footer of the only segment: version 2 -> 1
        let meta = index.searchable_segment_metas()?.remove(0);
        let path = meta.relative_path(SegmentComponent::Store);
        let mut file = vdir.raw(&path).expect("store file");
        let t = file.len() - 8;
        let flen = u32::from_le_bytes(file[t..t + 4].try_into().unwrap()) as usize;
        let body_len = file.len() - 8 - flen;
        let at = body_len - 28;
        if u32::from_le_bytes(file[at..at + 4].try_into().unwrap()) != 2 {
            return Ok(None);
        }
        file[at..at + 4].copy_from_slice(&1u32.to_le_bytes());
        vdir.overwrite_raw(&path, &file);
        if with_deletes {
            w.delete_term(Term::from_field_u64(sch.id, 1));
            w.commit()?;
        }
        let read_doc0 = |index: &Index| -> tantivy::Result<(String, String)> {
            let reader = index.reader()?;
            let searcher = reader.searcher();
            let seg = &searcher.segment_readers()[0];
            let ids = seg.fast_fields().u64("id")?;
            let d = (0..seg.max_doc()).find(|d| ids.first(*d) == Some(0)).unwrap();
            let doc: TantivyDocument = searcher.doc(DocAddress::new(0, d))?;
            Ok((doc.to_json(&sch.schema), canon_doc(&doc)))
        };
        let (before, before_canon) = read_doc0(&index)?;
        let ids = index.searchable_segment_ids()?;
        w.merge(&ids).wait()?;
        let (after, after_canon) = read_doc0(&index)?;
        let expected = DateTime::from_timestamp_micros(raw);
        Ok(Some((before, after, format!("{:?}", expected), before_canon, after_canon)))
    }));
    ctx.report.case(&format!("v1|{sub}"), true);
    ctx.report.count(if many && !with_deletes { "v1-store:stacking-path" } else { "v1-store:copy-path" });
    match res {
        Ok(Ok(Some((before, after, expected, before_canon, after_canon)))) => {
            // the model reads the same document bytes under version 1 and under the current version
            let m1 = ctx.model.ask(&format!("C09 docdecv 1 {}", hex(&doc0_bytes)));
            let m2 = ctx.model.ask(&format!("C09 docdecv 2 {}", hex(&doc0_bytes)));
            if m1 != before_canon {
                ctx.report.violation("model", "C09:model-decode-v1", format!("version-1 store: real {} model {}", clip(&before_canon), clip(&m1)), case.clone());
            }
            if before != after && !(m1 == before_canon && m2 == after_canon) {
                // not the version mismatch the known finding names: report under its own key
                ctx.report.violation("oracle", "C09:v1-merge-other", format!("version-1 doc store: document before the merge {before}, after {after}; not explained by decoding the same bytes under version 2 ({})", clip(&m2)), case);
            } else if before != after {
                ctx.report.violation("oracle", "C09:merge-v1-docstore-date", format!("segment with a version-1 doc store (dates in microseconds): document before the merge {before}, after the merge {after} (date added: {expected}); the raw bytes are copied into a version-2 store without re-encoding"), case);
            }
        }
        Ok(Ok(None)) => ctx.report.notes.push("v1 case: footer layout not recognised, skipped".into()),
        Ok(Err(e)) => ctx.report.violation("oracle", "C09:v1-store-error", format!("reading / merging a version-1 doc store failed: {e}"), case),
        Err(_) => ctx.report.violation("oracle", "C09:v1-store-panic", "reading / merging a version-1 doc store panicked".into(), case),
    }
}

/// stacking of whole stores through the public `StoreWriter::stack`
fn case_stack(ctx: &mut Ctx, sub: u64) {
    let mut rng = Rng::new(sub);
    let case = json!({"kind": "stack", "sub": sub.to_string()});
    let comp = pick_compressor(&mut rng);
    let bs = pick_blocksize(&mut rng, 16384).min(2000);
    let res = catch_unwind(AssertUnwindSafe(|| -> std::io::Result<(Vec<Vec<u8>>, Vec<u8>)> {
        let dir = RamDirectory::create();
        let w = dir.open_write(Path::new("out")).map_err(|e| std::io::Error::other(format!("{e:?}")))?;
        let mut sw = StoreWriter::new(w, comp, bs, rng.chance(1, 2))?;
        let mut all: Vec<Vec<u8>> = vec![];
        let mut counter = 0u32;
        let mut mk = |rng: &mut Rng, all: &mut Vec<Vec<u8>>| {
            counter += 1;
            let mut d = counter.to_le_bytes().to_vec();
            let extra = rng.usize_below(40);
            d.extend(rng.bytes(extra));
            all.push(d.clone());
            d
        };
        for _ in 0..1 + rng.usize_below(4) {
            for _ in 0..rng.usize_below(12) {
                let d = mk(&mut rng, &mut all);
                sw.store_bytes(&d)?;
            }
            let nsrc = *rng.pick(&[1usize, 7, 8, 9, 30, 64, 65, 100]);
            let src_docs: Vec<Vec<u8>> = (0..nsrc).map(|_| mk(&mut rng, &mut all)).collect();
            let src_bs = *rng.pick(&[0usize, 16, 50, 200]);
            let src = write_real_store(&src_docs, comp, src_bs, false)?;
            sw.stack(open_real(&src, 1)?)?;
        }
        for _ in 0..rng.usize_below(5) {
            let d = mk(&mut rng, &mut all);
            sw.store_bytes(&d)?;
        }
        sw.close()?;
        let data = dir.open_read(Path::new("out")).map_err(|e| std::io::Error::other(format!("{e:?}")))?.read_bytes()?;
        Ok((all, data.as_slice().to_vec()))
    }));
    let (all, file) = match res {
        Ok(Ok(x)) => x,
        Ok(Err(e)) => {
            ctx.report.violation("oracle", "C09:stack-error", format!("StoreWriter::stack failed: {e}"), case);
            return;
        }
        Err(_) => {
            ctx.report.violation("oracle", "C09:stack-panic", "StoreWriter::stack panicked".into(), case);
            return;
        }
    };
    ctx.report.case(&format!("stack|{sub}"), true);
    ctx.report.count(&format!("stack-compressor:{}", compressor_name(&comp)));
    let cache = *rng.pick(&[0usize, 1, 5]);
    let reader = open_real(&file, cache).unwrap();
    let mut order: Vec<u32> = (0..all.len() as u32).collect();
    rng.shuffle(&mut order);
    for &d in &order {
        match real_get_bytes(&reader, d) {
            Ok(b) if b == all[d as usize] => {}
            other => {
                ctx.report.violation("oracle", "C09:stack-get-differs", format!("after stacking, get_document_bytes({d}) = {:?}, expected {} bytes", other.map(|b| b.len()), all[d as usize].len()), case.clone());
                return;
            }
        }
    }
    let raw_ok: Vec<Vec<u8>> = tantivy::verif::c09_iter_raw(&reader, None).into_iter().filter_map(|r| r.ok()).collect();
    if raw_ok != all {
        ctx.report.violation("oracle", "C09:stack-iter-differs", "after stacking, iter_raw does not yield the documents in order".into(), case.clone());
    }
    if matches!(comp, Compressor::None) && file.len() < 200_000 {
        let probe: Vec<u32> = order.iter().take(200).cloned().collect();
        let mg = ctx.model.ask(&format!("C09 get {} {}", hex(&file), nat_list(&probe)));
        let expect: Vec<String> = probe.iter().map(|&d| hex(&all[d as usize])).collect();
        if mg != expect.join(",") {
            ctx.report.violation("model", "C09:model-get-real-file", "model reader on a stacked store file disagrees".into(), case.clone());
        }
    }
}

// ------------------------------------------------------------------------------------------
// index cases: the whole path, segments, deletes, merges
// ------------------------------------------------------------------------------------------

struct Expect {
    /// per document id (the `id` fast field): canonical stored view and the expected stored doc
    canon: Vec<String>,
    docs: Vec<Vec<(Field, OwnedValue)>>,
}

struct Settings {
    comp: Compressor,
    bs: usize,
    thread: bool,
}

fn check_searcher(ctx: &mut Ctx, rng: &mut Rng, index: &Index, sch: &Sch, exp: &Expect, deleted: &[bool], stage: &str, case: &J) -> bool {
    let reader = match index.reader() {
        Ok(r) => r,
        Err(e) => {
            ctx.report.violation("oracle", "C09:open-reader", format!("{stage}: index.reader() failed: {e}"), case.clone());
            return false;
        }
    };
    let searcher = reader.searcher();
    let mut seen = vec![false; exp.canon.len()];
    for (ord, seg) in searcher.segment_readers().iter().enumerate() {
        let ids = match seg.fast_fields().u64("id") {
            Ok(c) => c,
            Err(e) => {
                ctx.report.violation("oracle", "C09:id-column", format!("{stage}: {e}"), case.clone());
                return false;
            }
        };
        let max_doc = seg.max_doc();
        let alive: Vec<bool> = (0..max_doc).map(|d| seg.alive_bitset().map(|b| b.is_alive(d)).unwrap_or(true)).collect();
        let id_of: Vec<usize> = (0..max_doc).map(|d| ids.first(d).unwrap_or(u64::MAX) as usize).collect();
        for d in 0..max_doc {
            if alive[d as usize] {
                let id = id_of[d as usize];
                if id >= seen.len() || seen[id] || deleted[id] {
                    ctx.report.violation("oracle", "C09:live-set", format!("{stage}: unexpected live document id {id}"), case.clone());
                    return false;
                }
                seen[id] = true;
            }
        }
        // 1. Searcher::doc for every live document (default cache)
        let mut order: Vec<u32> = (0..max_doc).filter(|d| alive[*d as usize]).collect();
        rng.shuffle(&mut order);
        for &d in order.iter().take(400) {
            let id = id_of[d as usize];
            let got = catch_unwind(AssertUnwindSafe(|| searcher.doc::<TantivyDocument>(DocAddress::new(ord as u32, d))));
            match got {
                Ok(Ok(doc)) => {
                    let c = canon_doc(&doc);
                    if c != exp.canon[id] {
                        ctx.report.violation("oracle", "C09:doc-differs", format!("{stage}: Searcher::doc(seg {ord}, doc {d}) = {} but the stored fields added were {}", clip(&c), clip(&exp.canon[id])), case.clone());
                        return false;
                    }
                    // JSON / named-document views of the returned document
                    if rng.chance(1, 4) {
                        let want = to_tantivy_doc(&exp.docs[id]);
                        let (a, b) = (doc.to_json(&sch.schema), want.to_json(&sch.schema));
                        if a != b || canon_named(&doc.to_named_doc(&sch.schema)) != canon_named(&want.to_named_doc(&sch.schema)) {
                            ctx.report.violation("oracle", "C09:to-json-differs", format!("{stage}: to_json of the returned document differs: {} vs {}", clip(&a), clip(&b)), case.clone());
                            return false;
                        }
                        ctx.report.count("checked:to_json");
                    }
                }
                Ok(Err(e)) => {
                    ctx.report.violation("oracle", "C09:doc-error", format!("{stage}: Searcher::doc(seg {ord}, doc {d}) failed: {e}"), case.clone());
                    return false;
                }
                Err(_) => {
                    ctx.report.violation("oracle", "C09:doc-panic", format!("{stage}: Searcher::doc(seg {ord}, doc {d}) panicked"), case.clone());
                    return false;
                }
            }
        }
        ctx.report.count_n("checked:searcher-doc", order.len().min(400) as u64);
        // 2. StoreReader::get with explicit cache sizes and access orders
        let cache = *rng.pick(&[0usize, 1, 2, 7, 100]);
        let sr = match seg.get_store_reader(cache) {
            Ok(r) => r,
            Err(e) => {
                ctx.report.violation("oracle", "C09:store-open-error", format!("{stage}: get_store_reader({cache}) failed: {e}"), case.clone());
                return false;
            }
        };
        let mut acc: Vec<u32> = match rng.below(3) {
            0 => (0..max_doc).collect(),
            1 => (0..max_doc).rev().collect(),
            _ => (0..max_doc.min(300) * 2).map(|_| rng.below(max_doc as u64) as u32).collect(),
        };
        acc.truncate(500);
        let cps = tantivy::verif::c09_block_checkpoints(&sr);
        let mut keys = vec![];
        for &d in &acc {
            let id = id_of[d as usize];
            keys.push(cps.iter().find(|c| c.0 <= d && d < c.1).map(|c| c.2).unwrap_or(0));
            match catch_unwind(AssertUnwindSafe(|| sr.get::<TantivyDocument>(d))) {
                Ok(Ok(doc)) if id < exp.canon.len() && canon_doc(&doc) == exp.canon[id] => {}
                Ok(Ok(_)) | Ok(Err(_)) => {
                    ctx.report.violation("oracle", "C09:store-get-differs", format!("{stage}: StoreReader::get({d}) (cache {cache}) does not return the stored fields of document id {id}"), case.clone());
                    return false;
                }
                Err(_) => {
                    ctx.report.violation("oracle", "C09:doc-panic", format!("{stage}: StoreReader::get({d}) panicked"), case.clone());
                    return false;
                }
            }
        }
        let (h, m, e) = tantivy::verif::c09_cache_stats(&sr);
        let ms = ctx.model.ask(&format!("C09 cachesim {cache} {}", nat_list(&keys)));
        if ms != format!("{h}/{m}/{e}") {
            ctx.report.violation("model", "C09:cache-stats", format!("{stage}: CacheStats real {h}/{m}/{e} model {ms} (capacity {cache})"), case.clone());
        }
        ctx.report.count(&format!("cache-capacity:{cache}"));
        ctx.report.count(&format!("index-blocks:{}", bucket(cps.len())));
        // 3. iter: exactly the live documents, in doc-id order
        let it: Vec<Result<TantivyDocument, String>> = match catch_unwind(AssertUnwindSafe(|| sr.iter::<TantivyDocument>(seg.alive_bitset()).map(|r| r.map_err(|e| e.to_string())).collect())) {
            Ok(v) => v,
            Err(_) => {
                ctx.report.violation("oracle", "C09:iter-panic", format!("{stage}: StoreReader::iter panicked"), case.clone());
                return false;
            }
        };
        let want: Vec<&String> = (0..max_doc).filter(|d| alive[*d as usize]).map(|d| &exp.canon[id_of[d as usize]]).collect();
        let got: Vec<String> = it.iter().map(|r| r.as_ref().map(canon_doc).unwrap_or_else(|e| format!("err:{e}"))).collect();
        if got.len() != want.len() || got.iter().zip(want.iter()).any(|(a, b)| a != *b) {
            ctx.report.violation("oracle", "C09:iter-differs", format!("{stage}: StoreReader::iter yields {} documents, expected the {} live documents in doc-id order", got.len(), want.len()), case.clone());
            return false;
        }
        ctx.report.count("checked:iter");
        // 4. raw bytes: iter_raw = get_document_bytes, decoded by the Lean codec
        let raw = tantivy::verif::c09_iter_raw(&sr, seg.alive_bitset());
        let live: Vec<u32> = (0..max_doc).filter(|d| alive[*d as usize]).collect();
        for (k, r) in raw.iter().enumerate() {
            let Ok(b) = r else {
                ctx.report.violation("oracle", "C09:iter-differs", format!("{stage}: iter_raw item {k} is an error"), case.clone());
                return false;
            };
            if k < live.len() {
                let d = live[k];
                if real_get_bytes(&sr, d).ok().as_ref() != Some(b) {
                    ctx.report.violation("oracle", "C09:iter-differs", format!("{stage}: iter_raw item {k} differs from get_document_bytes({d})"), case.clone());
                    return false;
                }
                if b.len() <= 20_000 && (k < 25 || rng.chance(1, 10)) {
                    let m = ctx.model.ask(&format!("C09 docdec {}", hex(b)));
                    if m != exp.canon[id_of[d as usize]] {
                        ctx.report.violation("model", "C09:model-decode-real-bytes", format!("{stage}: Lean codec on the stored bytes of doc {d}: {} expected {}", clip(&m), clip(&exp.canon[id_of[d as usize]])), case.clone());
                        return false;
                    }
                    ctx.report.count("checked:model-decodes-stored-bytes");
                }
            }
        }
    }
    for (id, s) in seen.iter().enumerate() {
        if !*s && !deleted[id] {
            ctx.report.violation("oracle", "C09:live-set", format!("{stage}: document id {id} is missing"), case.clone());
            return false;
        }
    }
    true
}

/// store file bytes (without the directory footer) and alive bits of every searchable segment
fn segment_stores(index: &Index) -> Option<Vec<(tantivy::index::SegmentId, Vec<u8>, String)>> {
    let reader = index.reader().ok()?;
    let searcher = reader.searcher();
    let mut out = vec![];
    for seg in index.searchable_segments().ok()? {
        let bytes = seg.open_read(SegmentComponent::Store).ok()?.read_bytes().ok()?.as_slice().to_vec();
        let sr = searcher.segment_readers().iter().find(|r| r.segment_id() == seg.id())?;
        let bits: String = if sr.has_deletes() {
            (0..sr.max_doc()).map(|d| if sr.alive_bitset().map(|b| b.is_alive(d)).unwrap_or(true) { '1' } else { '0' }).collect()
        } else {
            "all".into()
        };
        out.push((seg.id(), bytes, bits));
    }
    Some(out)
}

fn case_index(ctx: &mut Ctx, sch: &Sch, k: Consts, sub: u64) {
    let mut rng = Rng::new(sub);
    let case = json!({"kind": "index", "sub": sub.to_string()});
    let st = Settings { comp: pick_compressor(&mut rng), bs: pick_blocksize(&mut rng, k.default_bs), thread: rng.chance(1, 2) };
    let sorted = match rng.below(8) {
        0 => Some(tantivy::Order::Asc),
        1 => Some(tantivy::Order::Desc),
        _ => None,
    };
    let settings = IndexSettings {
        docstore_compression: st.comp,
        docstore_blocksize: st.bs,
        docstore_compress_dedicated_thread: st.thread,
        sort_by_field: sorted.map(|order| tantivy::IndexSortByField { field: "sk".to_string(), order }),
        ..Default::default()
    };
    ctx.report.count(if sorted.is_some() { "index-sorted(remap+mapped-merge)" } else { "index-unsorted" });
    ctx.report.count(&format!("index-compressor:{}", compressor_name(&st.comp)));
    ctx.report.count(&format!("index-thread:{}", st.thread));
    ctx.report.count(&format!("index-blocksize:{}", if st.bs <= 17 { "tiny" } else if st.bs < 16384 { "mid" } else { "default+" }));
    let nseg = 1 + rng.usize_below(3);
    let allow_huge = rng.chance(1, 12);
    let per_seg: Vec<usize> = (0..nseg)
        .map(|_| match rng.below(8) { 0 => 1, 1 => 2, 2 => 8, 3 => 9, 4 => 64 + rng.usize_below(3), 5 => 100 + rng.usize_below(60), _ => 3 + rng.usize_below(30) })
        .collect();
    let small_only = per_seg.iter().sum::<usize>() > 120;
    let mut profiles: Vec<DocProfile> = vec![];
    let res = catch_unwind(AssertUnwindSafe(|| -> tantivy::Result<(Index, Expect, Vec<Vec<usize>>)> {
        let index = Index::create(RamDirectory::create(), sch.schema.clone(), settings)?;
        let mut w: IndexWriter = index.writer_with_num_threads(1, 30_000_000)?;
        w.set_merge_policy(Box::new(NoMergePolicy));
        let mut exp = Expect { canon: vec![], docs: vec![] };
        let mut seg_ids: Vec<Vec<usize>> = vec![];
        for &n in &per_seg {
            let mut ids = vec![];
            for _ in 0..n {
                let profile = if small_only { if rng.chance(1, 6) { DocProfile::Empty } else { DocProfile::Small } } else { pick_profile(&mut rng, allow_huge) };
                let gd = gen_doc(&mut rng, sch, profile);
                profiles.push(profile);
                let id = exp.canon.len();
                let mut doc = to_tantivy_doc(&gd.added);
                doc.add_u64(sch.id, id as u64);
                doc.add_u64(sch.sk, rng.below(50));
                w.add_document(doc)?;
                exp.canon.push(canon_fields(&gd.expected));
                exp.docs.push(gd.expected);
                ids.push(id);
            }
            w.commit()?;
            seg_ids.push(ids);
        }
        drop(w);
        Ok((index, exp, seg_ids))
    }));
    let (index, exp, seg_ids) = match res {
        Ok(Ok(x)) => x,
        Ok(Err(e)) => {
            ctx.report.violation("oracle", "C09:indexing-error", format!("indexing failed: {e}"), case);
            return;
        }
        Err(_) => {
            ctx.report.violation("oracle", "C09:indexing-panic", "indexing panicked".into(), case);
            return;
        }
    };
    for p in &profiles {
        ctx.report.count(&format!("index-doc-profile:{:?}", p));
    }
    let total = exp.canon.len();
    let mut deleted = vec![false; total];
    let nontrivial_docs = exp.canon.iter().filter(|c| c.contains("A[") || c.contains("O{") || c.contains(';')).count();
    if !check_searcher(ctx, &mut rng, &index, sch, &exp, &deleted, "after commit", &case) {
        return;
    }
    // deletes
    let del_mode = rng.below(4);
    let mut w: IndexWriter = match index.writer_with_num_threads(1, 30_000_000) {
        Ok(w) => w,
        Err(e) => {
            ctx.report.violation("oracle", "C09:indexing-error", format!("second writer: {e}"), case);
            return;
        }
    };
    w.set_merge_policy(Box::new(NoMergePolicy));
    if del_mode > 0 {
        for (si, ids) in seg_ids.iter().enumerate() {
            // mode 1: deletes in every segment; 2: only in the first; 3: first and last doc of a segment
            let pick: Vec<usize> = match del_mode {
                1 => ids.iter().cloned().filter(|_| rng.chance(1, 4)).collect(),
                2 if si == 0 => ids.iter().cloned().filter(|_| rng.chance(1, 3)).collect(),
                3 => vec![ids[0], *ids.last().unwrap()],
                _ => vec![],
            };
            for id in pick {
                if ids.len() > 1 || del_mode != 3 {
                    w.delete_term(Term::from_field_u64(sch.id, id as u64));
                    deleted[id] = true;
                }
            }
        }
        // never delete everything in a segment-less way that removes all docs of the index
        if deleted.iter().all(|d| *d) {
            deleted[0] = false;
            // re-add is not possible; simply skip the delete stage for this case
            let _ = w.rollback();
            deleted = vec![false; total];
        } else if let Err(e) = w.commit() {
            ctx.report.violation("oracle", "C09:indexing-error", format!("commit of deletes failed: {e}"), case);
            return;
        }
        if !check_searcher(ctx, &mut rng, &index, sch, &exp, &deleted, "after deletes", &case) {
            return;
        }
    }
    let ndel = deleted.iter().filter(|d| **d).count();
    ctx.report.count(if ndel > 0 { "index-with-deletes" } else { "index-without-deletes" });
    // merge all segments; the model merges the same store files (compressor none)
    let before = segment_stores(&index);
    let ids: Vec<tantivy::index::SegmentId> = match &before {
        Some(b) if rng.chance(1, 2) => b.iter().map(|x| x.0).collect(),
        _ => index.searchable_segment_ids().unwrap_or_default(),
    };
    let multi = ids.len() > 1;
    // for the mapped merge of a sorted index: which document ids each source segment holds
    let mut id_owner: std::collections::HashMap<u64, usize> = Default::default();
    if sorted.is_some() && matches!(st.comp, Compressor::None) {
        if let Ok(reader) = index.reader() {
            let searcher = reader.searcher();
            for sr in searcher.segment_readers() {
                if let (Some(ord), Ok(col)) = (ids.iter().position(|i| *i == sr.segment_id()), sr.fast_fields().u64("id")) {
                    for d in 0..sr.max_doc() {
                        if let Some(id) = col.first(d) {
                            id_owner.insert(id, ord);
                        }
                    }
                }
            }
        }
    }
    let merged = catch_unwind(AssertUnwindSafe(|| w.merge(&ids).wait()));
    match merged {
        Ok(Ok(_)) => {}
        Ok(Err(e)) => {
            ctx.report.violation("oracle", "C09:merge-error", format!("merge failed: {e}"), case);
            return;
        }
        Err(_) => {
            ctx.report.violation("oracle", "C09:merge-panic", "merge panicked".into(), case);
            return;
        }
    }
    let _ = w.wait_merging_threads();
    ctx.report.count(if multi { "merge:multi-segment" } else { "merge:single-segment" });
    let mut stacked_expected = false;
    if let Some(b) = &before {
        for (_, bytes, bits) in b {
            if let Ok(r) = open_real(bytes, 1) {
                let nblocks = tantivy::verif::c09_block_checkpoints(&r).len();
                if bits == "all" && nblocks >= k.min_stack_blocks {
                    stacked_expected = true;
                }
            }
        }
    }
    ctx.report.count(if stacked_expected { "merge:stacking-path" } else { "merge:copy-path-only" });
    ctx.report.case(&format!("index|{sub}"), nontrivial_docs > 0 && (multi || ndel > 0 || total > 1));
    if !check_searcher(ctx, &mut rng, &index, sch, &exp, &deleted, "after merge", &case) {
        return;
    }
    if matches!(st.comp, Compressor::None) && sorted.is_none() {
        if let (Some(b), Some(after)) = (&before, segment_stores(&index)) {
            let size: usize = b.iter().map(|x| x.1.len()).sum();
            if after.len() == 1 && size <= 250_000 {
                // order of the sources = order of `ids`
                let srcs: Vec<String> = ids.iter().filter_map(|id| b.iter().find(|x| x.0 == *id)).map(|x| format!("{}:{}", hex(&x.1), x.2)).collect();
                let mm = ctx.model.ask(&format!("C09 merge {} {}", st.bs, srcs.join(";")));
                if mm != hex(&after[0].1) {
                    // the layout is not promised: what must agree is the content, in order
                    let live_total = total - ndel;
                    let probe: Vec<u32> = (0..live_total as u32 + 1).collect();
                    let on_real = ctx.model.ask(&format!("C09 get {} {}", hex(&after[0].1), nat_list(&probe)));
                    let on_model = if mm == "err" { "err".to_string() } else { ctx.model.ask(&format!("C09 get {mm} {}", nat_list(&probe))) };
                    if on_real != on_model {
                        ctx.report.violation("model", "C09:merged-store-content", format!("the model's merge of the {} source stores holds other documents than the real merged store (block size {}, deletes {ndel}, stacking {stacked_expected})", srcs.len(), st.bs), case.clone());
                    } else {
                        layout_differs(ctx, "merged-store", format!("{} bytes, deletes {ndel}, stacking {stacked_expected}", after[0].1.len()));
                    }
                }
                ctx.report.count("merge:model-compared");
            }
        }
    }
    // sorted index: the mapped merge against the model's `mergeMapped` (same sources, the mapping
    // read off the merged segment)
    if matches!(st.comp, Compressor::None) && sorted.is_some() {
        if let (Some(b), Some(after)) = (&before, segment_stores(&index)) {
            let size: usize = b.iter().map(|x| x.1.len()).sum();
            let mapping: Option<Vec<usize>> = (|| {
                let reader = index.reader().ok()?;
                let searcher = reader.searcher();
                let seg = searcher.segment_readers().first()?.clone();
                let col = seg.fast_fields().u64("id").ok()?;
                (0..seg.max_doc()).map(|d| col.first(d).and_then(|id| id_owner.get(&id).cloned())).collect()
            })();
            if let (1, true, Some(mapping)) = (after.len(), size <= 250_000, mapping) {
                let srcs: Vec<String> = ids.iter().filter_map(|id| b.iter().find(|x| x.0 == *id)).map(|x| format!("{}:{}", hex(&x.1), x.2)).collect();
                let live_total = total - ndel;
                let probe: Vec<u32> = (0..live_total as u32 + 1).collect();
                let mm = ctx.model.ask(&format!("C09 mergemapped {} {} {}", st.bs, srcs.join(";"), nat_list(&mapping)));
                let on_real = ctx.model.ask(&format!("C09 get {} {}", hex(&after[0].1), nat_list(&probe)));
                let on_model = if mm == "err" { "err".to_string() } else { ctx.model.ask(&format!("C09 get {mm} {}", nat_list(&probe))) };
                if on_real != on_model {
                    ctx.report.violation("model", "C09:mapped-merge-content", format!("sorted index: the model's mapped merge of the {} source stores holds other documents than the real merged store (block size {}, deletes {ndel})", srcs.len(), st.bs), case.clone());
                } else if mm != hex(&after[0].1) {
                    layout_differs(ctx, "merged-store", "mapped merge".into());
                }
                ctx.report.count("merge:mapped-model-compared");
            }
        }
    }
    if ctx.report.samples.len() < 5 {
        ctx.report.sample(json!({"kind":"index","segments":per_seg,"compressor":compressor_name(&st.comp),"block_size":st.bs,"dedicated_thread":st.thread,"deleted":ndel,"docs":total,"example_stored_view": clip(exp.canon.iter().find(|c| c.contains("O{")).unwrap_or(&exp.canon[0]))}));
    }
}

/// a second merge round: merged segment + fresh segment, with deletes in the merged one
fn case_index_two_rounds(ctx: &mut Ctx, sch: &Sch, sub: u64) {
    let mut rng = Rng::new(sub);
    let case = json!({"kind": "index2", "sub": sub.to_string()});
    let comp = pick_compressor(&mut rng);
    let bs = *rng.pick(&[0usize, 1, 16, 40, 120]);
    let sorted = rng.chance(1, 3);
    let settings = IndexSettings {
        docstore_compression: comp,
        docstore_blocksize: bs,
        docstore_compress_dedicated_thread: rng.chance(1, 2),
        sort_by_field: if sorted { Some(tantivy::IndexSortByField { field: "sk".to_string(), order: tantivy::Order::Desc }) } else { None },
        ..Default::default()
    };
    ctx.report.count(if sorted { "index2-sorted" } else { "index2-unsorted" });
    let res = catch_unwind(AssertUnwindSafe(|| -> tantivy::Result<()> {
        let index = Index::create(RamDirectory::create(), sch.schema.clone(), settings)?;
        let mut w: IndexWriter = index.writer_with_num_threads(1, 30_000_000)?;
        w.set_merge_policy(Box::new(NoMergePolicy));
        let mut exp = Expect { canon: vec![], docs: vec![] };
        let mut deleted: Vec<bool> = vec![];
        for round in 0..3 {
            let n = *rng.pick(&[1usize, 5, 9, 20, 70]);
            for _ in 0..n {
                let prof = if rng.chance(1, 3) { DocProfile::ManyValues } else { DocProfile::Small };
                let gd = gen_doc(&mut rng, sch, prof);
                let id = exp.canon.len();
                let mut doc = to_tantivy_doc(&gd.added);
                doc.add_u64(sch.id, id as u64);
                doc.add_u64(sch.sk, rng.below(50));
                w.add_document(doc)?;
                exp.canon.push(canon_fields(&gd.expected));
                exp.docs.push(gd.expected);
                deleted.push(false);
            }
            w.commit()?;
            if rng.chance(1, 2) {
                for id in 0..exp.canon.len() {
                    if !deleted[id] && rng.chance(1, 6) && deleted.iter().filter(|d| !**d).count() > 1 {
                        w.delete_term(Term::from_field_u64(sch.id, id as u64));
                        deleted[id] = true;
                    }
                }
                w.commit()?;
            }
            let ids = index.searchable_segment_ids()?;
            w.merge(&ids).wait()?;
            if !check_searcher(ctx, &mut rng, &index, sch, &exp, &deleted, &format!("round {round} after merge"), &case) {
                return Ok(());
            }
        }
        ctx.report.case(&format!("index2|{sub}"), true);
        ctx.report.count("index-two-rounds");
        Ok(())
    }));
    match res {
        Ok(Ok(())) => {}
        Ok(Err(e)) => ctx.report.violation("oracle", "C09:indexing-error", format!("two-round case failed: {e}"), case),
        Err(_) => ctx.report.violation("oracle", "C09:indexing-panic", "two-round case panicked".into(), case),
    }
}

// ------------------------------------------------------------------------------------------

// ------------------------------------------------------------------------------------------
// u32 VInt fast path (length prefixes inside TantivyDocument / CompactDoc)
// ------------------------------------------------------------------------------------------

fn vint_thresholds() -> Vec<u32> {
    let mut vals: Vec<u32> = vec![0, 1, 2, u32::MAX, u32::MAX - 1];
    for k in [7u32, 14, 21, 28] {
        let t = 1u32 << k;
        vals.extend([t - 2, t - 1, t, t + 1, t + 2]);
    }
    vals
}

fn case_vint32(ctx: &mut Ctx) {
    let mut vals = vint_thresholds();
    for _ in 0..60 {
        vals.push((ctx.rng.next_u64() >> ctx.rng.below(64)) as u32);
    }
    for v in vals {
        let case = json!({"kind": "vint32", "sub": v.to_string()});
        ctx.report.case(&format!("vint32|{v}"), v >= 128);
        let res = catch_unwind(AssertUnwindSafe(|| {
            let mut buf = [0u8; 8];
            let enc = tantivy_common::serialize_vint_u32(v, &mut buf).to_vec();
            let mut padded = enc.clone();
            padded.extend([0x05, 0x85]);
            let (back, n) = tantivy_common::read_u32_vint_no_advance(&padded);
            (enc, back, n)
        }));
        match res {
            Ok((enc, back, n)) => {
                if back != v || n != enc.len() {
                    ctx.report.violation("oracle", "C09:vint-u32-roundtrip", format!("serialize_vint_u32({v}) = {} reads back as {back} ({n} bytes)", hex(&enc)), case.clone());
                }
                let m = ctx.model.ask(&format!("C09 vint32enc {v}"));
                if m != hex(&enc) {
                    ctx.report.violation("model", "C09:vint-u32-bytes", format!("serialize_vint_u32({v}) real {} model {m}", hex(&enc)), case.clone());
                }
                let md = ctx.model.ask(&format!("C09 vint32dec {}0585", hex(&enc)));
                if md != format!("{back}:{n}") {
                    ctx.report.violation("model", "C09:vint-u32-bytes", format!("read_u32_vint of {}: real {back}:{n} model {md}", hex(&enc)), case);
                }
            }
            Err(_) => ctx.report.violation("oracle", "C09:vint-u32-roundtrip", format!("serialize_vint_u32 / read_u32_vint panicked for {v}"), case),
        }
    }
}

/// documents whose value lengths (or child-table sizes) sit exactly on the VInt thresholds,
/// through the codec alone: add to a TantivyDocument, serialize, deserialize, read the values
fn case_threshold(ctx: &mut Ctx, sch: &Sch, sub: u64) {
    let len = (sub >> 8) as usize;
    let shape = sub & 0xff;
    let case = json!({"kind": "thr", "sub": sub.to_string()});
    let raw = sch.fields[3].field; // stored-only text
    let by = sch.fields[12].field; // stored bytes
    let fc = sch.fields[10].field; // stored facet
    let js = sch.fields[16].field; // stored-only json
    let text = |n: usize| -> String { (0..n).map(|i| (b'a' + (i % 23) as u8) as char).collect() };
    let fvs: Vec<(Field, OwnedValue)> = match shape {
        0 => vec![(raw, OwnedValue::Str(text(len)))],
        1 => vec![(by, OwnedValue::Bytes((0..len).map(|i| (i * 7 % 251) as u8).collect()))],
        2 => vec![(fc, OwnedValue::Facet(Facet::from_path(vec![text(len)])))],
        3 => vec![(js, OwnedValue::Object(vec![("k".into(), OwnedValue::Array(vec![OwnedValue::Str(text(len)), OwnedValue::U64(1)]))]))],
        4 => vec![(js, OwnedValue::Object(vec![(text(len), OwnedValue::Bool(true))]))],
        // child table of an array: one (type, address) pair of 2 bytes per null element
        5 => vec![(js, OwnedValue::Object(vec![("t".into(), OwnedValue::Array(vec![OwnedValue::Null; len / 2]))]))],
        // child table of an object whose keys are empty strings stored at small addresses is not
        // of a predictable size; use bools as values of an array inside an array instead
        _ => vec![(js, OwnedValue::Object(vec![("t".into(), OwnedValue::Array(vec![OwnedValue::Array(vec![OwnedValue::Bool(true); len / 2])]))]))],
    };
    let expected = canon_fields(&fvs);
    ctx.report.case(&format!("thr|{len}|{shape}"), true);
    ctx.report.count(&format!("threshold-length:{len}"));
    let doc = to_tantivy_doc(&fvs);
    let res = catch_unwind(AssertUnwindSafe(|| -> Result<(String, String, usize), String> {
        // what the document itself returns before it is stored
        let direct = canon_doc(&doc);
        let bytes = tantivy::verif::c09_serialize_doc(&doc, &sch.schema).map_err(|e| e.to_string())?;
        let back = tantivy::verif::c09_deserialize_doc(&bytes).map_err(|e| e.to_string())?;
        Ok((direct, canon_doc(&back), bytes.len()))
    }));
    let what = |got: &str| format!("value of length {len} (shape {shape}): got {} expected {}", clip(got), clip(&expected));
    match res {
        Ok(Ok((direct, got, _))) => {
            if direct != expected {
                ctx.report.violation("oracle", "C09:document-value-differs", format!("TantivyDocument returns another value than was added: {}", what(&direct)), case);
            } else if got != expected {
                ctx.report.violation("oracle", "C09:codec-roundtrip", format!("stored and re-read: {}", what(&got)), case);
            }
        }
        Ok(Err(e)) => ctx.report.violation("oracle", "C09:codec-roundtrip", format!("value of length {len} (shape {shape}): {e}"), case),
        Err(_) => ctx.report.violation("oracle", "C09:codec-panic", format!("value of length {len} (shape {shape}): panic"), case),
    }
    // the model's `write_bytes_into` prefix for this length reads back the same length
    let m = ctx.model.ask(&format!("C09 cdbytes {len}"));
    let mut buf = [0u8; 8];
    let prefix = tantivy_common::serialize_vint_u32(len as u32, &mut buf).to_vec();
    if m != format!("{}:{len}", hex(&prefix)) {
        ctx.report.violation("model", "C09:vint-u32-bytes", format!("length prefix of {len} bytes: real {} model {m}", hex(&prefix)), json!({"kind": "thr", "sub": sub.to_string()}));
    }
}

fn threshold_subs(thorough: bool) -> Vec<u64> {
    let mut out = vec![];
    for k in [7u32, 14, 21] {
        let t = 1usize << k;
        for len in [t - 1, t, t + 1] {
            for shape in 0..7u64 {
                // 2 MiB: text, bytes, nested text and the child tables; the rest only in thorough
                if k == 21 && !thorough && !(len == t && matches!(shape, 0 | 1 | 3 | 5)) && !(shape == 0) {
                    continue;
                }
                // facet / key of 2 MiB: only in thorough
                out.push(((len as u64) << 8) | shape);
            }
        }
    }
    out
}

/// the same lengths through a whole index: added, committed, fetched, merged, fetched again
fn case_index_thresholds(ctx: &mut Ctx, sch: &Sch) {
    let case = json!({"kind": "thridx", "sub": "0"});
    let raw = sch.fields[3].field;
    let by = sch.fields[12].field;
    let title = sch.fields[0].field;
    let mut rng = ctx.rng.fork();
    let mut specs: Vec<Vec<(Field, OwnedValue)>> = vec![];
    let text = |n: usize, salt: usize| -> String { (0..n).map(|i| (b'a' + ((i + salt) % 26) as u8) as char).collect() };
    for (j, k) in [7usize, 14, 21].iter().enumerate() {
        let t = 1usize << k;
        for (i, len) in [t - 1, t, t + 1].into_iter().enumerate() {
            specs.push(vec![(title, OwnedValue::Str(format!("len {len}"))), (raw, OwnedValue::Str(text(len, i + j)))]);
        }
        specs.push(vec![(by, OwnedValue::Bytes(vec![(*k) as u8; t])), (raw, OwnedValue::Str("after".into()))]);
    }
    let res = catch_unwind(AssertUnwindSafe(|| -> tantivy::Result<(Index, Expect)> {
        let settings = IndexSettings { docstore_compression: if rng.chance(1, 2) { Compressor::None } else { Compressor::Lz4 }, ..Default::default() };
        let index = Index::create(RamDirectory::create(), sch.schema.clone(), settings)?;
        let mut w: IndexWriter = index.writer_with_num_threads(1, 60_000_000)?;
        w.set_merge_policy(Box::new(NoMergePolicy));
        let mut exp = Expect { canon: vec![], docs: vec![] };
        for (n, fvs) in specs.iter().enumerate() {
            let id = exp.canon.len();
            let mut doc = to_tantivy_doc(fvs);
            doc.add_u64(sch.id, id as u64);
            doc.add_u64(sch.sk, 1);
            w.add_document(doc)?;
            exp.canon.push(canon_fields(fvs));
            exp.docs.push(fvs.clone());
            if n == 5 {
                w.commit()?;
            }
        }
        w.commit()?;
        Ok((index, exp))
    }));
    ctx.report.case("thridx", true);
    ctx.report.count("index-threshold-lengths");
    let (index, exp) = match res {
        Ok(Ok(x)) => x,
        Ok(Err(e)) => {
            ctx.report.violation("oracle", "C09:indexing-error", format!("indexing documents with threshold lengths failed: {e}"), case);
            return;
        }
        Err(_) => {
            ctx.report.violation("oracle", "C09:indexing-panic", "indexing documents with threshold lengths panicked".into(), case);
            return;
        }
    };
    let deleted = vec![false; exp.canon.len()];
    if !check_searcher(ctx, &mut rng, &index, sch, &exp, &deleted, "threshold lengths, after commit", &case) {
        return;
    }
    let merged = catch_unwind(AssertUnwindSafe(|| -> tantivy::Result<()> {
        let mut w: IndexWriter = index.writer_with_num_threads(1, 60_000_000)?;
        let ids = index.searchable_segment_ids()?;
        w.merge(&ids).wait()?;
        Ok(())
    }));
    match merged {
        Ok(Ok(())) => {
            check_searcher(ctx, &mut rng, &index, sch, &exp, &deleted, "threshold lengths, after merge", &case);
        }
        Ok(Err(e)) => ctx.report.violation("oracle", "C09:merge-error", format!("merge of threshold-length documents failed: {e}"), case),
        Err(_) => ctx.report.violation("oracle", "C09:merge-panic", "merge of threshold-length documents panicked".into(), case),
    }
}

// ------------------------------------------------------------------------------------------
// filtered merges: `merge_filtered_segments` with a caller supplied alive bitset per segment
// ------------------------------------------------------------------------------------------

fn make_alive_bitset(alive: &[bool]) -> tantivy::fastfield::AliveBitSet {
    let mut bitset = tantivy_common::BitSet::with_max_value(alive.len() as u32);
    for (i, a) in alive.iter().enumerate() {
        if *a {
            bitset.insert(i as u32);
        }
    }
    let mut buf = vec![];
    tantivy::fastfield::write_alive_bitset(&bitset, &mut buf).unwrap();
    tantivy::fastfield::AliveBitSet::open(tantivy::directory::OwnedBytes::new(buf))
}

fn case_filtered_merge(ctx: &mut Ctx, sch: &Sch, k: Consts, sub: u64) {
    let mut rng = Rng::new(sub);
    let case = json!({"kind": "filtered", "sub": sub.to_string()});
    let comp = pick_compressor(&mut rng);
    // mostly small blocks, so that segments have at least `min_stack_blocks` blocks
    let bs = *rng.pick(&[0usize, 1, 16, 40, 120, 400, k.default_bs]);
    let sorted = rng.chance(1, 8);
    let settings = IndexSettings {
        docstore_compression: comp,
        docstore_blocksize: bs,
        docstore_compress_dedicated_thread: rng.chance(1, 2),
        sort_by_field: if sorted { Some(tantivy::IndexSortByField { field: "sk".to_string(), order: tantivy::Order::Asc }) } else { None },
        ..Default::default()
    };
    let nseg = 1 + rng.usize_below(3);
    let regular_deletes = rng.below(3); // 0: none, 1: in some segments, 2: in all
    type Built = (Index, Index, Expect, Vec<bool>, Vec<String>, usize);
    let res = catch_unwind(AssertUnwindSafe(|| -> tantivy::Result<Built> {
        let index = Index::create(RamDirectory::create(), sch.schema.clone(), settings.clone())?;
        let mut w: IndexWriter = index.writer_with_num_threads(1, 30_000_000)?;
        w.set_merge_policy(Box::new(NoMergePolicy));
        let mut exp = Expect { canon: vec![], docs: vec![] };
        let mut seg_ids: Vec<Vec<usize>> = vec![];
        for _ in 0..nseg {
            let n = *rng.pick(&[1usize, 2, 6, 7, 12, 30, 70]);
            let mut ids = vec![];
            for _ in 0..n {
                let prof = match rng.below(6) { 0 => DocProfile::Empty, 1 => DocProfile::ManyValues, 2 => DocProfile::Mixed, _ => DocProfile::Small };
                let gd = gen_doc(&mut rng, sch, prof);
                let id = exp.canon.len();
                let mut doc = to_tantivy_doc(&gd.added);
                doc.add_u64(sch.id, id as u64);
                doc.add_u64(sch.sk, rng.below(50));
                w.add_document(doc)?;
                exp.canon.push(canon_fields(&gd.expected));
                exp.docs.push(gd.expected);
                ids.push(id);
            }
            w.commit()?;
            seg_ids.push(ids);
        }
        let total = exp.canon.len();
        let mut deleted = vec![false; total];
        if regular_deletes > 0 {
            for (si, ids) in seg_ids.iter().enumerate() {
                if regular_deletes == 2 || si % 2 == 0 {
                    for &id in ids {
                        if rng.chance(1, 4) {
                            w.delete_term(Term::from_field_u64(sch.id, id as u64));
                            deleted[id] = true;
                        }
                    }
                }
            }
            w.commit()?;
        }
        drop(w);
        // the caller's filters, per segment in the order of `searchable_segments`
        let searcher = index.reader()?.searcher();
        let segments = index.searchable_segments()?;
        let mut filters: Vec<Option<tantivy::fastfield::AliveBitSet>> = vec![];
        let mut srcs: Vec<String> = vec![];
        let mut stack_candidates = 0usize;
        for seg in &segments {
            let sr = searcher.segment_readers().iter().find(|r| r.segment_id() == seg.id()).expect("segment reader");
            let ids = sr.fast_fields().u64("id")?;
            let max_doc = sr.max_doc() as usize;
            let mode = rng.below(6);
            let keep: Vec<bool> = (0..max_doc)
                .map(|d| match mode {
                    0 => true,               // a filter that removes nothing
                    1 => d % 3 != 1,
                    2 => d != 0 && d + 1 != max_doc,
                    3 => rng.chance(3, 4),
                    _ => true,               // (mode 4, 5: no filter at all, see below)
                })
                .collect();
            let no_filter = mode >= 4;
            let mut bits = String::new();
            for d in 0..max_doc {
                let id = ids.first(d as u32).unwrap_or(u64::MAX) as usize;
                let regular_alive = sr.alive_bitset().map(|b| b.is_alive(d as u32)).unwrap_or(true);
                if !no_filter && !keep[d] && id < total {
                    deleted[id] = true;
                }
                bits.push(if regular_alive && (no_filter || keep[d]) { '1' } else { '0' });
            }
            let store = seg.open_read(SegmentComponent::Store)?.read_bytes()?.as_slice().to_vec();
            if let Ok(r) = open_real(&store, 1) {
                if !sr.has_deletes() && !no_filter && keep.iter().any(|x| !*x) && tantivy::verif::c09_block_checkpoints(&r).len() >= k.min_stack_blocks {
                    stack_candidates += 1;
                }
            }
            srcs.push(format!("{}:{}", hex(&store), if bits.contains('0') { bits } else { "all".into() }));
            // the filter handed to the merge is intersected with the segment's own deletes by
            // `open_with_custom_alive_set`
            filters.push(if no_filter { None } else { Some(make_alive_bitset(&keep)) });
        }
        if deleted.iter().all(|d| *d) {
            // an empty result is legal but uninteresting here: keep one document
            return Err(tantivy::TantivyError::InvalidArgument("all-deleted".into()));
        }
        let merged = tantivy::indexer::merge_filtered_segments(&segments, settings.clone(), filters, RamDirectory::create())?;
        Ok((index, merged, exp, deleted, srcs, stack_candidates))
    }));
    let (_index, merged, exp, deleted, srcs, stack_candidates) = match res {
        Ok(Ok(x)) => x,
        Ok(Err(tantivy::TantivyError::InvalidArgument(m))) if m == "all-deleted" => {
            ctx.report.count("filtered-merge:skipped-all-deleted");
            return;
        }
        Ok(Err(e)) => {
            ctx.report.violation("oracle", "C09:filtered-merge-error", format!("merge_filtered_segments failed: {e}"), case);
            return;
        }
        Err(_) => {
            ctx.report.violation("oracle", "C09:filtered-merge-panic", "merge_filtered_segments panicked".into(), case);
            return;
        }
    };
    ctx.report.case(&format!("filtered|{sub}"), true);
    ctx.report.count(&format!("filtered-merge:compressor:{}", compressor_name(&comp)));
    ctx.report.count(if stack_candidates > 0 { "filtered-merge:filter-only-deletes-on-stackable-segment" } else { "filtered-merge:other" });
    if !check_searcher(ctx, &mut rng, &merged, sch, &exp, &deleted, "after merge_filtered_segments", &case) {
        return;
    }
    // the model merges the same stores with the same (combined) alive sets
    if matches!(comp, Compressor::None) && !sorted {
        if let Some(after) = segment_stores(&merged) {
            let size: usize = srcs.iter().map(|s| s.len() / 2).sum();
            if after.len() == 1 && size <= 250_000 {
                let live = deleted.iter().filter(|d| !**d).count();
                let probe: Vec<u32> = (0..live as u32 + 1).collect();
                let mm = ctx.model.ask(&format!("C09 merge {bs} {}", srcs.join(";")));
                let on_model = if mm == "err" { "err".to_string() } else { ctx.model.ask(&format!("C09 get {mm} {}", nat_list(&probe))) };
                let on_real = ctx.model.ask(&format!("C09 get {} {}", hex(&after[0].1), nat_list(&probe)));
                if on_model != on_real {
                    ctx.report.violation("model", "C09:merged-store-content", format!("filtered merge: the model's merge of the {} source stores holds other documents than the real merged store", srcs.len()), case.clone());
                } else if mm != hex(&after[0].1) {
                    layout_differs(ctx, "merged-store", "filtered merge".into());
                }
                ctx.report.count("filtered-merge:model-compared");
            }
        }
    }
}

// ------------------------------------------------------------------------------------------
// documents added from JSON (`TantivyDocument::parse_json` / `from_json_object`)
// ------------------------------------------------------------------------------------------

/// a JSON value as the harness generates it: it knows the text it writes and, independently of
/// tantivy's conversion, which typed value that text denotes
#[derive(Clone, Debug)]
enum JV {
    Null,
    Bool(bool),
    /// an integer literal
    Int(i128),
    /// a non-integer literal (text as written, the double it denotes)
    Flt(&'static str, f64),
    Str(String),
    /// a string in canonical UTC RFC 3339 form: a date inside a JSON field
    DateStr(&'static str, i64),
    Arr(Vec<JV>),
    Obj(Vec<(String, JV)>),
}

const JSON_INTS: &[i128] = &[
    0, 1, -1, 127, 128, 9007199254740991, 9007199254740992, 9007199254740993, -9007199254740993,
    9223372036854775806, 9223372036854775807, 9223372036854775808, 9223372036854775809,
    18446744073709551614, 18446744073709551615, -9223372036854775808, -9223372036854775807,
    4294967295, 4294967296, 18446744073709551616, 123456789012345678901234567890, -9223372036854775809,
];

const JSON_FLOATS: &[(&str, f64)] = &[
    ("1.0", 1.0), ("-0.0", -0.0), ("0.0", 0.0), ("1e3", 1000.0), ("2.5E-3", 0.0025), ("1.5", 1.5),
    ("1.7976931348623157e308", f64::MAX), ("5e-324", 5e-324), ("-1e300", -1e300),
    ("18446744073709551615.0", 18446744073709551616.0),
    ("9223372036854775808.0", 9223372036854775808.0), ("1E+2", 100.0), ("0.1", 0.1), ("-2.2250738585072014e-308", -2.2250738585072014e-308),
];

const JSON_DATES_UTC: &[(&str, i64)] = &[
    ("1970-01-01T00:00:00Z", 0),
    ("2023-11-14T22:13:20.123456789Z", 1_700_000_000_123_456_789),
    ("1969-12-31T23:59:59.5Z", -500_000_000),
    ("2262-04-11T23:47:16Z", 9_223_372_036_000_000_000),
    ("2000-02-29T17:30:00Z", 951_845_400_000_000_000),
];

/// (text given to a date field, nanoseconds, text `to_json` writes)
const DATE_INPUTS: &[(&str, i64, &str)] = &[
    ("1970-01-01T00:00:00Z", 0, "1970-01-01T00:00:00Z"),
    ("1970-01-01T01:00:00+01:00", 0, "1970-01-01T00:00:00Z"),
    ("2023-11-14T22:13:20.123456789Z", 1_700_000_000_123_456_789, "2023-11-14T22:13:20.123456789Z"),
    ("1969-12-31T23:59:59.5Z", -500_000_000, "1969-12-31T23:59:59.5Z"),
    ("2000-02-29T12:00:00-05:30", 951_845_400_000_000_000, "2000-02-29T17:30:00Z"),
    ("2262-04-11T23:47:16Z", 9_223_372_036_000_000_000, "2262-04-11T23:47:16Z"),
];

/// (text given to an ip field, the address as u128, text `to_json` writes)
const IP_INPUTS: &[(&str, u128, &str)] = &[
    ("192.168.0.1", 281_473_913_978_881, "192.168.0.1"),
    ("::1", 1, "::1"),
    ("2001:db8::ff00:42:8329", 42_540_766_411_282_592_856_904_265_327_123_268_393, "2001:db8::ff00:42:8329"),
    ("::ffff:10.0.0.1", 281_470_849_515_521, "10.0.0.1"),
];

fn base64_std(data: &[u8]) -> String {
    const A: &[u8; 64] = b"ABCDEFGHIJKLMNOPQRSTUVWXYZabcdefghijklmnopqrstuvwxyz0123456789+/";
    let mut out = String::new();
    for chunk in data.chunks(3) {
        let b = [chunk[0], *chunk.get(1).unwrap_or(&0), *chunk.get(2).unwrap_or(&0)];
        let n = ((b[0] as u32) << 16) | ((b[1] as u32) << 8) | b[2] as u32;
        out.push(A[(n >> 18) as usize & 63] as char);
        out.push(A[(n >> 12) as usize & 63] as char);
        out.push(if chunk.len() > 1 { A[(n >> 6) as usize & 63] as char } else { '=' });
        out.push(if chunk.len() > 2 { A[n as usize & 63] as char } else { '=' });
    }
    out
}

fn jv_render(v: &JV, out: &mut String) {
    match v {
        JV::Null => out.push_str("null"),
        JV::Bool(b) => out.push_str(if *b { "true" } else { "false" }),
        JV::Int(n) => out.push_str(&n.to_string()),
        JV::Flt(t, _) => out.push_str(t),
        JV::Str(t) => out.push_str(&serde_json::to_string(t).unwrap()),
        JV::DateStr(t, _) => out.push_str(&serde_json::to_string(t).unwrap()),
        JV::Arr(vs) => {
            out.push('[');
            for (i, x) in vs.iter().enumerate() {
                if i > 0 {
                    out.push(',');
                }
                jv_render(x, out);
            }
            out.push(']');
        }
        JV::Obj(es) => {
            out.push('{');
            for (i, (k, x)) in es.iter().enumerate() {
                if i > 0 {
                    out.push(',');
                }
                out.push_str(&serde_json::to_string(k).unwrap());
                out.push(':');
                jv_render(x, out);
            }
            out.push('}');
        }
    }
}

/// the typed value an integer of a JSON document denotes: i64 if it fits, else u64 if it fits,
/// else the nearest double
fn int_value(n: i128) -> OwnedValue {
    if n >= i64::MIN as i128 && n <= i64::MAX as i128 {
        OwnedValue::I64(n as i64)
    } else if n >= 0 && n <= u64::MAX as i128 {
        OwnedValue::U64(n as u64)
    } else {
        OwnedValue::F64(n as f64)
    }
}

/// what a value inside a JSON field must come back as
fn jv_expect(v: &JV) -> OwnedValue {
    match v {
        JV::Null => OwnedValue::Null,
        JV::Bool(b) => OwnedValue::Bool(*b),
        JV::Int(n) => int_value(*n),
        JV::Flt(_, f) => OwnedValue::F64(*f),
        JV::Str(t) => OwnedValue::Str(t.clone()),
        JV::DateStr(_, nanos) => OwnedValue::Date(DateTime::from_timestamp_nanos(*nanos)),
        JV::Arr(vs) => OwnedValue::Array(vs.iter().map(jv_expect).collect()),
        JV::Obj(es) => OwnedValue::Object(es.iter().map(|(k, x)| (k.clone(), jv_expect(x))).collect()),
    }
}

fn num_value(v: &OwnedValue) -> J {
    match v {
        OwnedValue::I64(x) => J::Number((*x).into()),
        OwnedValue::U64(x) => J::Number((*x).into()),
        OwnedValue::F64(x) => serde_json::Number::from_f64(*x).map(J::Number).unwrap_or(J::Null),
        _ => J::Null,
    }
}

/// the JSON `to_json` must write for a value inside a JSON field
fn jv_output(v: &JV) -> J {
    match v {
        JV::Null => J::Null,
        JV::Bool(b) => J::Bool(*b),
        JV::Int(n) => num_value(&int_value(*n)),
        JV::Flt(_, f) => num_value(&OwnedValue::F64(*f)),
        JV::Str(t) => J::String(t.clone()),
        JV::DateStr(t, _) => J::String(t.to_string()),
        JV::Arr(vs) => J::Array(vs.iter().map(jv_output).collect()),
        JV::Obj(es) => J::Object(es.iter().map(|(k, x)| (k.clone(), jv_output(x))).collect()),
    }
}

/// the `serde_json::Value` handed to `from_json_object` (built without going through text)
fn jv_input(v: &JV) -> J {
    match v {
        JV::Int(n) => num_value(&int_value(*n)),
        JV::DateStr(t, _) => J::String(t.to_string()),
        JV::Arr(vs) => J::Array(vs.iter().map(jv_input).collect()),
        JV::Obj(es) => J::Object(es.iter().map(|(k, x)| (k.clone(), jv_input(x))).collect()),
        other => jv_output(other),
    }
}

fn gen_jv(rng: &mut Rng, depth: usize) -> JV {
    let leaf = depth == 0 || rng.chance(1, 2);
    if leaf {
        return match rng.below(10) {
            0 => JV::Null,
            1 => JV::Bool(rng.chance(1, 2)),
            2 | 3 | 4 => JV::Int(*rng.pick(JSON_INTS)),
            5 => JV::Int(rng.next_u64() as i128 - if rng.chance(1, 2) { 1i128 << 63 } else { 0 }),
            6 => { let (t, f) = *rng.pick(JSON_FLOATS); JV::Flt(t, f) }
            7 => { let (t, n) = *rng.pick(JSON_DATES_UTC); JV::DateStr(t, n) }
            _ => JV::Str(gen_string(rng, 3)),
        };
    }
    let width = rng.usize_below(5);
    if rng.chance(1, 2) {
        JV::Arr((0..width).map(|_| gen_jv(rng, depth - 1)).collect())
    } else {
        // keys in sorted order, so that every map implementation iterates them as written
        JV::Obj((0..width).map(|i| (format!("k{i:02}{}", rng.pick(&["", "Δ", " x"])), gen_jv(rng, depth - 1))).collect())
    }
}

struct JsonDoc {
    /// top-level members, in sorted field-name order
    members: Vec<(String, JV)>,
    /// expected stored (field, value) pairs in document order
    expected: Vec<(Field, OwnedValue)>,
    /// expected `to_json` output
    output: serde_json::Map<String, J>,
}

fn gen_json_doc(rng: &mut Rng, sch: &Sch) -> JsonDoc {
    let name_of = |i: usize| sch.schema.get_field_name(sch.fields[i].field).to_string();
    let mut members: Vec<(String, JV, Vec<OwnedValue>, Vec<J>, usize)> = vec![];
    let nfields = 1 + rng.usize_below(8);
    let mut chosen: Vec<usize> = (0..sch.fields.len()).collect();
    rng.shuffle(&mut chosen);
    chosen.truncate(nfields);
    for fi in chosen {
        let kind = sch.fields[fi].kind;
        let nvals = if rng.chance(1, 3) { 1 + rng.usize_below(3) } else { 1 };
        let mut jvs = vec![];
        let mut exps = vec![];
        let mut outs = vec![];
        for _ in 0..nvals {
            let (jv, exp, out): (JV, OwnedValue, J) = match kind {
                Kind::Text | Kind::Str => {
                    let t = if rng.chance(1, 6) { JSON_DATES_UTC[0].0.to_string() } else { gen_string(rng, 4) };
                    (JV::Str(t.clone()), OwnedValue::Str(t.clone()), J::String(t))
                }
                Kind::U64 => {
                    let n = *rng.pick(&[0u64, 1, u64::MAX, i64::MAX as u64 + 1, i64::MAX as u64, 9007199254740993, 1 << 32]);
                    (JV::Int(n as i128), OwnedValue::U64(n), J::Number(n.into()))
                }
                Kind::I64 => {
                    let n = *rng.pick(&[0i64, -1, i64::MIN, i64::MAX, 9007199254740993, -9007199254740993]);
                    (JV::Int(n as i128), OwnedValue::I64(n), J::Number(n.into()))
                }
                Kind::F64 => {
                    if rng.chance(1, 3) {
                        // an integer literal in a float field
                        let n = *rng.pick(&[0i128, 1, -1, 9007199254740993, 18446744073709551615, -9223372036854775808]);
                        (JV::Int(n), OwnedValue::F64(n as f64), num_value(&OwnedValue::F64(n as f64)))
                    } else {
                        let (t, f) = *rng.pick(JSON_FLOATS);
                        (JV::Flt(t, f), OwnedValue::F64(f), num_value(&OwnedValue::F64(f)))
                    }
                }
                Kind::Bool => { let b = rng.chance(1, 2); (JV::Bool(b), OwnedValue::Bool(b), J::Bool(b)) }
                Kind::Date => {
                    let (t, nanos, out) = *rng.pick(DATE_INPUTS);
                    (JV::Str(t.to_string()), OwnedValue::Date(DateTime::from_timestamp_nanos(nanos)), J::String(out.to_string()))
                }
                Kind::Facet => {
                    let t = *rng.pick(&["/a/b", "/top", "/Δ/日本/x", "/a b/c"]);
                    (JV::Str(t.to_string()), OwnedValue::Facet(Facet::from_text(t).unwrap()), J::String(t.to_string()))
                }
                Kind::Bytes => {
                    let n = rng.usize_below(9);
                    let b = rng.bytes(n);
                    let t = base64_std(&b);
                    (JV::Str(t.clone()), OwnedValue::Bytes(b), J::String(t))
                }
                Kind::Ip => {
                    let (t, v, out) = *rng.pick(IP_INPUTS);
                    (JV::Str(t.to_string()), OwnedValue::IpAddr(Ipv6Addr::from(v)), J::String(out.to_string()))
                }
                Kind::JsonIndexed | Kind::JsonStoredOnly => {
                    let depth = 1 + rng.usize_below(3);
                    let width = 1 + rng.usize_below(5);
                    let obj = JV::Obj((0..width).map(|i| (format!("m{i:02}"), gen_jv(rng, depth))).collect());
                    let e = jv_expect(&obj);
                    let o = jv_output(&obj);
                    (obj, e, o)
                }
            };
            jvs.push(jv);
            exps.push(exp);
            outs.push(out);
        }
        let jv = if nvals == 1 && rng.chance(1, 2) { jvs[0].clone() } else { JV::Arr(jvs) };
        members.push((name_of(fi), jv, exps, outs, fi));
    }
    members.sort_by(|a, b| a.0.cmp(&b.0));
    let mut expected = vec![];
    let mut output = serde_json::Map::new();
    for (name, _, exps, outs, fi) in &members {
        if sch.fields[*fi].stored {
            for e in exps {
                expected.push((sch.fields[*fi].field, e.clone()));
            }
            output.insert(name.clone(), J::Array(outs.clone()));
        }
    }
    JsonDoc { members: members.into_iter().map(|(n, jv, _, _, _)| (n, jv)).collect(), expected, output }
}

/// `to_json` of every live document, parsed back, against the JSON that was added
fn check_json_views(ctx: &mut Ctx, index: &Index, sch: &Sch, outputs: &[serde_json::Map<String, J>], stage: &str, case: &J) -> bool {
    let Ok(reader) = index.reader() else { return true };
    let searcher = reader.searcher();
    for (ord, seg) in searcher.segment_readers().iter().enumerate() {
        let Ok(ids) = seg.fast_fields().u64("id") else { return true };
        for d in 0..seg.max_doc() {
            if !seg.alive_bitset().map(|b| b.is_alive(d)).unwrap_or(true) {
                continue;
            }
            let id = ids.first(d).unwrap_or(u64::MAX) as usize;
            let got = catch_unwind(AssertUnwindSafe(|| searcher.doc::<TantivyDocument>(DocAddress::new(ord as u32, d)).map(|doc| doc.to_json(&sch.schema))));
            let text = match got {
                Ok(Ok(t)) => t,
                _ => {
                    ctx.report.violation("oracle", "C09:doc-error", format!("{stage}: Searcher::doc / to_json failed for document id {id}"), case.clone());
                    return false;
                }
            };
            let parsed: Result<J, _> = serde_json::from_str(&text);
            let want = J::Object(outputs[id].clone());
            // serde_json compares 1 and 1.0 as different numbers, which is what is wanted here
            if parsed.as_ref().ok() != Some(&want) {
                ctx.report.violation("oracle", "C09:json-value-differs", format!("{stage}: to_json of document id {id} is {} but the JSON added was {}", clip(&text), clip(&want.to_string())), case.clone());
                return false;
            }
            ctx.report.count("checked:json-view");
        }
    }
    true
}

fn case_json_docs(ctx: &mut Ctx, sch: &Sch, k: Consts, sub: u64) {
    let mut rng = Rng::new(sub);
    let case = json!({"kind": "jsondoc", "sub": sub.to_string()});
    let settings = IndexSettings {
        docstore_compression: pick_compressor(&mut rng),
        docstore_blocksize: pick_blocksize(&mut rng, k.default_bs),
        docstore_compress_dedicated_thread: rng.chance(1, 2),
        ..Default::default()
    };
    let via_map = rng.chance(1, 2);
    let mut outputs: Vec<serde_json::Map<String, J>> = vec![];
    let res = catch_unwind(AssertUnwindSafe(|| -> tantivy::Result<(Index, Expect)> {
        let index = Index::create(RamDirectory::create(), sch.schema.clone(), settings)?;
        let mut w: IndexWriter = index.writer_with_num_threads(1, 30_000_000)?;
        w.set_merge_policy(Box::new(NoMergePolicy));
        let mut exp = Expect { canon: vec![], docs: vec![] };
        for _seg in 0..2 {
            for _ in 0..1 + rng.usize_below(6) {
                let jd = gen_json_doc(&mut rng, sch);
                let mut doc = if via_map {
                    let map: serde_json::Map<String, J> = jd.members.iter().map(|(n, v)| (n.clone(), jv_input(v))).collect();
                    TantivyDocument::from_json_object(&sch.schema, map)
                } else {
                    let mut text = String::new();
                    jv_render(&JV::Obj(jd.members.clone()), &mut text);
                    TantivyDocument::parse_json(&sch.schema, &text)
                }
                .map_err(|e| tantivy::TantivyError::InvalidArgument(format!("document from JSON refused: {e:?}")))?;
                let id = exp.canon.len();
                doc.add_u64(sch.id, id as u64);
                doc.add_u64(sch.sk, rng.below(50));
                w.add_document(doc)?;
                exp.canon.push(canon_fields(&jd.expected));
                exp.docs.push(jd.expected);
                outputs.push(jd.output);
            }
            w.commit()?;
        }
        drop(w);
        Ok((index, exp))
    }));
    let (index, exp) = match res {
        Ok(Ok(x)) => x,
        Ok(Err(e)) => {
            ctx.report.violation("oracle", "C09:json-doc-refused", format!("a valid JSON document was refused or could not be indexed: {e}"), case);
            return;
        }
        Err(_) => {
            ctx.report.violation("oracle", "C09:indexing-panic", "building / indexing a document from JSON panicked".into(), case);
            return;
        }
    };
    ctx.report.case(&format!("jsondoc|{sub}"), true);
    ctx.report.count(if via_map { "json-doc:from_json_object" } else { "json-doc:parse_json" });
    let deleted = vec![false; exp.canon.len()];
    if !check_searcher(ctx, &mut rng, &index, sch, &exp, &deleted, "added from JSON, after commit", &case) {
        return;
    }
    if !check_json_views(ctx, &index, sch, &outputs, "added from JSON, after commit", &case) {
        return;
    }
    let merged = catch_unwind(AssertUnwindSafe(|| -> tantivy::Result<()> {
        let mut w: IndexWriter = index.writer_with_num_threads(1, 30_000_000)?;
        let ids = index.searchable_segment_ids()?;
        w.merge(&ids).wait()?;
        Ok(())
    }));
    match merged {
        Ok(Ok(())) => {
            if check_searcher(ctx, &mut rng, &index, sch, &exp, &deleted, "added from JSON, after merge", &case) {
                check_json_views(ctx, &index, sch, &outputs, "added from JSON, after merge", &case);
            }
        }
        Ok(Err(e)) => ctx.report.violation("oracle", "C09:merge-error", format!("merge failed: {e}"), case),
        Err(_) => ctx.report.violation("oracle", "C09:merge-panic", "merge panicked".into(), case),
    }
}

/// byte strings that are and are not UTF-8, stored as a text value by the Lean encoder: the real
/// deserializer must accept exactly those the model's `utf8Valid` accepts, and return them unchanged
fn case_utf8(ctx: &mut Ctx) {
    let mut samples: Vec<Vec<u8>> = vec![
        vec![], b"plain".to_vec(), "Δ日🙂".as_bytes().to_vec(),
        vec![0xC0, 0x80], vec![0xC1, 0xBF], vec![0xC2, 0x80], vec![0xDF, 0xBF], vec![0xDF], vec![0x80], vec![0xBF, 0x41],
        vec![0xE0, 0x80, 0x80], vec![0xE0, 0x9F, 0xBF], vec![0xE0, 0xA0, 0x80], vec![0xED, 0x9F, 0xBF], vec![0xED, 0xA0, 0x80],
        vec![0xEE, 0x80, 0x80], vec![0xEF, 0xBF, 0xBF], vec![0xE6, 0x97], vec![0xE6, 0x41, 0x41],
        vec![0xF0, 0x8F, 0xBF, 0xBF], vec![0xF0, 0x90, 0x80, 0x80], vec![0xF4, 0x8F, 0xBF, 0xBF], vec![0xF4, 0x90, 0x80, 0x80],
        vec![0xF5, 0x80, 0x80, 0x80], vec![0xF0, 0x9F, 0x99], vec![0xFF], vec![0xFE, 0xFF],
    ];
    for _ in 0..60 {
        let n = 1 + ctx.rng.usize_below(6);
        let mut b = ctx.rng.bytes(n);
        if ctx.rng.chance(1, 2) {
            b[0] |= 0xC0; // more multi-byte lead bytes than uniform noise would give
        }
        let mut v = "a é".as_bytes().to_vec();
        v.extend(b);
        samples.push(v);
    }
    for sample in samples {
        let case = json!({"kind": "utf8", "sub": "0"});
        ctx.report.case(&format!("utf8|{}", hex(&sample)), true);
        let canon = format!("3=S{}", hex(&sample));
        let bytes = match unhex(&ctx.model.ask(&format!("C09 docenc {canon}"))) {
            Some(b) => b,
            None => continue,
        };
        let std_ok = std::str::from_utf8(&sample).is_ok();
        let real = catch_unwind(AssertUnwindSafe(|| tantivy::verif::c09_deserialize_doc(&bytes).map(|d| canon_doc(&d))));
        let model = ctx.model.ask(&format!("C09 docdecs {}", hex(&bytes)));
        match real {
            Ok(Ok(got)) => {
                if !std_ok || got != canon {
                    ctx.report.violation("oracle", "C09:utf8-accepted", format!("the deserializer returns {} for the text bytes {} (valid UTF-8: {std_ok})", clip(&got), hex(&sample)), case.clone());
                }
                if model != canon {
                    ctx.report.violation("model", "C09:utf8-model", format!("text bytes {}: accepted by the real deserializer, model says {model}", hex(&sample)), case);
                }
            }
            Ok(Err(_)) => {
                if std_ok {
                    ctx.report.violation("oracle", "C09:utf8-rejected", format!("the deserializer rejects the valid UTF-8 text {}", hex(&sample)), case.clone());
                }
                if model != "err" {
                    ctx.report.violation("model", "C09:utf8-model", format!("text bytes {}: rejected by the real deserializer, model says {model}", hex(&sample)), case);
                }
            }
            Err(_) => ctx.report.violation("oracle", "C09:codec-panic", format!("deserializing the text bytes {} panicked", hex(&sample)), case),
        }
    }
}

/// field ids of a `TantivyDocument` are u16: larger ids panic in `add_field_value`; the model states
/// this as the precondition of its document round trip
fn case_field_limit(ctx: &mut Ctx) {
    for f in [0u32, 1, 65_534, 65_535, 65_536, 65_537, 1 << 20, u32::MAX] {
        let case = json!({"kind": "fieldlimit", "sub": "0"});
        ctx.report.case(&format!("fieldlimit|{f}"), true);
        let real = catch_unwind(AssertUnwindSafe(|| {
            let mut d = TantivyDocument::default();
            d.add_field_value(Field::from_field_id(f), &OwnedValue::Null);
            d.field_values().count()
        }));
        let real = match real { Ok(1) => "ok", Ok(_) => "lost", Err(_) => "panic" };
        let model = ctx.model.ask(&format!("C09 cdfield {f}"));
        if model != real {
            ctx.report.violation("model", "C09:field-id-limit", format!("field id {f}: add_field_value {real}, model {model}"), case);
        }
    }
}

/// the number classification alone: `OwnedValue::from(serde_json::Value)` against the rule
/// (oracle) and against the Lean `jsonNumber` (model)
fn case_json_numbers(ctx: &mut Ctx) {
    let mut ints: Vec<i128> = JSON_INTS.to_vec();
    for _ in 0..40 {
        ints.push(ctx.rng.next_u64() as i128 - if ctx.rng.chance(1, 2) { 1i128 << 63 } else { 0 });
    }
    for n in ints {
        let case = json!({"kind": "jsonnum", "sub": "0"});
        ctx.report.case(&format!("jsonnum|{n}"), true);
        let got = catch_unwind(AssertUnwindSafe(|| {
            let v: J = serde_json::from_str(&n.to_string()).unwrap();
            let mut s = String::new();
            canon_value(&OwnedValue::from(v), &mut s);
            s
        }));
        let mut want = String::new();
        canon_value(&int_value(n), &mut want);
        match got {
            Ok(g) => {
                if g != want {
                    ctx.report.violation("oracle", "C09:json-number-type", format!("the JSON number {n} becomes {g}, expected {want} (i64 if it fits, else u64 if it fits, else f64)"), case.clone());
                }
                let m = ctx.model.ask(&format!("C09 jsonnum {n}"));
                let agree = if m == "F" { g.starts_with('F') } else { m == g };
                if !agree {
                    ctx.report.violation("model", "C09:json-number-model", format!("JSON number {n}: real {g} model {m}"), case);
                }
            }
            Err(_) => ctx.report.violation("oracle", "C09:json-number-type", format!("converting the JSON number {n} panicked"), case),
        }
    }
}

/// merge of segments whose doc stores were written with DIFFERENT compressors (each source is an
/// index of its own, the target has its own `docstore_compression`): a store may only be stacked
/// block-wise if its codec is the target's; otherwise it must be re-compressed
fn case_mixed_codec_merge(ctx: &mut Ctx, sch: &Sch, k: Consts, sub: u64) {
    let mut rng = Rng::new(sub);
    let case = json!({"kind": "mixed", "sub": sub.to_string()});
    let comps = [Compressor::None, Compressor::Lz4, Compressor::Zstd(ZstdCompressor::default())];
    let target = IndexSettings {
        docstore_compression: *rng.pick(&comps),
        docstore_blocksize: *rng.pick(&[1usize, 16, 64, 300, k.default_bs]),
        docstore_compress_dedicated_thread: rng.chance(1, 2),
        ..Default::default()
    };
    let nsrc = 1 + rng.usize_below(3);
    let mut differing = 0usize;
    let mut stackable_other_codec = 0usize;
    let res = catch_unwind(AssertUnwindSafe(|| -> tantivy::Result<(Index, Expect, Vec<bool>)> {
        let mut exp = Expect { canon: vec![], docs: vec![] };
        let mut deleted: Vec<bool> = vec![];
        let mut segments = vec![];
        let mut keep_alive = vec![];
        for _ in 0..nsrc {
            let comp = *rng.pick(&comps);
            let settings = IndexSettings {
                docstore_compression: comp,
                // small blocks: enough of them for the stacking shortcut
                docstore_blocksize: *rng.pick(&[0usize, 1, 16, 40, 120]),
                docstore_compress_dedicated_thread: rng.chance(1, 2),
                ..Default::default()
            };
            let index = Index::create(RamDirectory::create(), sch.schema.clone(), settings)?;
            let mut w: IndexWriter = index.writer_with_num_threads(1, 30_000_000)?;
            w.set_merge_policy(Box::new(NoMergePolicy));
            let n = *rng.pick(&[1usize, 5, 6, 7, 12, 30]);
            let first = exp.canon.len();
            for _ in 0..n {
                let prof = match rng.below(5) { 0 => DocProfile::ManyValues, 1 => DocProfile::Mixed, 2 => DocProfile::Json, _ => DocProfile::Small };
                let gd = gen_doc(&mut rng, sch, prof);
                let id = exp.canon.len();
                let mut doc = to_tantivy_doc(&gd.added);
                doc.add_u64(sch.id, id as u64);
                doc.add_u64(sch.sk, rng.below(50));
                w.add_document(doc)?;
                exp.canon.push(canon_fields(&gd.expected));
                exp.docs.push(gd.expected);
                deleted.push(false);
            }
            w.commit()?;
            let with_deletes = rng.chance(1, 4) && n > 1;
            if with_deletes {
                w.delete_term(Term::from_field_u64(sch.id, first as u64));
                deleted[first] = true;
                w.commit()?;
            }
            drop(w);
            let segs = index.searchable_segments()?;
            if compressor_name(&comp) != compressor_name(&target.docstore_compression) {
                differing += 1;
                if !with_deletes {
                    if let Some(seg) = segs.first() {
                        let store = seg.open_read(SegmentComponent::Store)?.read_bytes()?.as_slice().to_vec();
                        if let Ok(r) = open_real(&store, 1) {
                            if tantivy::verif::c09_block_checkpoints(&r).len() >= k.min_stack_blocks {
                                stackable_other_codec += 1;
                            }
                        }
                    }
                }
            }
            segments.extend(segs);
            keep_alive.push(index);
        }
        let filters = segments.iter().map(|_| None).collect::<Vec<_>>();
        let merged = tantivy::indexer::merge_filtered_segments(&segments, target.clone(), filters, RamDirectory::create())?;
        Ok((merged, exp, deleted))
    }));
    ctx.report.case(&format!("mixed|{sub}"), true);
    ctx.report.count(if differing > 0 { "mixed-codec-merge:source-codec-differs" } else { "mixed-codec-merge:same-codec" });
    if stackable_other_codec > 0 {
        ctx.report.count("mixed-codec-merge:stackable-source-with-other-codec");
    }
    match res {
        Ok(Ok((merged, exp, deleted))) => {
            check_searcher(ctx, &mut rng, &merged, sch, &exp, &deleted, "after a merge of stores written with different compressors", &case);
        }
        Ok(Err(e)) => ctx.report.violation("oracle", "C09:mixed-codec-merge-error", format!("merge of segments with different docstore_compression failed: {e}"), case),
        Err(_) => ctx.report.violation("oracle", "C09:mixed-codec-merge-panic", "merge of segments with different docstore_compression panicked".into(), case),
    }
}

/// the same index, but `docstore_compression` (and the block size) is changed between writing the
/// segments and merging them (`Index::settings_mut`): the merge writes with the new codec and may
/// only stack blocks of segments written with that very codec
fn case_codec_switch(ctx: &mut Ctx, sch: &Sch, k: Consts, sub: u64) {
    let mut rng = Rng::new(sub);
    let case = json!({"kind": "codecswitch", "sub": sub.to_string()});
    let comps = [Compressor::None, Compressor::Lz4, Compressor::Zstd(ZstdCompressor::default())];
    let first = *rng.pick(&comps);
    let second = *rng.pick(&comps);
    let bs1 = *rng.pick(&[0usize, 1, 16, 40, 120, 4096]);
    let bs2 = *rng.pick(&[1usize, 16, 300, k.default_bs]);
    let nseg = 1 + rng.usize_below(3);
    let with_deletes = rng.chance(1, 4);
    let mut stackable = 0usize;
    let res = catch_unwind(AssertUnwindSafe(|| -> tantivy::Result<Option<(Index, Expect, Vec<bool>)>> {
        let settings = IndexSettings { docstore_compression: first, docstore_blocksize: bs1, docstore_compress_dedicated_thread: rng.chance(1, 2), ..Default::default() };
        let index = Index::create(RamDirectory::create(), sch.schema.clone(), settings)?;
        let mut exp = Expect { canon: vec![], docs: vec![] };
        let mut deleted: Vec<bool> = vec![];
        {
            let mut w: IndexWriter = index.writer_with_num_threads(1, 30_000_000)?;
            w.set_merge_policy(Box::new(NoMergePolicy));
            for _ in 0..nseg {
                // 40 documents of a few KB fill many default-sized blocks; small blocks need fewer
                let n = if bs1 >= 4096 { 40 } else { *rng.pick(&[6usize, 7, 12, 30]) };
                for _ in 0..n {
                    let gd = if bs1 >= 4096 {
                        let f = &sch.fields[3];
                        let v = OwnedValue::Str(gen_text(&mut rng, false).repeat(1 + rng.usize_below(3)) + &"x".repeat(4000));
                        GenDoc { added: vec![(f.field, v.clone())], expected: vec![(f.field, v)] }
                    } else {
                        let prof = match rng.below(4) { 0 => DocProfile::ManyValues, 1 => DocProfile::Json, _ => DocProfile::Small };
                        gen_doc(&mut rng, sch, prof)
                    };
                    let id = exp.canon.len();
                    let mut doc = to_tantivy_doc(&gd.added);
                    doc.add_u64(sch.id, id as u64);
                    doc.add_u64(sch.sk, rng.below(50));
                    w.add_document(doc)?;
                    exp.canon.push(canon_fields(&gd.expected));
                    exp.docs.push(gd.expected);
                    deleted.push(false);
                }
                w.commit()?;
            }
            if with_deletes {
                w.delete_term(Term::from_field_u64(sch.id, 0));
                deleted[0] = true;
                w.commit()?;
            }
        }
        if deleted.iter().all(|d| *d) {
            return Ok(None);
        }
        for seg in index.searchable_segments()? {
            let store = seg.open_read(SegmentComponent::Store)?.read_bytes()?.as_slice().to_vec();
            if let Ok(r) = open_real(&store, 1) {
                if tantivy::verif::c09_block_checkpoints(&r).len() >= k.min_stack_blocks && !seg.meta().has_deletes() {
                    stackable += 1;
                }
            }
        }
        // the user changes the compression of the index, then merges with a new writer
        let mut index2 = index.clone();
        index2.settings_mut().docstore_compression = second;
        index2.settings_mut().docstore_blocksize = bs2;
        let mut w: IndexWriter = index2.writer_with_num_threads(1, 30_000_000)?;
        w.set_merge_policy(Box::new(NoMergePolicy));
        let ids = index2.searchable_segment_ids()?;
        w.merge(&ids).wait()?;
        drop(w);
        Ok(Some((index2, exp, deleted)))
    }));
    ctx.report.case(&format!("codecswitch|{sub}"), true);
    let differs = compressor_name(&first) != compressor_name(&second);
    ctx.report.count(&format!("codec-switch:{}->{}", compressor_name(&first), compressor_name(&second)));
    if differs && stackable > 0 {
        ctx.report.count("codec-switch:stackable-segment-under-another-codec");
    }
    match res {
        Ok(Ok(Some((index2, exp, deleted)))) => {
            check_searcher(ctx, &mut rng, &index2, sch, &exp, &deleted, &format!("after changing docstore_compression {} -> {} and merging", compressor_name(&first), compressor_name(&second)), &case);
        }
        Ok(Ok(None)) => {}
        Ok(Err(e)) => ctx.report.violation("oracle", "C09:codec-switch-merge-error", format!("merge after changing docstore_compression {} -> {} failed: {e}", compressor_name(&first), compressor_name(&second)), case),
        Err(_) => ctx.report.violation("oracle", "C09:codec-switch-merge-panic", "merge after changing docstore_compression panicked".into(), case),
    }
}

// ------------------------------------------------------------------------------------------
// phases, child processes
// ------------------------------------------------------------------------------------------

/// every case of a run, grouped into phases; a pure function of (seed, tier)
fn plan(seed: u64, thorough: bool) -> Vec<(&'static str, Vec<(&'static str, u64)>)> {
    let b = |q: u64, t: u64| if thorough { t } else { q };
    let subs = |name: &str, n: u64| -> Vec<u64> {
        let mut r = Rng::new(seed ^ crate::report::fnv(name.as_bytes()));
        (0..n).map(|_| r.next_u64()).collect()
    };
    let mut fixed: Vec<(&'static str, u64)> = vec![("vint", 0), ("vint32", 0), ("empty", 0), ("jsonnum", 0), ("utf8", 0), ("fieldlimit", 0)];
    for depth in [1u64, 2, 64, 127, 128, 300] {
        fixed.push(("deep", depth));
    }
    if thorough {
        fixed.extend([("deep", 700), ("deep", 1500)]);
    }
    let thr: Vec<(&'static str, u64)> = threshold_subs(thorough).into_iter().map(|s| ("thr", s)).collect();
    vec![
        ("fixed", fixed),
        ("thresholds", thr),
        ("thridx", vec![("thridx", 0)]),
        ("codec", subs("codec", b(700, 4000)).into_iter().map(|s| ("codec", s)).collect()),
        ("store", subs("store", b(320, 2000)).into_iter().map(|s| ("store", s)).collect()),
        ("stack", subs("stack", b(80, 450)).into_iter().map(|s| ("stack", s)).collect()),
        ("index", subs("index", b(70, 400)).into_iter().map(|s| ("index", s)).collect()),
        ("index2", subs("index2", b(12, 90)).into_iter().map(|s| ("index2", s)).collect()),
        ("filtered", subs("filtered", b(45, 300)).into_iter().map(|s| ("filtered", s)).collect()),
        ("v1", subs("v1", b(6, 40)).into_iter().map(|s| ("v1", s)).collect()),
        ("jsondoc", subs("jsondoc", b(60, 450)).into_iter().map(|s| ("jsondoc", s)).collect()),
        ("mixed", subs("mixed", b(40, 220)).into_iter().map(|s| ("mixed", s)).collect()),
        ("codecswitch", subs("codecswitch", b(30, 150)).into_iter().map(|s| ("codecswitch", s)).collect()),
    ]
}

fn run_case(ctx: &mut Ctx, sch: &Sch, k: Consts, kind: &str, sub: u64) {
    match kind {
        "vint" => case_vint(ctx),
        "vint32" => case_vint32(ctx),
        "empty" => probe_empty_store(ctx),
        "deep" => case_deep(ctx, sch, sub as usize),
        "thr" => case_threshold(ctx, sch, sub),
        "thridx" => case_index_thresholds(ctx, sch),
        "codec" => case_codec(ctx, sch, sub),
        "store" => case_store(ctx, k, sub),
        "stack" => case_stack(ctx, sub),
        "index" => case_index(ctx, sch, k, sub),
        "index2" => case_index_two_rounds(ctx, sch, sub),
        "filtered" => case_filtered_merge(ctx, sch, k, sub),
        "v1" => case_v1_store(ctx, sch, sub),
        "jsondoc" => case_json_docs(ctx, sch, k, sub),
        "jsonnum" => case_json_numbers(ctx),
        "utf8" => case_utf8(ctx),
        "fieldlimit" => case_field_limit(ctx),
        "mixed" => case_mixed_codec_merge(ctx, sch, k, sub),
        "codecswitch" => case_codec_switch(ctx, sch, k, sub),
        other => ctx.report.notes.push(format!("unknown case kind {other}")),
    }
}

fn arg_value(name: &str) -> Option<String> {
    let args: Vec<String> = std::env::args().collect();
    args.iter().position(|a| a == name).and_then(|i| args.get(i + 1).cloned())
}

/// One phase (or one replayed case) in a child process: tantivy can abort the whole process
/// (allocation of a garbage length, stack overflow), which `catch_unwind` cannot intercept.
/// Returns the child's report, or the last case it had started when it died.
fn run_child(ctx: &Ctx, phase: &str, exclude: &[usize], replay: Option<&J>, tag: &str) -> Result<J, (Option<J>, String)> {
    let exe = std::env::current_exe().map_err(|e| (None, format!("current_exe: {e}")))?;
    let dir = std::env::temp_dir();
    let base = format!("tvh-c09-{}-{tag}", std::process::id());
    let out = dir.join(format!("{base}.out.json"));
    let mark = dir.join(format!("{base}.mark.json"));
    let errf = dir.join(format!("{base}.stderr"));
    let _ = std::fs::remove_file(&out);
    let _ = std::fs::remove_file(&mark);
    let model = arg_value("--model").unwrap_or_else(|| "/verif/lean/.lake/build/bin/tvmodel".to_string());
    let mut cmd = std::process::Command::new(exe);
    cmd.arg("C09").arg("--tier").arg(&ctx.tier).arg("--seed").arg(ctx.seed.to_string()).arg("--model").arg(model).arg("--out").arg(&out);
    let replay_file = dir.join(format!("{base}.replay.json"));
    if let Some(case) = replay {
        std::fs::write(&replay_file, serde_json::to_string(&json!({"case": case})).unwrap()).map_err(|e| (None, e.to_string()))?;
        cmd.arg("--replay").arg(&replay_file);
    }
    cmd.env("TVH_C09_CHILD", phase)
        .env("TVH_C09_EXCLUDE", exclude.iter().map(|i| i.to_string()).collect::<Vec<_>>().join(","))
        .env("TVH_C09_MARK", &mark)
        .stdout(std::process::Stdio::null())
        .stderr(std::fs::File::create(&errf).map(std::process::Stdio::from).unwrap_or(std::process::Stdio::null()));
    let mut child = cmd.spawn().map_err(|e| (None, format!("cannot start the child process: {e}")))?;
    let limit = std::time::Duration::from_secs(if ctx.thorough() { 4 * 3600 } else { 20 * 60 });
    let t0 = std::time::Instant::now();
    let status = loop {
        match child.try_wait() {
            Ok(Some(st)) => break Some(st),
            Ok(None) => {
                if t0.elapsed() > limit {
                    let _ = child.kill();
                    let _ = child.wait();
                    break None;
                }
                std::thread::sleep(std::time::Duration::from_millis(20));
            }
            Err(_) => break None,
        }
    };
    let read_json = |p: &std::path::Path| std::fs::read_to_string(p).ok().and_then(|t| serde_json::from_str::<J>(&t).ok());
    let result = match status {
        Some(st) if st.success() => read_json(&out).ok_or((read_json(&mark), "the child process wrote no report".to_string())),
        Some(st) => {
            let err = std::fs::read_to_string(&errf).unwrap_or_default();
            let tail: String = err.lines().rev().take(3).collect::<Vec<_>>().into_iter().rev().collect::<Vec<_>>().join(" | ");
            Err((read_json(&mark), format!("process ended with {st} ({})", clip(&tail))))
        }
        None => Err((read_json(&mark), "process did not finish within the time limit and was killed".to_string())),
    };
    for p in [&out, &mark, &errf, &replay_file] {
        let _ = std::fs::remove_file(p);
    }
    result
}

fn merge_child_report(ctx: &mut Ctx, r: &J) {
    ctx.report.evaluations += r["evaluations"].as_u64().unwrap_or(0);
    ctx.report.distinct_nontrivial += r["distinct_nontrivial"].as_u64().unwrap_or(0);
    ctx.model.requests += r["model_requests"].as_u64().unwrap_or(0);
    if let Some(d) = r["distribution"].as_object() {
        for (k, v) in d {
            ctx.report.count_n(k, v.as_u64().unwrap_or(0));
        }
    }
    for smp in r["samples"].as_array().cloned().unwrap_or_default() {
        ctx.report.sample(smp);
    }
    for n in r["notes"].as_array().cloned().unwrap_or_default() {
        if let Some(t) = n.as_str() {
            if !ctx.report.notes.iter().any(|x| x == t) {
                ctx.report.notes.push(t.to_string());
            }
        }
    }
    for v in r["violations"].as_array().cloned().unwrap_or_default() {
        let key = v["key"].as_str().unwrap_or("").to_string();
        // the operating system refusing a thread (overloaded machine) says nothing about the store
        if v["what"].as_str().unwrap_or("").contains("Failed to spawn") {
            let note = format!("environment: {} ({})", v["what"].as_str().unwrap_or(""), key);
            if ctx.report.notes.len() < 20 {
                ctx.report.notes.push(note);
            }
            continue;
        }
        if ctx.report.violations.iter().filter(|x| x.key == key).count() < 3 {
            ctx.report.violations.push(crate::report::Violation {
                kind: v["kind"].as_str().unwrap_or("oracle").to_string(),
                key,
                what: v["what"].as_str().unwrap_or("").to_string(),
                case: v["case"].clone(),
            });
        }
    }
}

fn abort_violation(ctx: &mut Ctx, mark: Option<J>, why: &str, fallback_case: J) {
    let case = mark.as_ref().map(|m| m["case"].clone()).filter(|c| !c.is_null()).unwrap_or(fallback_case);
    ctx.report.violation(
        "oracle",
        "C09:process-abort",
        format!("the process died while running case {case}: {why} (an abort / stack overflow / kill cannot be caught in-process)"),
        case,
    );
}

pub fn run(ctx: &mut Ctx) {
    ctx.report.rule = "cases = VInt values, codec documents (incl. value lengths on every VInt threshold), raw stores \
        (StoreWriter/StoreReader), stacked stores, whole indexes (segments × deletes × merge, sorted or not), filtered merges \
        (merge_filtered_segments with custom alive bitsets), version-1 stores, documents added from JSON text / maps; non-trivial: a codec document with nesting or \
        ≥3 stored values, a store with ≥2 blocks, an index with nested/multi-valued documents and (several segments or deletes)".into();
    ctx.report.correspondence_obligations = vec![
        "VInt bytes: real = model, both directions".into(),
        "serialize_vint_u32 / read_u32_vint_no_advance (CompactDoc length prefixes) = model ladder, both directions".into(),
        "Lean codec decodes the real serializer's bytes to the stored view".into(),
        "Lean-encoded document bytes = real bytes, and the real deserializer reads them".into(),
        "store file (compressor none): model reads the real file, real reads the model's (byte identity recorded as layout note)".into(),
        "model reader (skip-index seek, block decode) on real store files = documents".into(),
        "real StoreReader on model-written files = documents".into(),
        "checkpoints decoded by the model = StoreReader::block_checkpoints".into(),
        "CacheStats hits/misses/entries = model LRU".into(),
        "merged store file (compressor none): same documents in the same order as model mergeStores of the source files".into(),
        "filtered merge (compressor none): same documents as model mergeStores with the combined alive sets".into(),
        "skip index bytes of real files (any compressor) = model SkipIndexBuilder; model seek on them = containing checkpoint".into(),
        "model iterRaw on real files with deletes = live documents".into(),
        "version-1 doc store: model deserializeDocV 1 = what the real reader returns before a merge".into(),
        "JSON number classification: OwnedValue::from(serde_json::Value) = model jsonNumber".into(),
        "TantivyDocument node_data (leaf encodings, address tables) = model cdAdd, byte for byte".into(),
        "lz4 / zstd blocks: 4-byte length frame = model framed codec header".into(),
        "UTF-8 check of stored strings: real deserializer accepts exactly what the model's utf8Valid accepts".into(),
        "lz4 store files: model reader with the LZ4 block decoder on real files = documents".into(),
        "sorted index: merged store = model mergeMapped of the source stores with the observed mapping".into(),
        "field id limit of TantivyDocument: panic exactly where the model's precondition fails".into(),
        "iter_raw + get on one reader: CacheStats = model runOps (iteration through the cache)".into(),
    ];
    // ---- child: one phase, or one replayed case, in this process -------------------------------
    if let Ok(phase) = std::env::var("TVH_C09_CHILD") {
        let sch = build_schema();
        let k = read_consts(ctx);
        let mark = std::env::var("TVH_C09_MARK").ok();
        let write_mark = |case: &J, i: usize| {
            if let Some(m) = &mark {
                let _ = std::fs::write(m, serde_json::to_string(&json!({"phase": phase, "index": i, "case": case})).unwrap());
            }
        };
        if let Some(case) = ctx.replay.clone() {
            write_mark(&case, 0);
            let sub: u64 = case["sub"].as_str().and_then(|s| s.parse().ok()).unwrap_or(0);
            let kind = case["kind"].as_str().unwrap_or("").to_string();
            run_case(ctx, &sch, k, &kind, sub);
            return;
        }
        let exclude: Vec<usize> = std::env::var("TVH_C09_EXCLUDE").unwrap_or_default().split(',').filter_map(|t| t.parse().ok()).collect();
        let thorough = ctx.thorough();
        for (name, cases) in plan(ctx.seed, thorough) {
            if name != phase {
                continue;
            }
            for (i, (kind, sub)) in cases.into_iter().enumerate() {
                if exclude.contains(&i) {
                    continue;
                }
                write_mark(&json!({"kind": kind, "sub": sub.to_string()}), i);
                run_case(ctx, &sch, k, kind, sub);
            }
        }
        return;
    }
    // ---- parent: every phase in a child process -----------------------------------------------
    if let Some(case) = ctx.replay.clone() {
        match run_child(ctx, "replay", &[], Some(&case), "replay") {
            Ok(r) => merge_child_report(ctx, &r),
            Err((mark, why)) => abort_violation(ctx, mark, &why, case),
        }
        return;
    }
    let thorough = ctx.thorough();
    for (name, cases) in plan(ctx.seed, thorough) {
        let mut exclude: Vec<usize> = vec![];
        loop {
            match run_child(ctx, name, &exclude, None, name) {
                Ok(r) => {
                    merge_child_report(ctx, &r);
                    break;
                }
                Err((mark, why)) => {
                    let idx = mark.as_ref().and_then(|m| m["index"].as_u64()).map(|i| i as usize);
                    abort_violation(ctx, mark, &why, json!({"kind": "phase", "sub": name}));
                    match idx {
                        // run the phase again without the case that killed the process
                        Some(i) if exclude.len() < 3 && !exclude.contains(&i) && i < cases.len() => exclude.push(i),
                        _ => {
                            ctx.report.notes.push(format!("phase {name}: given up after {} process deaths", exclude.len() + 1));
                            break;
                        }
                    }
                }
            }
        }
    }
}
