//! C18 — at most one writer per index; the lock follows the writer's lifetime.
//!
//! Ties `Model/Lock.lean` to `Index::writer*`, `IndexWriter::{new, rollback, wait_merging_threads,
//! drop}`, `Directory::acquire_lock` (lock file) and `MmapDirectory::acquire_lock` (flock):
//!  * generated lifecycles (create on several `Index` handles with valid / invalid arguments,
//!    rollback, drop, wait_merging_threads, worker failure, use) on `RamDirectory`,
//!    `MmapDirectory` (two `Index` instances opened on one path, plus a second process) and the
//!    logging `VDir` (plus injected construction / rollback failures): every call's outcome and
//!    the final lock state are compared with the model;
//!  * oracle on the implementation alone: never two live writers, `LockBusy` exactly when a
//!    writer is alive, the first writer is undisturbed by failed attempts (it can still add and
//!    commit), the lock file is not touched during a rollback, a new writer opens after the
//!    previous one was killed by an indexing error and dropped;
//!  * racing creations from 2–8 threads: at most one succeeds (exactly one when all arguments
//!    are valid); on `VDir` the real order of lock operations is replayed through the model.
use crate::dirs::{OpKind, VDir};
use crate::rng::Rng;
use crate::Ctx;
use serde_json::{json, Value};
use std::panic::{catch_unwind, AssertUnwindSafe};
use std::path::{Path, PathBuf};
use std::sync::{Arc, Barrier};
use std::time::{Duration, Instant};
use tantivy::directory::error::LockError;
use tantivy::directory::{MmapDirectory, RamDirectory};
use tantivy::indexer::IndexWriterOptions;
use tantivy::schema::{Field, Schema, INDEXED, STORED, TEXT};
use tantivy::{Directory, Index, IndexWriter, TantivyDocument, TantivyError};

const LOCK: &str = ".tantivy-writer.lock";
const MIN: u64 = 15_000_000; // re-derived from the model (`argsok`) at start-up, see `check_constants`
const MAX: u64 = 4_293_967_295;

#[derive(Clone, Copy, Debug, PartialEq, Eq)]
enum Backend {
    Ram,
    Mmap,
    V,
}

impl Backend {
    fn name(self) -> &'static str {
        match self {
            Backend::Ram => "ram",
            Backend::Mmap => "mmap",
            Backend::V => "vdir",
        }
    }
    fn parse(s: &str) -> Option<Backend> {
        match s {
            "ram" => Some(Backend::Ram),
            "mmap" => Some(Backend::Mmap),
            "vdir" => Some(Backend::V),
            _ => None,
        }
    }
}

#[derive(Clone, Debug, PartialEq)]
enum Op {
    /// via 0: writer_with_num_threads(threads, budget_per_thread*threads); 1: writer_with_options;
    /// 2: writer(budget_per_thread) (thread count chosen by tantivy)
    Create { h: usize, threads: usize, budget: u64, via: u8 },
    Rollback { sel: usize },
    Drop { sel: usize },
    Wait { sel: usize },
    Kill { sel: usize },
    Use { sel: usize },
    /// VDir only: `meta.json` cannot be read while `rollback` builds the replacement writer
    RollbackFault { sel: usize },
    /// VDir only: `meta.json` cannot be read while `IndexWriter::new` runs
    CreateFault { h: usize },
}

impl Op {
    fn to_json(&self) -> Value {
        match self {
            Op::Create { h, threads, budget, via } => json!(["create", h, threads, budget, via]),
            Op::Rollback { sel } => json!(["rollback", sel]),
            Op::Drop { sel } => json!(["drop", sel]),
            Op::Wait { sel } => json!(["wait", sel]),
            Op::Kill { sel } => json!(["kill", sel]),
            Op::Use { sel } => json!(["use", sel]),
            Op::RollbackFault { sel } => json!(["rollback-fault", sel]),
            Op::CreateFault { h } => json!(["create-fault", h]),
        }
    }
    fn from_json(v: &Value) -> Option<Op> {
        let a = v.as_array()?;
        let u = |i: usize| a.get(i).and_then(|x| x.as_u64());
        Some(match a.first()?.as_str()? {
            "create" => Op::Create { h: u(1)? as usize, threads: u(2)? as usize, budget: u(3)?, via: u(4)? as u8 },
            "rollback" => Op::Rollback { sel: u(1)? as usize },
            "drop" => Op::Drop { sel: u(1)? as usize },
            "wait" => Op::Wait { sel: u(1)? as usize },
            "kill" => Op::Kill { sel: u(1)? as usize },
            "use" => Op::Use { sel: u(1)? as usize },
            "rollback-fault" => Op::RollbackFault { sel: u(1)? as usize },
            "create-fault" => Op::CreateFault { h: u(1)? as usize },
            _ => return None,
        })
    }
}

#[derive(Debug, Clone, PartialEq, Eq)]
enum Outcome {
    Ok,
    Busy,
    Invalid,
    Io,
    Panic,
    Other(String),
}

impl Outcome {
    fn of<T>(r: &std::thread::Result<tantivy::Result<T>>) -> Outcome {
        match r {
            Err(_) => Outcome::Panic,
            Ok(Ok(_)) => Outcome::Ok,
            Ok(Err(TantivyError::LockFailure(LockError::LockBusy, _))) => Outcome::Busy,
            Ok(Err(TantivyError::LockFailure(LockError::IoError(_), _))) => Outcome::Io,
            Ok(Err(TantivyError::InvalidArgument(_))) => Outcome::Invalid,
            Ok(Err(TantivyError::IoError(_))) | Ok(Err(TantivyError::OpenReadError(_))) => Outcome::Io,
            Ok(Err(e)) => Outcome::Other(format!("{e:?}").chars().take(120).collect()),
        }
    }
    fn model_name(&self, id: usize) -> String {
        match self {
            Outcome::Ok => format!("ok{id}"),
            Outcome::Busy => "busy".into(),
            Outcome::Invalid => "invalid".into(),
            Outcome::Io => "io".into(),
            Outcome::Panic => "panic".into(),
            Outcome::Other(s) => format!("other:{s}"),
        }
    }
}

struct Live {
    id: usize,
    w: IndexWriter,
    killed: bool,
    /// lost its guard in a failed rollback (`_directory_lock = None`)
    lockless: bool,
    /// documents added since the last commit / rollback
    pending: u64,
}

struct World {
    backend: Backend,
    handles: Vec<Index>,
    vdir: Option<VDir>,
    ram: Option<RamDirectory>,
    tmp: Option<tempfile::TempDir>,
    text: Field,
    num: Field,
    live: Vec<Live>,
    next_id: usize,
    committed: u64,
    /// why the lock should be free now (name of the last releasing operation)
    last_release: &'static str,
}

fn schema() -> (Schema, Field, Field) {
    let mut b = Schema::builder();
    let text = b.add_text_field("t", TEXT | STORED);
    let num = b.add_u64_field("n", INDEXED);
    (b.build(), text, num)
}

impl World {
    fn new(backend: Backend) -> World {
        let (schema, text, num) = schema();
        let mut w = World {
            backend,
            handles: vec![],
            vdir: None,
            ram: None,
            tmp: None,
            text,
            num,
            live: vec![],
            next_id: 0,
            committed: 0,
            last_release: "start",
        };
        match backend {
            Backend::Ram => {
                let ram = RamDirectory::create();
                let i0 = Index::create(ram.clone(), schema, Default::default()).unwrap();
                let i1 = Index::open(ram.clone()).unwrap();
                let i2 = i0.clone();
                w.handles = vec![i0, i1, i2];
                w.ram = Some(ram);
            }
            Backend::Mmap => {
                let tmp = fast_tempdir();
                let i0 = Index::create_in_dir(tmp.path(), schema).unwrap();
                let i1 = Index::open_in_dir(tmp.path()).unwrap();
                let i2 = Index::open(MmapDirectory::open(tmp.path()).unwrap()).unwrap();
                w.handles = vec![i0, i1, i2];
                w.tmp = Some(tmp);
            }
            Backend::V => {
                let vdir = VDir::new();
                let i0 = Index::create(vdir.clone(), schema, Default::default()).unwrap();
                let i1 = Index::open(vdir.clone()).unwrap();
                let i2 = i0.clone();
                w.handles = vec![i0, i1, i2];
                w.vdir = Some(vdir);
            }
        }
        w
    }
    /// does the lock file exist (lock-file based directories only)
    fn lock_file_exists(&self) -> Option<bool> {
        match self.backend {
            Backend::Ram => self.ram.as_ref().map(|r| r.exists(Path::new(LOCK)).unwrap_or(false)),
            Backend::V => self.vdir.as_ref().map(|v| v.inner.exists(Path::new(LOCK)).unwrap_or(false)),
            Backend::Mmap => None,
        }
    }
    fn good_doc(&self, n: u64) -> TantivyDocument {
        let mut d = TantivyDocument::default();
        d.add_text(self.text, format!("doc {n}"));
        d.add_u64(self.num, n);
        d
    }
    /// a text value in the u64 field: `SegmentWriter::add_document` returns a schema error in
    /// the indexing worker, which kills the writer
    fn bad_doc(&self) -> TantivyDocument {
        let mut d = TantivyDocument::default();
        d.add_text(self.text, "poison");
        d.add_text(self.num, "not a number");
        d
    }
    fn num_docs(&self, h: usize) -> Result<u64, String> {
        let reader = self.handles[h].reader().map_err(|e| format!("{e:?}"))?;
        reader.reload().map_err(|e| format!("{e:?}"))?;
        Ok(reader.searcher().num_docs())
    }
    fn lock_log_ops(&self, from: usize) -> Vec<String> {
        match &self.vdir {
            Some(v) => v.log()[from..]
                .iter()
                .filter(|r| r.path == LOCK && r.kind != OpKind::Exists)
                .map(|r| r.line())
                .collect(),
            None => vec![],
        }
    }
}

/// fsync on the sandbox's disk costs tens of milliseconds; a tmpfs keeps flock semantics
fn fast_tempdir() -> tempfile::TempDir {
    let shm = Path::new("/dev/shm");
    if shm.is_dir() {
        if let Ok(d) = tempfile::tempdir_in(shm) {
            return d;
        }
    }
    tempfile::tempdir().unwrap()
}

fn set_meta_read_fault(v: &VDir, on: bool) {
    fn filt(k: OpKind, p: &str) -> bool {
        k == OpKind::AtomicRead && p == "meta.json"
    }
    v.with_state(|s| {
        if on {
            s.fault_filter = Some(filt);
            s.faultable_seen = 0;
            s.fail_at = Some((0, true));
        } else {
            s.fault_filter = None;
            s.fail_at = None;
        }
    });
}

fn create_writer(index: &Index, threads: usize, budget: u64, via: u8) -> std::thread::Result<tantivy::Result<IndexWriter>> {
    catch_unwind(AssertUnwindSafe(|| match via {
        0 => index.writer_with_num_threads(threads, (budget as usize).saturating_mul(threads.max(1))),
        1 => index.writer_with_options(
            IndexWriterOptions::builder()
                .num_worker_threads(threads)
                .memory_budget_per_thread(budget as usize)
                .num_merge_threads(1)
                .build(),
        ),
        _ => index.writer(budget as usize),
    }))
}

/// per-thread budget and thread count that `IndexWriter::new` sees (mirrors the arithmetic of
/// `Index::writer` / `writer_with_num_threads`, which is not part of the lock model)
fn effective_args(threads: usize, budget: u64, via: u8) -> (u64, usize) {
    match via {
        0 => {
            let overall = (budget as usize).saturating_mul(threads.max(1));
            if threads == 0 { (0, 0) } else { ((overall / threads) as u64, threads) }
        }
        1 => (budget, threads),
        _ => {
            let avail = std::thread::available_parallelism().map(|n| n.get()).unwrap_or(1);
            let mut n = avail.min(8);
            if (budget as usize) / n < MIN as usize {
                n = ((budget as usize) / MIN as usize).max(1);
            }
            ((budget as usize / n) as u64, n)
        }
    }
}

fn gen_budget(rng: &mut Rng) -> u64 {
    match rng.below(20) {
        0 => MIN - 1,
        1 => MIN + 1,
        2 => MAX - 1,
        3 => MAX,
        4 => MAX + 1,
        5 => 0,
        6 => 1,
        7 => 2 * MIN,
        _ => MIN,
    }
}

fn gen_ops(rng: &mut Rng, backend: Backend, len: usize) -> Vec<Op> {
    let mut ops = vec![];
    for _ in 0..len {
        let r = rng.below(100);
        let sel = rng.usize_below(4);
        let h = rng.usize_below(3);
        let op = if r < 34 {
            let via = match rng.below(10) { 0..=4 => 0u8, 5..=8 => 1, _ => 2 };
            let mut threads = match rng.below(12) { 0 => 0usize, 1 => 2, 2 => 8, _ => 1 };
            let budget = if via == 2 { *rng.pick(&[MIN, MIN - 1, 8 * MIN, 20 * MIN, 3]) } else { gen_budget(rng) };
            if via == 0 && threads == 0 && !rng.chance(1, 4) {
                threads = 1; // the zero-thread division by zero (known finding) stays rare
            }
            Op::Create { h, threads, budget, via }
        } else if r < 48 {
            Op::Drop { sel }
        } else if r < 56 {
            Op::Wait { sel }
        } else if r < 70 {
            Op::Rollback { sel }
        } else if r < 78 {
            Op::Kill { sel }
        } else if r < 92 {
            Op::Use { sel }
        } else if backend == Backend::V {
            if r < 96 { Op::RollbackFault { sel } } else { Op::CreateFault { h } }
        } else {
            Op::Create { h, threads: 1, budget: MIN, via: 1 }
        };
        ops.push(op);
    }
    ops
}

struct LifecycleResult {
    model_events: Vec<String>,
    real_outs: Vec<String>,
    nontrivial: bool,
    ops_run: usize,
}

/// runs one lifecycle against the real code; reports oracle violations; returns the event
/// string for the model and the real outcomes in model notation
fn run_lifecycle(ctx: &mut Ctx, backend: Backend, ops: &[Op]) -> LifecycleResult {
    let case = json!({"kind": "lifecycle", "backend": backend.name(), "ops": ops.iter().map(|o| o.to_json()).collect::<Vec<_>>()});
    let mut w = World::new(backend);
    let mut evs: Vec<String> = vec![];
    let mut outs: Vec<String> = vec![];
    let mut busy_seen = false;
    let mut released_seen = false;
    let mut doc_seq = 0u64;
    let mut ops_run = 0usize;
    for (opi, op) in ops.iter().enumerate() {
        ops_run += 1;
        let nlive = w.live.len();
        let pick = |sel: usize| if nlive == 0 { None } else { Some(sel % nlive) };
        match op {
            Op::Create { h, threads, budget, via } => {
                let (pt, nt) = effective_args(*threads, *budget, *via);
                let args_ok = ctx.model.ask(&format!("C18 argsok {pt} {nt}")) == "1";
                let r = create_writer(&w.handles[*h], *threads, *budget, *via);
                let out = Outcome::of(&r);
                ctx.report.count(&format!("create:{}:{}", backend.name(), match &out { Outcome::Other(_) => "other".into(), o => o.model_name(0).trim_end_matches('0').to_string() }));
                if *via == 0 && *threads == 0 {
                    // division by zero in writer_with_num_threads before anything is acquired
                    if out == Outcome::Panic {
                        ctx.report.violation("oracle", "C18:zero-threads-divides-by-zero",
                            "Index::writer_with_num_threads(0, budget) panics (division by zero) instead of returning InvalidArgument".into(), case.clone());
                    } else if out != Outcome::Invalid && out != Outcome::Busy {
                        ctx.report.violation("oracle", "C18:zero-threads-outcome", format!("writer_with_num_threads(0, _) -> {out:?}"), case.clone());
                    }
                    // not an event of the lock model (nothing was acquired); the lock state must be unchanged
                    if let Some(ex) = w.lock_file_exists() {
                        let expect = w.live.iter().any(|l| !l.lockless);
                        if ex != expect {
                            ctx.report.violation("oracle", "C18:lock-file-state", format!("after the zero-thread call the lock file exists={ex}, expected {expect} (op {opi})"), case.clone());
                        }
                    }
                    continue;
                }
                let any_live = !w.live.is_empty();
                let owner_live = w.live.iter().any(|l| !l.lockless);
                // ---- oracle on the implementation alone
                match &out {
                    Outcome::Ok => {
                        if any_live {
                            if !owner_live && w.live.iter().all(|l| l.lockless) {
                                ctx.report.violation("oracle", "C18:failed-rollback-leaves-lockless-writer",
                                    format!("a second IndexWriter was created while the writer whose rollback failed is still alive (op {opi}): two live writers"), case.clone());
                            } else {
                                ctx.report.violation("oracle", "C18:two-live-writers",
                                    format!("Index::writer returned Ok while a lock-owning writer is alive (op {opi}, backend {})", backend.name()), case.clone());
                            }
                        }
                        if !args_ok {
                            ctx.report.violation("oracle", "C18:invalid-args-accepted", format!("writer created with per-thread budget {pt}, {nt} threads (op {opi})"), case.clone());
                        }
                    }
                    Outcome::Busy => {
                        busy_seen = true;
                        if !any_live {
                            ctx.report.violation("oracle", &format!("C18:lock-not-released-after-{}", w.last_release),
                                format!("LockBusy although no writer is alive (last release: {}, op {opi}, backend {})", w.last_release, backend.name()), case.clone());
                        } else if !owner_live {
                            ctx.report.violation("oracle", "C18:busy-without-owner", format!("LockBusy although only lock-less writers are alive (op {opi})"), case.clone());
                        }
                    }
                    Outcome::Invalid => {
                        if owner_live {
                            ctx.report.violation("oracle", "C18:busy-not-reported", format!("InvalidArgument instead of LockBusy while a writer is alive (op {opi})"), case.clone());
                        }
                        if args_ok {
                            ctx.report.violation("oracle", "C18:valid-args-refused", format!("InvalidArgument for per-thread budget {pt}, {nt} threads (op {opi})"), case.clone());
                        }
                    }
                    other => {
                        ctx.report.violation("oracle", "C18:create-unexpected-outcome", format!("Index::writer -> {other:?} (op {opi}, backend {})", backend.name()), case.clone());
                    }
                }
                evs.push(format!("c{}:{}:1", h, if args_ok { 1 } else { 0 }));
                outs.push(out.model_name(w.next_id));
                if let Ok(Ok(writer)) = r {
                    w.live.push(Live { id: w.next_id, w: writer, killed: false, lockless: false, pending: 0 });
                    w.next_id += 1;
                } else if owner_live && rng_free_check(opi) {
                    // the first writer must be undisturbed by the failed attempt
                    let idx = w.live.iter().position(|l| !l.lockless).unwrap();
                    if !w.live[idx].killed {
                        use_writer(ctx, &mut w, idx, &mut doc_seq, &case, opi, "after a refused creation");
                    }
                } else if !owner_live {
                    w.last_release = "failed-construction";
                    released_seen = true;
                }
            }
            Op::CreateFault { h } => {
                let v = w.vdir.clone().expect("vdir op on another backend");
                set_meta_read_fault(&v, true);
                let r = create_writer(&w.handles[*h], 1, MIN, 1);
                set_meta_read_fault(&v, false);
                let out = Outcome::of(&r);
                let owner_live = w.live.iter().any(|l| !l.lockless);
                ctx.report.count("create-fault");
                match (&out, owner_live) {
                    (Outcome::Busy, true) => busy_seen = true,
                    (Outcome::Io, false) => {
                        w.last_release = "failed-construction";
                        released_seen = true;
                    }
                    _ => ctx.report.violation("oracle", "C18:create-fault-outcome", format!("Index::writer with unreadable meta.json -> {out:?}, owner alive = {owner_live} (op {opi})"), case.clone()),
                }
                evs.push(format!("c{}:1:0", h));
                outs.push(out.model_name(w.next_id));
                if let Ok(Ok(writer)) = r {
                    w.live.push(Live { id: w.next_id, w: writer, killed: false, lockless: false, pending: 0 });
                    w.next_id += 1;
                }
            }
            Op::Rollback { sel } | Op::RollbackFault { sel } => {
                let Some(i) = pick(*sel) else { ops_run -= 1; continue };
                let fault = matches!(op, Op::RollbackFault { .. });
                let from = w.vdir.as_ref().map(|v| v.log_len()).unwrap_or(0);
                if fault {
                    set_meta_read_fault(w.vdir.as_ref().unwrap(), true);
                }
                let r = catch_unwind(AssertUnwindSafe(|| w.live[i].w.rollback()));
                if fault {
                    set_meta_read_fault(w.vdir.as_ref().unwrap(), false);
                }
                let out = Outcome::of(&r);
                let id = w.live[i].id;
                let was_lockless = w.live[i].lockless;
                ctx.report.count(&format!("rollback:{}", if fault { "fault" } else if was_lockless { "lockless" } else { "plain" }));
                evs.push(format!("r{}:{}", id, if fault { 0 } else { 1 }));
                outs.push(out.model_name(id));
                match (&out, was_lockless, fault) {
                    (Outcome::Ok, false, false) => {
                        w.live[i].killed = false;
                        w.live[i].pending = 0;
                        let touched = w.lock_log_ops(from);
                        if !touched.is_empty() {
                            ctx.report.violation("oracle", "C18:lock-touched-during-rollback",
                                format!("the lock file was operated on during rollback (op {opi}): {touched:?}"), case.clone());
                        }
                    }
                    (Outcome::Io, false, true) => {
                        // Did the guard go with the failed IndexWriter::new? Observed on the storage; the
                        // model answers from the extracted order inside `rollback` and is compared below.
                        let kept = w.lock_file_exists().unwrap_or(false);
                        w.live[i].lockless = !kept;
                        if !kept {
                            w.last_release = "failed-rollback";
                        }
                    }
                    (Outcome::Panic, true, _) => {
                        ctx.report.violation("oracle", "C18:failed-rollback-leaves-lockless-writer",
                            format!("rollback() of the writer whose previous rollback failed panics: it has no lock any more (op {opi})"), case.clone());
                    }
                    _ => ctx.report.violation("oracle", "C18:rollback-unexpected-outcome", format!("rollback -> {out:?} (lockless={was_lockless}, fault={fault}, op {opi})"), case.clone()),
                }
            }
            Op::Drop { sel } | Op::Wait { sel } => {
                let Some(i) = pick(*sel) else { ops_run -= 1; continue };
                let l = w.live.remove(i);
                let wait = matches!(op, Op::Wait { .. });
                ctx.report.count(if wait { "wait" } else { "drop" });
                evs.push(format!("{}{}", if wait { "m" } else { "d" }, l.id));
                outs.push("done".into());
                if !l.lockless {
                    w.last_release = if wait { "wait" } else if l.killed { "kill-drop" } else { "drop" };
                    released_seen = true;
                }
                let killed = l.killed;
                let r = catch_unwind(AssertUnwindSafe(move || {
                    if wait { l.w.wait_merging_threads().map(|_| ()) } else { drop(l.w); Ok(()) }
                }));
                match r {
                    Err(_) => ctx.report.violation("oracle", "C18:drop-panics", format!("{} panicked (op {opi})", if wait { "wait_merging_threads" } else { "drop" }), case.clone()),
                    Ok(Err(e)) if !killed => ctx.report.violation("oracle", "C18:wait-failed", format!("wait_merging_threads of a healthy writer failed: {e:?} (op {opi})"), case.clone()),
                    _ => {}
                }
            }
            Op::Kill { sel } => {
                let Some(i) = pick(*sel) else { ops_run -= 1; continue };
                if w.live[i].killed {
                    ops_run -= 1;
                    continue;
                }
                ctx.report.count("kill");
                let bad = w.bad_doc();
                let _ = w.live[i].w.add_document(bad);
                // the worker fails asynchronously: later adds fail once the bomb went off
                let t0 = Instant::now();
                let mut dead = false;
                while t0.elapsed() < Duration::from_secs(10) {
                    doc_seq += 1;
                    let d = w.good_doc(doc_seq);
                    if w.live[i].w.add_document(d).is_err() {
                        dead = true;
                        break;
                    }
                    std::thread::sleep(Duration::from_millis(1));
                }
                if !dead {
                    ctx.report.violation("oracle", "C18:indexing-error-not-fatal", format!("a schema error in the worker did not kill the writer within 10 s (op {opi})"), case.clone());
                }
                w.live[i].killed = true;
                evs.push(format!("k{}", w.live[i].id));
                outs.push("done".into());
            }
            Op::Use { sel } => {
                let Some(i) = pick(*sel) else { ops_run -= 1; continue };
                if w.live[i].killed || w.live[i].lockless {
                    // a killed writer refuses documents; nothing else is promised
                    doc_seq += 1;
                    let d = w.good_doc(doc_seq);
                    if w.live[i].killed && w.live[i].w.add_document(d).is_ok() {
                        ctx.report.violation("oracle", "C18:killed-writer-accepts-documents", format!("add_document on a killed writer returned Ok (op {opi})"), case.clone());
                    }
                    continue;
                }
                use_writer(ctx, &mut w, i, &mut doc_seq, &case, opi, "use");
            }
        }
        // lock-file state after every operation (lock-file based directories)
        if let Some(ex) = w.lock_file_exists() {
            let expect = w.live.iter().any(|l| !l.lockless);
            if ex != expect {
                let key = if expect { "C18:lock-file-missing-while-writer-alive".to_string() } else { format!("C18:lock-not-released-after-{}", w.last_release) };
                ctx.report.violation("oracle", &key, format!("lock file exists={ex}, a lock-owning writer is alive={expect} (after op {opi} {:?})", op), case.clone());
            }
        }
        let owners = w.live.iter().filter(|l| !l.lockless).count();
        if owners > 1 {
            ctx.report.violation("oracle", "C18:two-live-writers", format!("{owners} lock-owning writers alive after op {opi}"), case.clone());
        }
    }
    // final: everything dropped -> a writer must open (release on every path)
    let had = !w.live.is_empty();
    for l in w.live.drain(..) {
        evs.push(format!("d{}", l.id));
        outs.push("done".into());
        if !l.lockless {
            w.last_release = if l.killed { "kill-drop" } else { "drop" };
        }
        drop(l.w);
    }
    let r = create_writer(&w.handles[0], 1, MIN, 1);
    let out = Outcome::of(&r);
    evs.push("c0:1:1".into());
    outs.push(out.model_name(w.next_id));
    if out != Outcome::Ok {
        ctx.report.violation("oracle", &format!("C18:lock-not-released-after-{}", w.last_release),
            format!("after all writers were dropped Index::writer -> {out:?} (last release {}, backend {})", w.last_release, backend.name()), case.clone());
    }
    drop(r);
    LifecycleResult { model_events: evs, real_outs: outs, nontrivial: busy_seen && (released_seen || had), ops_run }
}

fn rng_free_check(opi: usize) -> bool {
    // every refused creation is followed by a use of the first writer, except that long runs of
    // refusals only check every other time (cost)
    opi % 2 == 0 || opi < 6
}

fn use_writer(ctx: &mut Ctx, w: &mut World, i: usize, doc_seq: &mut u64, case: &Value, opi: usize, why: &str) {
    *doc_seq += 1;
    let d = w.good_doc(*doc_seq);
    let r = catch_unwind(AssertUnwindSafe(|| -> tantivy::Result<()> {
        w.live[i].w.add_document(d)?;
        w.live[i].w.commit()?;
        Ok(())
    }));
    ctx.report.count("use");
    match r {
        Ok(Ok(())) => {
            w.committed += w.live[i].pending + 1;
            w.live[i].pending = 0;
            match w.num_docs(1) {
                Ok(n) if n == w.committed => {}
                Ok(n) => ctx.report.violation("oracle", "C18:first-writer-disturbed", format!("{why}: {n} documents searchable, {} committed (op {opi})", w.committed), case.clone()),
                Err(e) => ctx.report.violation("oracle", "C18:first-writer-disturbed", format!("{why}: reader failed {e} (op {opi})"), case.clone()),
            }
        }
        Ok(Err(e)) => ctx.report.violation("oracle", "C18:first-writer-disturbed", format!("{why}: add+commit of the live writer failed: {e:?} (op {opi})"), case.clone()),
        Err(_) => ctx.report.violation("oracle", "C18:first-writer-disturbed", format!("{why}: add+commit panicked (op {opi})"), case.clone()),
    }
}

fn compare_with_model(ctx: &mut Ctx, backend: Backend, ops: &[Op], res: &LifecycleResult) {
    let case = json!({"kind": "lifecycle", "backend": backend.name(), "ops": ops.iter().map(|o| o.to_json()).collect::<Vec<_>>()});
    let line = format!("C18 run {}", if res.model_events.is_empty() { "-".to_string() } else { res.model_events.join(",") });
    let resp = ctx.model.ask(&line);
    let mut parts = resp.split('|');
    let model_outs: Vec<String> = parts.next().unwrap_or("").split(',').map(|s| s.to_string()).collect();
    let held = parts.next().unwrap_or("?");
    if model_outs != res.real_outs {
        let first = model_outs.iter().zip(res.real_outs.iter()).position(|(a, b)| a != b).unwrap_or(model_outs.len().min(res.real_outs.len()));
        ctx.report.violation("model", "C18:outcome-differs-from-model",
            format!("event {first} ({}): model {:?}, implementation {:?}; events {}", res.model_events.get(first).cloned().unwrap_or_default(), model_outs.get(first), res.real_outs.get(first), res.model_events.join(",")), case.clone());
    }
    // the lifecycle ends with a successful creation that is then dropped by the harness
    if held != "1" && model_outs == res.real_outs {
        ctx.report.violation("model", "C18:final-state-differs-from-model", format!("model final held={held}"), case);
    }
}

// ------------------------------------------------------------------------------------------
// racing creations
// ------------------------------------------------------------------------------------------

fn race_round(ctx: &mut Ctx, backend: Backend, n: usize, invalid_mask: u32, round: u64) {
    let case = json!({"kind": "race", "backend": backend.name(), "threads": n, "invalid_mask": invalid_mask});
    let w = World::new(backend);
    let barrier = Arc::new(Barrier::new(n));
    let from = w.vdir.as_ref().map(|v| v.log_len()).unwrap_or(0);
    let mut joins = vec![];
    for t in 0..n {
        let index = match (backend, t % 3) {
            (Backend::Mmap, 1) => Index::open_in_dir(w.tmp.as_ref().unwrap().path()).unwrap(),
            (_, k) => w.handles[k].clone(),
        };
        let b = barrier.clone();
        let invalid = invalid_mask & (1 << t) != 0;
        joins.push(
            std::thread::Builder::new()
                .name(format!("race-{t}"))
                .spawn(move || {
                    b.wait();
                    let r = create_writer(&index, 1, if invalid { MIN - 1 } else { MIN }, 1);
                    let out = Outcome::of(&r);
                    (out, r.ok().and_then(|x| x.ok()))
                })
                .unwrap(),
        );
    }
    let mut outs = vec![];
    let mut winners: Vec<IndexWriter> = vec![];
    for j in joins {
        match j.join() {
            Ok((o, wopt)) => {
                outs.push(o);
                if let Some(wr) = wopt {
                    winners.push(wr);
                }
            }
            Err(_) => outs.push(Outcome::Panic),
        }
    }
    let oks = outs.iter().filter(|o| **o == Outcome::Ok).count();
    let canon = format!("race {} n={n} mask={invalid_mask} round={round}", backend.name());
    ctx.report.case(&canon, n >= 2);
    ctx.report.count(&format!("race:{}:threads={n}", backend.name()));
    if oks > 1 {
        ctx.report.violation("oracle", "C18:racing-creates-two-winners", format!("{oks} of {n} racing Index::writer calls succeeded on {}: {outs:?}", backend.name()), case.clone());
    }
    if invalid_mask == 0 && oks != 1 {
        ctx.report.violation("oracle", "C18:racing-creates-no-winner", format!("{oks} of {n} racing valid Index::writer calls succeeded on {}: {outs:?}", backend.name()), case.clone());
    }
    for (t, o) in outs.iter().enumerate() {
        let invalid = invalid_mask & (1 << t) != 0;
        let fine = match o {
            Outcome::Ok => !invalid,
            Outcome::Busy => true,
            Outcome::Invalid => invalid,
            _ => false,
        };
        if !fine {
            ctx.report.violation("oracle", "C18:racing-create-unexpected-outcome", format!("thread {t} (invalid args: {invalid}) -> {o:?}"), case.clone());
        }
    }
    // VDir: what each thread really did to the lock file (which `open_write` succeeded, who
    // deleted it), arranged into a linearisation, must be a run of the model with the same
    // outcomes. (The log is ordered by the start of each operation, not by its effect, so the
    // order *between* threads is reconstructed: releasing holders one after the other, refused
    // attempts while somebody holds.)
    if let Some(v) = &w.vdir {
        let log = v.log();
        let mut holders: Vec<usize> = vec![]; // acquired and released (failed construction)
        let mut winner: Option<usize> = None;
        let mut refused: Vec<usize> = vec![];
        let mut deleted: Vec<usize> = vec![];
        for r in &log[from..] {
            if r.path != LOCK {
                continue;
            }
            let Some(t) = r.thread.strip_prefix("race-").and_then(|x| x.parse::<usize>().ok()) else { continue };
            let invalid = invalid_mask & (1 << t) != 0;
            match r.kind {
                OpKind::OpenWrite if r.ok && invalid => holders.push(t),
                OpKind::OpenWrite if r.ok => {
                    if winner.is_some() {
                        ctx.report.violation("oracle", "C18:racing-creates-two-winners", format!("two valid creations acquired the lock file: threads {winner:?} and {t}"), case.clone());
                    }
                    winner = Some(t)
                }
                OpKind::OpenWrite => refused.push(t),
                OpKind::Delete => deleted.push(t),
                _ => {}
            }
        }
        let mut hs = holders.clone();
        hs.sort();
        deleted.sort();
        if hs != deleted {
            ctx.report.violation("oracle", "C18:lock-not-released-after-failed-construction", format!("threads {hs:?} acquired the lock with invalid arguments, threads {deleted:?} deleted the lock file"), case.clone());
        }
        let mut evs: Vec<String> = vec![];
        let mut expect: Vec<String> = vec![];
        let mut refused_placed = false;
        let place_refused = |evs: &mut Vec<String>, expect: &mut Vec<String>| {
            for t in &refused {
                evs.push(format!("a{t}"));
                expect.push("busy".into());
            }
        };
        for (i, t) in holders.iter().enumerate() {
            evs.push(format!("a{t}"));
            expect.push("done".into());
            if winner.is_none() && i == 0 {
                place_refused(&mut evs, &mut expect);
                refused_placed = true;
            }
            evs.push(format!("n{t}:0:1"));
            expect.push("invalid".into());
        }
        if let Some(t) = winner {
            evs.push(format!("a{t}"));
            expect.push("done".into());
            place_refused(&mut evs, &mut expect);
            refused_placed = true;
            evs.push(format!("n{t}:1:1"));
            expect.push("ok0".into());
        }
        if !refused_placed {
            place_refused(&mut evs, &mut expect);
        }
        let resp = ctx.model.ask(&format!("C18 run {}", if evs.is_empty() { "-".into() } else { evs.join(",") }));
        let model_outs: Vec<String> = resp.split('|').next().unwrap_or("").split(',').map(|s| s.to_string()).collect();
        ctx.report.traces_validated_against_impl += 1;
        if model_outs != expect {
            ctx.report.violation("model", "C18:race-trace-differs-from-model", format!("lock operations {evs:?}: implementation {expect:?}, model {model_outs:?}"), case.clone());
        }
        // the same operations through the lock-file model (open_write / guard built / guard dropped)
        let mut lf: Vec<String> = vec![];
        let mut lf_expect: Vec<String> = vec![];
        for (e, x) in evs.iter().zip(expect.iter()) {
            if let Some(t) = e.strip_prefix('a') {
                lf.push(format!("o{t}"));
                if x == "done" {
                    lf_expect.push("acquired".into());
                    lf.push(format!("g{t}"));
                    lf_expect.push("done".into());
                } else {
                    lf_expect.push("refused".into());
                }
            } else if e.ends_with(":0:1") {
                lf.push("x".into());
                lf_expect.push("done".into());
            }
        }
        let resp = ctx.model.ask(&format!("C18 lockfile {}", if lf.is_empty() { "-".into() } else { lf.join(",") }));
        let mut parts = resp.split('|');
        let lf_outs: Vec<String> = parts.next().unwrap_or("").split(',').map(|s| s.to_string()).collect();
        let lf_file = parts.next().unwrap_or("?") == "1";
        let real_file = v.inner.exists(Path::new(LOCK)).unwrap_or(false) || !winners.is_empty();
        if !lf.is_empty() && (lf_outs != lf_expect || lf_file != (oks == 1)) {
            ctx.report.violation("model", "C18:lock-file-trace-differs-from-model", format!("lock-file operations {lf:?}: implementation {lf_expect:?} (winner holds: {}), model {lf_outs:?} file={lf_file}", oks == 1), case.clone());
        }
        let _ = real_file;
        let model_ok = model_outs.iter().filter(|o| o.starts_with("ok")).count();
        if model_ok != oks {
            ctx.report.violation("model", "C18:race-trace-differs-from-model", format!("model winners {model_ok}, real winners {oks}; trace {evs:?}"), case.clone());
        }
    }
    // the winner is undisturbed and releases on drop
    if let Some(mut wr) = winners.pop() {
        let d = w.good_doc(1);
        let r = catch_unwind(AssertUnwindSafe(|| -> tantivy::Result<()> {
            wr.add_document(d)?;
            wr.commit()?;
            Ok(())
        }));
        if !matches!(r, Ok(Ok(()))) {
            ctx.report.violation("oracle", "C18:first-writer-disturbed", format!("the winner of a race cannot add+commit: {:?}", r.map(|x| x.map_err(|e| format!("{e:?}")))), case.clone());
        }
        drop(wr);
    }
    drop(winners);
    let r = create_writer(&w.handles[1], 1, MIN, 1);
    let out = Outcome::of(&r);
    if out != Outcome::Ok {
        ctx.report.violation("oracle", "C18:lock-not-released-after-race", format!("after the race and the drop of its winner Index::writer -> {out:?} on {}", backend.name()), case);
    }
}

// ------------------------------------------------------------------------------------------
// second process (MmapDirectory)
// ------------------------------------------------------------------------------------------

fn model_path_arg() -> String {
    let args: Vec<String> = std::env::args().collect();
    args.iter().position(|a| a == "--model").and_then(|i| args.get(i + 1).cloned()).unwrap_or_else(|| "/verif/lean/.lake/build/bin/tvmodel".into())
}

fn spawn_child(case: &Value, dir: &Path) -> std::process::Child {
    let case_path = dir.join(format!("case_{}.json", crate::report::fnv(case.to_string().as_bytes())));
    std::fs::write(&case_path, case.to_string()).unwrap();
    std::process::Command::new(std::env::current_exe().unwrap())
        .args(["C18", "--replay", case_path.to_str().unwrap(), "--model", &model_path_arg(), "--out", "/dev/null"])
        .stdout(std::process::Stdio::null())
        .stderr(std::process::Stdio::null())
        .spawn()
        .expect("spawn child tvh")
}

fn child_main(case: &Value) {
    let path = PathBuf::from(case["path"].as_str().unwrap());
    let out = PathBuf::from(case["out"].as_str().unwrap());
    let index = Index::open_in_dir(&path).unwrap();
    let r = create_writer(&index, 1, MIN, 1);
    let o = Outcome::of(&r);
    std::fs::write(&out, o.model_name(0)).unwrap();
    if case["child"] == "hold" {
        // keep the writer until the parent asks for release (or kills this process)
        let rel = PathBuf::from(format!("{}.release", out.display()));
        let t0 = Instant::now();
        while !rel.exists() && t0.elapsed() < Duration::from_secs(20) {
            std::thread::sleep(Duration::from_millis(5));
        }
    }
    drop(r);
}

fn wait_for_file(p: &Path, secs: u64) -> Option<String> {
    let t0 = Instant::now();
    while t0.elapsed() < Duration::from_secs(secs) {
        if let Ok(s) = std::fs::read_to_string(p) {
            if !s.is_empty() {
                return Some(s);
            }
        }
        std::thread::sleep(Duration::from_millis(5));
    }
    None
}

fn two_process_round(ctx: &mut Ctx, variant: u64) {
    let case = json!({"kind": "two-process", "variant": variant});
    let w = World::new(Backend::Mmap);
    let dir = w.tmp.as_ref().unwrap().path().to_path_buf();
    let scratch = fast_tempdir();
    ctx.report.case(&format!("two-process variant {variant}"), true);
    ctx.report.count(&format!("two-process:variant={variant}"));
    let try_in_child = |tag: &str| -> Option<String> {
        let out = scratch.path().join(format!("{tag}.out"));
        let mut c = spawn_child(&json!({"child": "try", "path": dir.to_str().unwrap(), "out": out.to_str().unwrap()}), scratch.path());
        let _ = c.wait();
        std::fs::read_to_string(&out).ok()
    };
    match variant % 3 {
        0 => {
            // parent holds, child tries; parent drops, child tries again
            let wr = create_writer(&w.handles[0], 1, MIN, 1);
            if Outcome::of(&wr) != Outcome::Ok {
                ctx.report.violation("oracle", "C18:create-unexpected-outcome", "first writer on a fresh mmap index failed".into(), case.clone());
            }
            let a = try_in_child("a");
            if a.as_deref() != Some("busy") {
                ctx.report.violation("oracle", "C18:two-live-writers", format!("a second process got {a:?} while this process holds the writer (MmapDirectory)"), case.clone());
            }
            drop(wr);
            let b = try_in_child("b");
            if b.as_deref() != Some("ok0") {
                ctx.report.violation("oracle", "C18:lock-not-released-after-drop", format!("a second process got {b:?} after the writer was dropped (MmapDirectory)"), case.clone());
            }
        }
        k => {
            // child holds; parent tries (busy); child releases (k=1) or is killed (k=2); parent tries (ok)
            let out = scratch.path().join("hold.out");
            let mut c = spawn_child(&json!({"child": "hold", "path": dir.to_str().unwrap(), "out": out.to_str().unwrap()}), scratch.path());
            let got = wait_for_file(&out, 20);
            if got.as_deref() != Some("ok0") {
                ctx.report.violation("oracle", "C18:create-unexpected-outcome", format!("the child process could not create the writer: {got:?}"), case.clone());
            } else {
                let r = create_writer(&w.handles[1], 1, MIN, 1);
                let o = Outcome::of(&r);
                if o != Outcome::Busy {
                    ctx.report.violation("oracle", "C18:two-live-writers", format!("Index::writer -> {o:?} while another process holds the writer (MmapDirectory)"), case.clone());
                }
                drop(r);
            }
            if k == 1 {
                std::fs::write(format!("{}.release", out.display()), "x").unwrap();
            } else {
                let _ = c.kill();
            }
            let _ = c.wait();
            let r = create_writer(&w.handles[1], 1, MIN, 1);
            let o = Outcome::of(&r);
            if o != Outcome::Ok {
                ctx.report.violation("oracle", if k == 1 { "C18:lock-not-released-after-drop" } else { "C18:lock-not-released-after-process-exit" },
                    format!("Index::writer -> {o:?} after the other process {} (MmapDirectory)", if k == 1 { "dropped its writer" } else { "was killed" }), case.clone());
            }
        }
    }
}

// ------------------------------------------------------------------------------------------

fn check_constants(ctx: &mut Ctx) {
    // the harness' boundary values are the model's (extracted) constants
    let ok = ctx.model.ask(&format!("C18 argsok {MIN} 1")) == "1"
        && ctx.model.ask(&format!("C18 argsok {} 1", MIN - 1)) == "0"
        && ctx.model.ask(&format!("C18 argsok {} 1", MAX - 1)) == "1"
        && ctx.model.ask(&format!("C18 argsok {MAX} 1")) == "0"
        && ctx.model.ask(&format!("C18 argsok {MIN} 0")) == "0";
    if !ok {
        ctx.report.notes.push("the budget boundaries extracted from the source differ from the harness' generator constants; boundary values are no longer on the boundary".into());
        ctx.report.count("generator-boundaries-stale");
    }
}

pub fn run(ctx: &mut Ctx) {
    if let Some(case) = ctx.replay.clone() {
        if case.get("child").is_some() {
            child_main(&case);
            return;
        }
        replay(ctx, &case);
        return;
    }
    ctx.report.rule = "a lifecycle is non-trivial if at least one creation was refused with LockBusy and the lock was released at least once (drop / wait / failed construction) before a later creation; a racing round if ≥ 2 threads raced".into();
    ctx.report.correspondence_obligations = vec![
        "outcome of every Index::writer* / rollback / drop / wait_merging_threads call = model outcome (RamDirectory, MmapDirectory, VDir)".into(),
        "argument guards of IndexWriter::new at the extracted boundaries = model argsOk".into(),
        "lock file present iff the model holds the lock, after every operation (RamDirectory, VDir)".into(),
        "per-thread lock-file operations of racing creations, arranged into a linearisation, form a run of the model with the same outcomes (VDir)".into(),
        "the same operations as open_write / guard-built / guard-dropped events form a run of the lock-file model (Model/LockFile.lean, extracted code shape) with the same outcomes and the same final file state (VDir)".into(),
        "oracle: never two live writers; LockBusy iff a writer is alive; first writer undisturbed; lock file untouched during rollback; new writer after kill+drop; second process sees the lock (MmapDirectory)".into(),
    ];
    check_constants(ctx);
    let lifecycles = ctx.budget(500, 4_000); // thorough sized to stay under ~15 min on the shared machine
    let backends = [Backend::Ram, Backend::Mmap, Backend::V];
    for n in 0..lifecycles {
        for &b in &backends {
            let len = 6 + ctx.rng.usize_below(10);
            let mut rng = ctx.rng.fork();
            let ops = gen_ops(&mut rng, b, len);
            let t0 = Instant::now();
            let res = run_lifecycle(ctx, b, &ops);
            ctx.report.count_n(&format!("time-ms:lifecycles:{}", b.name()), t0.elapsed().as_millis() as u64);
            compare_with_model(ctx, b, &ops, &res);
            let canon = format!("{} {}", b.name(), res.model_events.join(","));
            ctx.report.case(&canon, res.nontrivial);
            ctx.report.count_n("ops", res.ops_run as u64);
            if n < 2 && b == Backend::V {
                ctx.report.sample(json!({"backend": b.name(), "events": res.model_events, "outcomes": res.real_outs}));
            }
        }
    }
    // racing creations
    let rounds = ctx.budget(300, 1_500);
    for r in 0..rounds {
        let b = backends[(r % 3) as usize];
        let n = 2 + ctx.rng.usize_below(7);
        let mask = if ctx.rng.chance(1, 3) { (ctx.rng.next_u64() as u32) & ((1 << n) - 1) } else { 0 };
        let t0 = Instant::now();
        race_round(ctx, b, n, mask, r);
        ctx.report.count_n(&format!("time-ms:races:{}", b.name()), t0.elapsed().as_millis() as u64);
    }
    // second process
    let procs = ctx.budget(6, 30);
    for v in 0..procs {
        two_process_round(ctx, v);
    }
    ctx.report.sample(json!({"racing_rounds": rounds, "two_process_rounds": procs}));
}

fn replay(ctx: &mut Ctx, case: &Value) {
    match case["kind"].as_str() {
        Some("lifecycle") => {
            let b = Backend::parse(case["backend"].as_str().unwrap_or("")).expect("backend");
            let ops: Vec<Op> = case["ops"].as_array().expect("ops").iter().map(|o| Op::from_json(o).expect("op")).collect();
            let res = run_lifecycle(ctx, b, &ops);
            compare_with_model(ctx, b, &ops, &res);
            ctx.report.case("replay", true);
        }
        Some("race") => {
            let b = Backend::parse(case["backend"].as_str().unwrap_or("")).expect("backend");
            let n = case["threads"].as_u64().unwrap_or(2) as usize;
            let mask = case["invalid_mask"].as_u64().unwrap_or(0) as u32;
            for r in 0..200 {
                race_round(ctx, b, n, mask, r);
            }
        }
        Some("two-process") => two_process_round(ctx, case["variant"].as_u64().unwrap_or(0)),
        _ => ctx.report.notes.push("C18: unknown replay case".into()),
    }
}
