//! C15, second half: cross-decoding, writer order check, merges, fst term dictionary, columnar.
use super::*;
use crate::c15_with_aut;
use tantivy_sstable::merge::{KeepFirst, VoidMerge};

/// raw blocks of a real sstable file: (compressed?, payload)
fn raw_blocks(file: &[u8]) -> Vec<(bool, Vec<u8>)> {
    let mut out = vec![];
    let mut p = 0usize;
    while p + 4 <= file.len() {
        let len = u32::from_le_bytes(file[p..p + 4].try_into().unwrap()) as usize;
        if len <= 1 {
            break;
        }
        let c = file[p + 4];
        out.push((c == 1, file[p + 5..p + 4 + len].to_vec()));
        p += 4 + len;
    }
    out
}

pub fn cross_decode(ctx: &mut Ctx, case: &DictCase) {
    let built = match case.vk.as_str() {
        "void" => real_build(&void_codec(), case.block_len, &case.keys, &case.vals),
        "u64" => real_build(&u64_codec(), case.block_len, &case.keys, &case.vals),
        _ => real_build(&range_codec(), case.block_len, &case.keys, &case.vals),
    };
    let Ok(file) = built else { return };
    if file.len() > 150_000 {
        ctx.report.count("cross-decode:skipped-large-file");
        return;
    }
    let bl = case.block_len.unwrap_or(4000);
    let layout = model_layout(ctx, bl, &case.keys);
    let resp = ctx.model.ask(&format!("C15 decode {} {}", case.vk, hex(&file)));
    let mut cj = case.json("cross-decode");
    cj["kind"] = json!("cross-decode");
    ctx.report.case(&format!("xdec|{}|{:?}|{}", case.vk, case.block_len, fnv_keys(&case.keys)), case.keys.len() >= 2);
    let (blocks_s, foot) = match resp.split_once('|') {
        Some(x) => x,
        None => {
            ctx.report.violation("model", "C15:cross-decode", format!("model could not parse a real file: {}", &resp[..resp.len().min(60)]), cj);
            return;
        }
    };
    if foot != format!("n={},v=3", case.keys.len()) {
        ctx.report.violation("model", "C15:cross-decode-footer", format!("footer read by the model: {foot}, expected n={},v=3", case.keys.len()), cj.clone());
    }
    let blocks: Vec<&str> = if blocks_s == "_" { vec![] } else { blocks_s.split(';').collect() };
    if blocks.len() != layout.len() {
        ctx.report.violation("model", "C15:block-cut-model", format!("real file has {} blocks, model layout {}", blocks.len(), layout.len()), cj);
        return;
    }
    for (b, l) in blocks.iter().zip(layout.iter()) {
        let (first, len) = (l.0 as usize, l.1 as usize);
        if *b == "Z" {
            ctx.report.count("cross-decode:zstd-block-skipped");
            continue;
        }
        ctx.report.count("cross-decode:plain-block");
        let f: Vec<&str> = b[1..].split('/').collect();
        let ks = parse_keys(f[0]);
        let want = &case.keys[first.min(case.keys.len())..(first + len).min(case.keys.len())];
        let mut ok = ks.as_slice() == want;
        if ok && case.vk != "void" {
            let vs: Vec<u64> = crate::model::parse_nat_list(&f[1].replace('_', "-")).unwrap_or_default();
            ok = vs == case.vals[first..first + len].iter().map(|v| v.0).collect::<Vec<_>>();
            if ok && case.vk == "range" {
                let es: Vec<u64> = crate::model::parse_nat_list(&f[2].replace('_', "-")).unwrap_or_default();
                ok = es == case.vals[first..first + len].iter().map(|v| v.1).collect::<Vec<_>>();
            }
        }
        if !ok {
            ctx.report.violation("model", "C15:cross-decode", format!("Lean delta model decodes block at ordinal {first} of a real {} file differently ({} keys decoded, {} expected)", case.vk, ks.len(), len), cj.clone());
            return;
        }
    }
    // the block-address store of the real index (bit-packed, grouped by STORE_BLOCK_LEN) decoded
    // by the model: (first ordinal, byte range) of every block, and the ordinal → block search
    {
        let n = case.keys.len() as u64;
        let probes: Vec<u64> = {
            let mut p = vec![0, 1, n / 2, n.saturating_sub(1), n, n + 7];
            for l in layout.iter().take(300).step_by(7) {
                p.push(l.0);
                p.push(l.0 + l.1 - 1);
                p.push(l.0 + l.1);
            }
            p
        };
        let resp = ctx.model.ask(&format!("C15 index {} {}", hex(&file), nats_field(&probes)));
        // expected addresses: byte ranges from the raw framing, first ordinals from the layout
        let mut expected = vec![];
        let mut p = 0usize;
        for l in layout.iter() {
            if p + 4 > file.len() {
                break;
            }
            let len = u32::from_le_bytes(file[p..p + 4].try_into().unwrap()) as usize;
            expected.push(format!("{}:{}:{}", l.0, p, p + 4 + len));
            p += 4 + len;
        }
        if layout.len() <= 1 {
            ctx.report.count("index-store:absent(<=1 block)");
            if resp != "empty" {
                ctx.report.violation("model", "C15:index-store-model", format!("a file with {} blocks should carry no index, model read {}", layout.len(), &resp[..resp.len().min(60)]), cj.clone());
            }
        } else {
            ctx.report.count(&format!("index-store:groups-{}", (layout.len() + 127) / 128));
            let want_ids: Vec<u64> = probes.iter().map(|o| layout.iter().rposition(|l| l.0 <= *o).unwrap_or(0) as u64).collect();
            // third part: the writer model (`groupFields` + `bitPack`) re-encodes every store block to
            // the bytes of the file, with the slopes / widths read from the metadata
            let want = format!("{}|{}|reenc=1", expected.join(","), nats_field(&want_ids));
            if resp != want {
                let (ra, wa) = (resp.split('|').next().unwrap_or(""), want.split('|').next().unwrap_or(""));
                let what = if ra != wa { "block addresses" } else if resp.ends_with("reenc=0") { "bytes when re-encoding the store blocks with the writer model" } else { "ordinal → block search" };
                ctx.report.violation("model", "C15:index-store-model", format!("Lean block-address-store model reads different {what} from the real index bytes ({} blocks)", layout.len()), cj.clone());
            }
            // the real index agrees with the same addresses (through the public routing call)
            let opened = match case.vk.as_str() {
                "void" => Dictionary::<VoidSSTable>::from_bytes(OwnedBytes::new(file.clone())).ok().map(|d| d.sstable_index),
                "u64" => Dictionary::<MonotonicU64SSTable>::from_bytes(OwnedBytes::new(file.clone())).ok().map(|d| d.sstable_index),
                _ => Dictionary::<RangeSSTable>::from_bytes(OwnedBytes::new(file.clone())).ok().map(|d| d.sstable_index),
            };
            if let Some(idx) = opened {
                for (i, l) in layout.iter().enumerate().take(400) {
                    let k = &case.keys[l.0 as usize];
                    let got = idx.get_block_with_key(k).map(|a| format!("{}:{}:{}", a.first_ordinal, a.byte_range.start, a.byte_range.end));
                    if got.as_deref() != expected.get(i).map(|s| s.as_str()) {
                        ctx.report.violation("oracle", "C15:index-block-address", format!("get_block_with_key(first key of block {i}) = {:?}, the block lies at {:?}", got, expected.get(i)), cj.clone());
                        break;
                    }
                }
            }
        }
    }
    // `ord_to_term` computed by the model from the BYTES of the real file (footer → index region →
    // block-address store → byte range → frame → value block skipped → front-coded keys)
    {
        let n = case.keys.len() as u64;
        let mut probes: Vec<u64> = vec![0, 1, n / 2, n.saturating_sub(1), n, n + 7];
        for l in layout.iter().skip(1).take(2) {
            probes.push(l.0.saturating_sub(1));
            probes.push(l.0);
        }
        let resp = ctx.model.ask(&format!("C15 o2t {} {} {}", case.vk, hex(&file), nats_field(&probes)));
        let got: Vec<&str> = resp.split(',').collect();
        if got.len() != probes.len() {
            ctx.report.violation("model", "C15:file-ord-to-term-model", format!("model answered {} for {} probes", &resp[..resp.len().min(60)], probes.len()), cj.clone());
        } else {
            for (o, g) in probes.iter().zip(got.iter()) {
                let want = if *o < n { format!("k{}", hex(&case.keys[*o as usize])) } else { "-".to_string() };
                let zblock = layout.iter().rposition(|l| l.0 <= *o).map(|i| blocks[i] == "Z").unwrap_or(false);
                if *g == "Z" && zblock {
                    ctx.report.count("file-ord-to-term:zstd-block-skipped");
                    continue;
                }
                ctx.report.count("file-ord-to-term:compared");
                if *g != want {
                    ctx.report.violation("model", "C15:file-ord-to-term-model", format!("ord_to_term({o}) computed by the Lean model from the bytes of a real {} file gives {g}, the dictionary holds {want}", case.vk), cj.clone());
                    break;
                }
            }
        }
    }
    // `get_block_with_key` of the real index (tantivy-fst + block-address store) against the model:
    // separator routing of the Lean block model (= the FST under its stated contract), address
    // read by the Lean store model from the bytes of the real file
    if case.keys.len() <= 1500 {
        let mut probes: Vec<Vec<u8>> = vec![vec![], vec![0xff, 0xff, 0xff, 0xff]];
        for l in layout.iter().take(40).step_by(3) {
            let first = case.keys[l.0 as usize].clone();
            let last = case.keys[(l.0 + l.1 - 1) as usize].clone();
            let mut after = last.clone();
            after.push(0);
            probes.push(first);
            probes.push(last);
            probes.push(after);
        }
        let real: Option<Vec<(String, String, String)>> = {
            let fa = |a: Option<tantivy_sstable::BlockAddr>| a.map(|a| format!("{}:{}:{}", a.first_ordinal, a.byte_range.start, a.byte_range.end)).unwrap_or_else(|| "-".to_string());
            let fh = |h: std::io::Result<tantivy_sstable::TermOrdHit>| match h {
                Ok(tantivy_sstable::TermOrdHit::Exact(o)) => format!("e{o}"),
                Ok(tantivy_sstable::TermOrdHit::Next(o)) => if o == u64::MAX { "nmax".to_string() } else { format!("n{o}") },
                Err(_) => "err".to_string(),
            };
            match case.vk.as_str() {
                "void" => Dictionary::<VoidSSTable>::from_bytes(OwnedBytes::new(file.clone())).ok().map(|d| probes.iter().map(|k| (fa(d.sstable_index.get_block_with_key(k)), fh(d.term_ord_or_next(k)), match d.get(k) { Ok(Some(())) => "v0".to_string(), Ok(None) => "-".to_string(), Err(_) => "err".to_string() })).collect()),
                "u64" => Dictionary::<MonotonicU64SSTable>::from_bytes(OwnedBytes::new(file.clone())).ok().map(|d| probes.iter().map(|k| (fa(d.sstable_index.get_block_with_key(k)), fh(d.term_ord_or_next(k)), match d.get(k) { Ok(Some(v)) => format!("v{v}"), Ok(None) => "-".to_string(), Err(_) => "err".to_string() })).collect()),
                _ => Dictionary::<RangeSSTable>::from_bytes(OwnedBytes::new(file.clone())).ok().map(|d| probes.iter().map(|k| (fa(d.sstable_index.get_block_with_key(k)), fh(d.term_ord_or_next(k)), match d.get(k) { Ok(Some(v)) => format!("v{}", v.start), Ok(None) => "-".to_string(), Err(_) => "err".to_string() })).collect()),
            }
        };
        if let Some(real) = real {
            let resp = ctx.model.ask(&format!("C15 kblk {} {} {} {} {}", case.vk, hex(&file), bl, keys_field(&case.keys), keys_field(&probes)));
            ctx.report.count("file-block-for-key:compared");
            let got: Vec<&str> = resp.split(';').collect();
            if got.len() != real.len() {
                ctx.report.violation("model", "C15:file-block-for-key-model", format!("model answered {} for {} probe keys", &resp[..resp.len().min(60)], real.len()), cj.clone());
            } else {
                for (g, (ra, rh, rg)) in got.iter().zip(real.iter()) {
                    let parts3: Vec<&str> = g.split('/').collect();
                    let (ga, gh, gg) = (parts3.first().copied().unwrap_or("?"), parts3.get(1).copied().unwrap_or("?"), parts3.get(2).copied().unwrap_or("?"));
                    if ga != ra {
                        ctx.report.violation("model", "C15:file-block-for-key-model", format!("get_block_with_key: real index {ra}, Lean model (separator routing + store decoded from the file bytes) {ga}"), cj.clone());
                        break;
                    }
                    if gh == "Z" {
                        ctx.report.count("file-term-ord:zstd-block-skipped");
                        continue;
                    }
                    ctx.report.count("file-term-ord:compared");
                    if gh != rh {
                        ctx.report.violation("model", "C15:file-term-ord-model", format!("term_ord_or_next computed by the Lean model from the bytes of a real {} file gives {gh}, the real dictionary {rh}", case.vk), cj.clone());
                        break;
                    }
                    ctx.report.count("file-get:compared");
                    if gg != rg {
                        ctx.report.violation("model", "C15:file-get-model", format!("get computed by the Lean model from the bytes of a real {} file gives {gg}, the real dictionary {rg}", case.vk), cj.clone());
                        break;
                    }
                }
            }
        }
    }
    // reverse direction (void values): blocks encoded by the model, read by the real Reader,
    // and byte-equal to what the real writer wrote
    if case.vk == "void" {
        let enc = ctx.model.ask(&format!("C15 encode {} {}", bl, keys_field(&case.keys)));
        let mblocks: Vec<Vec<u8>> = if enc == "_" { vec![] } else { enc.split(',').map(|h| unhex(h).unwrap_or_default()).collect() };
        let mut f = vec![];
        for b in &mblocks {
            f.extend(((b.len() + 1) as u32).to_le_bytes());
            f.push(0);
            f.extend(b);
        }
        f.extend(0u32.to_le_bytes());
        let read = catch_unwind(AssertUnwindSafe(|| {
            let mut r = VoidSSTable::reader(OwnedBytes::new(f));
            let mut out = vec![];
            while r.advance().unwrap_or(false) {
                out.push(r.key().to_vec());
            }
            out
        }));
        if read.as_ref().ok() != Some(&case.keys) {
            ctx.report.violation("model", "C15:cross-encode", "the real Reader does not read back the blocks encoded by the Lean model".into(), cj.clone());
        }
        for (i, (z, payload)) in raw_blocks(&file).iter().enumerate() {
            if !*z && mblocks.get(i) != Some(payload) {
                ctx.report.violation("model", "C15:block-bytes-model", format!("block {i}: real writer bytes differ from the model's"), cj.clone());
                break;
            }
        }
        ctx.report.count("cross-encode:real-reader-on-model-bytes");
    }
}

/// first index at which the real writer rejects (panic or Err), `None` if everything is accepted
fn real_first_rejected(block_len: Option<usize>, keys: &[Vec<u8>]) -> Option<usize> {
    let vals = vec![(0, 0); keys.len()];
    match real_build(&void_codec(), block_len, keys, &vals) {
        Ok(_) => None,
        Err(i) => Some(i),
    }
}

fn judge_insertion(ctx: &mut Ctx, block_len: Option<usize>, keys: &[Vec<u8>], what: &str) {
    let bl = block_len.unwrap_or(4000);
    let real = real_first_rejected(block_len, keys);
    let model = ctx.model.ask(&format!("C15 insert {} {}", bl, keys_field(keys)));
    let shown = match real {
        None => "ok".to_string(),
        Some(i) => format!("panic:{i}"),
    };
    let case = json!({"kind": "insert", "block_len": block_len, "keys": keys_field(keys), "mutation": what});
    ctx.report.case(&format!("ins|{:?}|{}", block_len, fnv_keys(keys)), keys.len() >= 2);
    ctx.report.count(&format!("insert:{what}"));
    ctx.report.count(&format!("insert-verdict:{}", if real.is_none() { "accepted" } else { "rejected" }));
    let limit = real.unwrap_or(keys.len());
    // oracle: every non-increasing adjacent pair before the first rejection was silently accepted
    let mut reported = false;
    for i in 1..keys.len() {
        let bad_pair = keys[i - 1] >= keys[i];
        if bad_pair && i < limit {
            let f6 = keys[i - 1].is_empty() && keys[i].is_empty();
            if f6 {
                ctx.report.violation("oracle", KEY_F6, format!("Writer accepted the empty key twice (keys[{}] and keys[{i}], block_len {bl})", i - 1), case.clone());
            } else {
                ctx.report.violation("oracle", "C15:out-of-order-accepted", format!("Writer silently accepted key {i} ({}) after {} (block_len {bl})", hex(&keys[i]), hex(&keys[i - 1])), case.clone());
            }
            reported = true;
        }
        if i == limit && !bad_pair {
            ctx.report.violation("oracle", "C15:in-order-key-rejected", format!("Writer rejected key {i} although it is greater than its predecessor (block_len {bl})"), case.clone());
            reported = true;
        }
    }
    if limit == 0 && !keys.is_empty() {
        ctx.report.violation("oracle", "C15:in-order-key-rejected", "Writer rejected the first key".into(), case.clone());
        reported = true;
    }
    if shown != model && !(reported && shown == model) {
        ctx.report.violation("model", "C15:writer-verdict-model", format!("real writer {shown}, model writer {model} ({what})"), case);
    }
}

pub fn insertion_order(ctx: &mut Ctx, rng: &mut Rng) {
    let (_, mut keys) = gen_keys(rng, false);
    keys.truncate(60);
    if keys.len() < 2 {
        keys = vec![vec![], vec![1], vec![1, 2], vec![2]];
    }
    let block_len = match rng.below(6) {
        0 => Some(0),
        1 => Some(1),
        2 => Some(2 + rng.usize_below(30)),
        3 => Some(30 + rng.usize_below(200)),
        _ => None,
    };
    let layout = model_layout(ctx, block_len.unwrap_or(4000), &keys);
    let n = keys.len();
    let what;
    match rng.below(8) {
        0 => {
            what = "sorted";
        }
        1 => {
            what = "duplicate";
            let i = rng.usize_below(n);
            let k = keys[i].clone();
            keys.insert(i, k);
        }
        2 => {
            what = "swap-adjacent";
            let i = rng.usize_below(n - 1);
            keys.swap(i, i + 1);
        }
        3 => {
            what = "smaller-key-later";
            let i = 1 + rng.usize_below(n - 1);
            let j = rng.usize_below(i);
            let k = keys[j].clone();
            keys.insert(i + 1, k);
        }
        4 if layout.len() >= 2 => {
            // the first key of a later block is not above the last key of the previous block
            what = "out-of-order-at-block-boundary";
            let b = 1 + rng.usize_below(layout.len() - 1);
            let first = layout[b].0 as usize;
            let prev = keys[first - 1].clone();
            keys[first] = match rng.below(3) {
                0 => prev,
                1 => prev[..prev.len().saturating_sub(1)].to_vec(),
                _ => keys[rng.usize_below(first)].clone(),
            };
            keys.truncate(first + 1 + rng.usize_below(3).min(n - first - 1));
        }
        5 => {
            what = "empty-key-twice-at-start";
            keys.retain(|k| !k.is_empty());
            keys.insert(0, vec![]);
            keys.insert(0, vec![]);
            if rng.chance(1, 3) {
                keys.insert(0, vec![]);
            }
        }
        6 => {
            what = "empty-key-later";
            keys.retain(|k| !k.is_empty());
            let i = 1 + rng.usize_below(keys.len());
            keys.insert(i, vec![]);
        }
        _ => {
            what = "prefix-of-previous";
            let i = rng.usize_below(n);
            if keys[i].len() >= 1 {
                let k = keys[i][..rng.usize_below(keys[i].len())].to_vec();
                keys.insert(i + 1, k);
            }
        }
    }
    judge_insertion(ctx, block_len, &keys, what);
}

/// stored witnesses first: the F6 shape and its neighbours
pub fn corpus(ctx: &mut Ctx) {
    for bl in [None, Some(0usize), Some(1), Some(2), Some(5)] {
        judge_insertion(ctx, bl, &[vec![], vec![]], "corpus:empty-empty");
        judge_insertion(ctx, bl, &[vec![], vec![], vec![1]], "corpus:empty-empty-then-key");
        judge_insertion(ctx, bl, &[vec![1], vec![1]], "corpus:dup-nonempty");
        judge_insertion(ctx, bl, &[vec![1], vec![]], "corpus:empty-after-key");
        judge_insertion(ctx, bl, &[vec![1, 2], vec![1]], "corpus:prefix-after-key");
        judge_insertion(ctx, bl, &[vec![0], vec![0, 0], vec![0]], "corpus:back-to-first");
    }
}

pub fn replay(ctx: &mut Ctx, case: &Value) {
    match case["kind"].as_str().unwrap_or("") {
        "sstable" | "cross-decode" => {
            if let Some(c) = DictCase::from_json(case) {
                if case["kind"] == "cross-decode" {
                    cross_decode(ctx, &c);
                } else {
                    run_case(ctx, &c);
                }
            }
        }
        "insert" => {
            let keys = parse_keys(case["keys"].as_str().unwrap_or("_"));
            judge_insertion(ctx, case["block_len"].as_u64().map(|x| x as usize), &keys, case["mutation"].as_str().unwrap_or("replay"));
        }
        "merge" => {
            let inputs: Vec<Vec<Vec<u8>>> = case["inputs"].as_array().map(|a| a.iter().map(|s| parse_keys(s.as_str().unwrap_or("_"))).collect()).unwrap_or_default();
            check_merge(ctx, &inputs, case["vk"].as_str().unwrap_or("void"), case["block_len"].as_u64().map(|x| x as usize));
        }
        other => ctx.report.notes.push(format!("replay kind {other}: re-run the generated stream with the recorded seed")),
    }
}

fn build_file(vk: &str, block_len: Option<usize>, keys: &[Vec<u8>], rank: &BTreeMap<Vec<u8>, u64>) -> Option<Vec<u8>> {
    let vals: Vec<V2> = keys.iter().map(|k| (rank[k], 0)).collect();
    if vk == "void" {
        real_build(&void_codec(), block_len, keys, &vals).ok()
    } else {
        real_build(&u64_codec(), block_len, keys, &vals).ok()
    }
}

fn stream_all<T: SSTable>(codec: &Codec<T>, bytes: Vec<u8>) -> Option<(Dictionary<T>, Vec<(Vec<u8>, u64)>)> {
    let d = Dictionary::<T>::from_bytes(OwnedBytes::new(bytes)).ok()?;
    let items = real_stream::<T, PrefixAut>(&d, codec, None, &Bnd::U, &Bnd::U, None).ok()?;
    Some((d, items.into_iter().map(|e| (e.1, e.2 .0)).collect()))
}

pub fn check_merge(ctx: &mut Ctx, inputs: &[Vec<Vec<u8>>], vk: &str, block_len: Option<usize>) {
    let mut rank: BTreeMap<Vec<u8>, u64> = BTreeMap::new();
    for i in inputs {
        for k in i {
            rank.insert(k.clone(), 0);
        }
    }
    for (i, (_, v)) in rank.iter_mut().enumerate() {
        *v = if vk == "void" { 0 } else { 3 * i as u64 + 1 };
    }
    let case = json!({"kind": "merge", "vk": vk, "block_len": block_len, "inputs": inputs.iter().map(|i| keys_field(i)).collect::<Vec<_>>()});
    ctx.report.case(&format!("merge|{vk}|{:?}|{}", block_len, inputs.iter().map(|i| fnv_keys(i).to_string()).collect::<Vec<_>>().join(",")), inputs.len() >= 2);
    ctx.report.count(&format!("merge:inputs-{}", inputs.len()));
    let files: Vec<Vec<u8>> = match inputs.iter().map(|i| build_file(vk, block_len, i, &rank)).collect::<Option<Vec<_>>>() {
        Some(f) => f,
        None => return,
    };
    let readers: Vec<OwnedBytes> = files.iter().map(|f| OwnedBytes::new(f.clone())).collect();
    let mut out: Vec<u8> = vec![];
    let r = catch_unwind(AssertUnwindSafe(|| {
        if vk == "void" {
            VoidSSTable::merge(readers, &mut out, VoidMerge)
        } else {
            MonotonicU64SSTable::merge(readers, &mut out, KeepFirst)
        }
    }));
    if !matches!(r, Ok(Ok(()))) {
        ctx.report.violation("oracle", "C15:merge-panics", "sstable merge panicked or failed".into(), case);
        return;
    }
    let merged: Option<(Vec<(Vec<u8>, u64)>, Vec<Vec<Option<u64>>>)> = if vk == "void" {
        stream_all(&void_codec(), out).map(|(d, items)| (items, inputs.iter().map(|i| i.iter().map(|k| d.term_ord(k).ok().flatten()).collect()).collect()))
    } else {
        stream_all(&u64_codec(), out).map(|(d, items)| (items, inputs.iter().map(|i| i.iter().map(|k| d.term_ord(k).ok().flatten()).collect()).collect()))
    };
    let Some((items, tables)) = merged else {
        ctx.report.violation("oracle", "C15:merge-unreadable", "merged sstable cannot be opened / streamed".into(), case);
        return;
    };
    // oracle: sorted union, values, monotone total ordinal tables
    let want: Vec<(Vec<u8>, u64)> = rank.iter().map(|(k, v)| (k.clone(), *v)).collect();
    if items != want {
        ctx.report.violation("oracle", "C15:merge-not-sorted-union", format!("merged dictionary has {} keys, sorted union {}", items.len(), want.len()), case.clone());
        return;
    }
    for (inp, t) in inputs.iter().zip(tables.iter()) {
        let good = t.iter().all(|o| o.is_some()) && t.windows(2).all(|w| w[0] < w[1]) && inp.iter().zip(t.iter()).all(|(k, o)| want.get(o.unwrap() as usize).map(|e| &e.0) == Some(k));
        if !good {
            ctx.report.violation("oracle", "C15:merge-ordinal-map", "old→new ordinal table of a merge input is not total / monotone / key preserving".into(), case.clone());
            return;
        }
    }
    // Lean: mergeSpec and k-way merge
    let comb = if vk == "void" { "void" } else { "first" };
    let line = format!("C15 merge {} {}", comb, inputs.iter().map(|i| format!("{}/{}", keys_field(i), nats_field(&i.iter().map(|k| rank[k]).collect::<Vec<_>>()))).collect::<Vec<_>>().join(" "));
    let resp = ctx.model.ask(&line);
    let real_s = format!(
        "{}/{}/{}",
        keys_field(&items.iter().map(|e| e.0.clone()).collect::<Vec<_>>()),
        nats_field(&items.iter().map(|e| e.1).collect::<Vec<_>>()),
        tables.iter().map(|t| if t.is_empty() { "_".to_string() } else { t.iter().map(|o| o.map(|v| v.to_string()).unwrap_or("x".into())).collect::<Vec<_>>().join(",") }).collect::<Vec<_>>().join("|")
    );
    let halves: Vec<&str> = resp.split('~').collect();
    if halves.first() != Some(&real_s.as_str()) {
        ctx.report.violation("oracle", "C15:merge-vs-lean-spec", format!("real merge {} … differs from Lean mergeSpec {} …", &real_s[..real_s.len().min(80)], &resp[..resp.len().min(80)]), case.clone());
    } else if halves.get(1) != Some(&real_s.as_str()) {
        ctx.report.violation("model", "C15:merge-model", "real merge differs from the Lean k-way merge model".into(), case);
    }
}

pub fn merges(ctx: &mut Ctx, rng: &mut Rng) {
    let (_, universe) = gen_keys(rng, false);
    let universe: Vec<Vec<u8>> = universe.into_iter().take(200).collect();
    let k = 1 + rng.usize_below(4);
    let mut inputs = vec![];
    for _ in 0..k {
        let dens = 1 + rng.below(4);
        let keys: Vec<Vec<u8>> = universe.iter().filter(|_| rng.chance(dens, 4)).cloned().collect();
        inputs.push(keys);
    }
    if rng.chance(1, 6) {
        inputs.push(vec![]);
    }
    let vk = if rng.chance(1, 2) { "void" } else { "u64" };
    let block_len = match rng.below(4) {
        0 => Some(0),
        1 => Some(1 + rng.usize_below(40)),
        _ => None,
    };
    check_merge(ctx, &inputs, vk, block_len);
}

/// the bit packer the block-address store is written with, against the Lean `bitPack`
pub fn bitpacker(ctx: &mut Ctx, rng: &mut Rng) {
    let n = rng.usize_below(40);
    let mut vals = vec![];
    let mut widths = vec![];
    for _ in 0..n {
        let w = *rng.pick(&[1u64, 2, 7, 8, 9, 13, 31, 32, 33, 47, 55, 56, 63, 64]);
        let v = if w == 64 { rng.next_u64() } else { rng.next_u64() & ((1u64 << w) - 1) };
        let v = if rng.chance(1, 8) { if w == 64 { u64::MAX } else { (1u64 << w) - 1 } } else { v };
        vals.push(v);
        widths.push(w);
    }
    let mut out: Vec<u8> = vec![];
    let mut bp = tantivy_bitpacker::BitPacker::new();
    for (v, w) in vals.iter().zip(widths.iter()) {
        bp.write(*v, *w as u8, &mut out).unwrap();
    }
    bp.flush(&mut out).unwrap();
    let model = ctx.model.ask(&format!("C15 bitpack {} {}", nats_field(&vals), nats_field(&widths)));
    ctx.report.case(&format!("bitpack|{}|{}", nats_field(&vals), nats_field(&widths)), n >= 2);
    ctx.report.count("bitpack:cases");
    if model != hex(&out) {
        ctx.report.violation("model", "C15:bitpacker-model", format!("BitPacker wrote {} for {} fields, the Lean bitPack {}", hex(&out), n, model), json!({"kind": "bitpack", "vals": nats_field(&vals), "widths": nats_field(&widths)}));
    }
}

include!("c15_fst_col.rs");
