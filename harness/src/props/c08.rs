//! C08 — fast fields return exactly the values that were indexed.
//!
//! Sections (each case = one forked SplitMix64 seed, replayable from `{"kind","case_seed"}`):
//!  * `bitpack`  tantivy-bitpacker `BitPacker`/`BitUnpacker` vs `Model/Columnar/BitPacker.lean`
//!  * `codec`    `serialize_u64_based_column_values` with each codec forced / `load_…` vs `Codec.lean`
//!  * `optidx`   optional index rank/select/contains vs brute force and `OptionalIndex.lean`
//!  * `columnar` `ColumnarWriter -> serialize -> ColumnarReader`, all types and cardinalities
//!  * `merge`    `merge_columnar` Stack / Shuffled (deletes, differing column sets, coercion)
//!  * `tantivy`  `SegmentReader::fast_fields()` after indexing / deleting / merging
//! Oracle violations (implementation alone) and model disagreements are reported separately.
use crate::model::{hex, nat_list, parse_nat_list, unhex};
use crate::rng::Rng;
use crate::Ctx;
use serde_json::{json, Value};
use std::panic::{catch_unwind, AssertUnwindSafe};
use tantivy_bitpacker::{BitPacker, BitUnpacker, BlockedBitpacker};
use tantivy_columnar::column_index::{
    open_column_index, serialize_column_index, SerializableColumnIndex, SerializableOptionalIndex, Set,
};
use tantivy_columnar::column_values::{
    load_u64_based_column_values, serialize_u64_based_column_values, CodecType,
};
use tantivy_columnar::{ColumnIndex, MonotonicallyMappableToU64, Version};
use tantivy_common::OwnedBytes;

#[path = "c08_columnar.rs"]
mod columnar_part;
#[path = "c08_tantivy.rs"]
mod tantivy_part;

pub(crate) const ELEMENTS_PER_BLOCK: u32 = 65_536; // cross-checked against Gen by `consts` below
pub(crate) const DENSE_BLOCK_THRESHOLD: u32 = 5_120;
pub(crate) const BLOCKWISE_BLOCK: usize = 512;

pub(crate) fn oracle(ctx: &mut Ctx, key: &str, what: String, case: &Value) {
    ctx.report.violation("oracle", key, what, case.clone());
}
pub(crate) fn modelv(ctx: &mut Ctx, key: &str, what: String, case: &Value) {
    ctx.report.violation("model", key, what, case.clone());
}

/// boundary-biased size
pub(crate) fn pick_len(rng: &mut Rng, big_ok: bool) -> usize {
    let small = [0usize, 1, 2, 3, 7, 8, 9, 31, 32, 33, 63, 64, 65, 127, 128, 129, 255, 256, 257, 511, 512, 513, 1023, 1024, 1025, 1535, 1536, 1537];
    match rng.below(20) {
        0..=9 => *rng.pick(&small),
        10..=15 => rng.usize_below(2000),
        16..=17 => 2000 + rng.usize_below(4000),
        18 if big_ok => *rng.pick(&[5119usize, 5120, 5121, 65_535, 65_536, 65_537]),
        19 if big_ok => 65_000 + rng.usize_below(6000),
        _ => rng.usize_below(600),
    }
}

/// indices to probe: all when small, else boundaries + random
pub(crate) fn probe_indices(rng: &mut Rng, n: usize, all_below: usize, extra: usize) -> Vec<usize> {
    if n <= all_below {
        return (0..n).collect();
    }
    let mut v: Vec<usize> = vec![0, 1, n - 1, n - 2, n / 2];
    for b in [64usize, 512, 1024, 5120, 65_536] {
        for k in 1..=3 {
            for d in [-1i64, 0, 1] {
                let x = (b * k) as i64 + d;
                if x >= 0 && (x as usize) < n {
                    v.push(x as usize);
                }
            }
        }
    }
    for _ in 0..extra {
        v.push(rng.usize_below(n));
    }
    v.sort();
    v.dedup();
    v
}

/// uniform below a random power of two `< 2^max_bits`
pub(crate) fn p2(rng: &mut Rng, max_bits: u64) -> u64 {
    let s = rng.below(max_bits);
    rng.below(1 << s)
}

// ------------------------------------------------------------------------------------------
// A. bit packer
// ------------------------------------------------------------------------------------------
fn valid_width(rng: &mut Rng) -> u8 {
    match rng.below(10) {
        0 => 0,
        1 => 1,
        2 => 56,
        3 => 64,
        4 => *rng.pick(&[7u8, 8, 9, 15, 16, 17, 31, 32, 33, 55]),
        _ => {
            let w = rng.below(58) as u8;
            if w == 57 { 64 } else { w }
        }
    }
}

fn val_of_width(rng: &mut Rng, w: u8) -> u64 {
    let max = if w == 64 { u64::MAX } else if w == 0 { 0 } else { (1u64 << w) - 1 };
    match rng.below(6) {
        0 => 0,
        1 => max,
        2 => max / 2,
        _ => {
            if max == u64::MAX { rng.next_u64() } else { rng.next_u64() % (max + 1) }
        }
    }
}

fn case_bitpack(ctx: &mut Ctx, seed: u64, case: &Value) {
    let mut rng = Rng(seed);
    let w = valid_width(&mut rng);
    let n = pick_len(&mut rng, false).min(3000);
    let vals: Vec<u64> = (0..n).map(|_| val_of_width(&mut rng, w)).collect();
    let mut data: Vec<u8> = vec![];
    let mut bp = BitPacker::new();
    for &v in &vals {
        bp.write(v, w, &mut data).unwrap();
    }
    bp.close(&mut data).unwrap();
    ctx.report.count(&format!("bitpack:width-class:{}", match w { 0 => "0", 1..=8 => "1-8", 9..=32 => "9-32", 33..=56 => "33-56", _ => "64" }));
    ctx.report.case(&format!("bitpack|{w}|{n}|{}", crate::report::fnv(&data)), n > 0 && w > 0);
    let expected_len = (n * w as usize).div_ceil(8);
    if data.len() != expected_len {
        oracle(ctx, "C08:bitpack-length", format!("width {w}, {n} values: {} bytes written, expected {expected_len}", data.len()), case);
    }
    let un = BitUnpacker::new(w);
    for (i, &v) in vals.iter().enumerate() {
        let got = un.get(i as u32, &data);
        if got != v {
            oracle(ctx, "C08:bitpack-roundtrip", format!("width {w}, {n} values: get({i}) = {got}, written {v}"), case);
            return;
        }
    }
    // range lookup on the packed data
    if n > 0 {
        let a = val_of_width(&mut rng, w);
        let b = val_of_width(&mut rng, w);
        let (lo, hi) = (a.min(b), a.max(b));
        let s = rng.usize_below(n);
        let e = s + rng.usize_below(n - s + 1);
        let mut pos = vec![];
        un.get_ids_for_value_range(lo..=hi, s as u32..e as u32, &data, &mut pos);
        let brute: Vec<u32> = (s..e).filter(|&i| vals[i] >= lo && vals[i] <= hi).map(|i| i as u32).collect();
        if pos != brute {
            oracle(ctx, "C08:bitpack-range-lookup", format!("width {w}: get_ids_for_value_range({lo}..={hi}, {s}..{e}) returned {} ids, brute force {}", pos.len(), brute.len()), case);
        }
        // the model of the lookup (slow u64 path / translated u32 conversion) on the same bytes, also with
        // range ends around and above u32::MAX
        if n <= 600 {
            let mut r2 = Rng(seed ^ 0x5151_5151); // separate stream: the case's own draws stay as they were
            let hi2 = match r2.below(4) { 0 => hi, 1 => (1u64 << 32) + r2.below(8), 2 => u32::MAX as u64 - r2.below(3), _ => u64::MAX - r2.below(3) };
            let lo2 = if r2.chance(1, 6) { (1u64 << 32) + r2.below(4) } else { lo.min(hi2) };
            let mut pos2 = vec![];
            un.get_ids_for_value_range(lo2..=hi2, s as u32..e as u32, &data, &mut pos2);
            let brute2: Vec<u32> = (s..e).filter(|&i| vals[i] >= lo2 && vals[i] <= hi2).map(|i| i as u32).collect();
            if pos2 != brute2 {
                oracle(ctx, "C08:bitpack-range-lookup", format!("width {w}: get_ids_for_value_range({lo2}..={hi2}, {s}..{e}) returned {} ids, brute force {}", pos2.len(), brute2.len()), case);
            }
            let m = ctx.model.ask(&format!("C08 rangeids {w} {} {lo2} {hi2} {s} {e}", hex(&data)));
            if m != nat_list(&pos2) {
                modelv(ctx, "C08:bitpack-range-lookup-model", format!("width {w}: model get_ids_for_value_range({lo2}..={hi2}, {s}..{e}) differs from the real result"), case);
            }
        }
    }
    // model: same bytes, same reads
    let m = ctx.model.ask(&format!("C08 pack {w} {}", nat_list(&vals)));
    if m != hex(&data) {
        modelv(ctx, "C08:bitpack-bytes", format!("width {w}, {n} values: BitPacker bytes differ from the model (real {} bytes)", data.len()), case);
        return;
    }
    let idxs = probe_indices(&mut rng, n, 400, 100);
    let m = ctx.model.ask(&format!("C08 unpack {w} {} {}", hex(&data), nat_list(&idxs)));
    let exp: Vec<u64> = idxs.iter().map(|&i| vals[i]).collect();
    if m != nat_list(&exp) {
        modelv(ctx, "C08:bitunpack-get", format!("width {w}: model BitUnpacker::get on the real bytes differs from the written values"), case);
    }
    // compute_num_bits
    let x = val_of_width(&mut rng, w);
    let real_bits = tantivy_bitpacker::compute_num_bits(x);
    let mb = ctx.model.ask(&format!("C08 numbits {x}"));
    if mb != real_bits.to_string() {
        modelv(ctx, "C08:compute-num-bits", format!("compute_num_bits({x}) = {real_bits}, model {mb}"), case);
    }
    if real_bits < 64 && (x >> real_bits) != 0 {
        oracle(ctx, "C08:compute-num-bits-too-small", format!("compute_num_bits({x}) = {real_bits} cannot hold the value"), case);
    }
    // BlockedBitpacker (128-value blocks) round trip
    if n > 0 && rng.chance(1, 3) {
        let mut bb = BlockedBitpacker::new();
        for &v in &vals {
            bb.add(v);
        }
        if rng.chance(1, 2) {
            bb.flush();
        }
        for (i, &v) in vals.iter().enumerate() {
            if bb.get(i) != v {
                oracle(ctx, "C08:blocked-bitpacker-roundtrip", format!("BlockedBitpacker get({i}) = {}, added {v}", bb.get(i)), case);
                break;
            }
        }
    }
}

// ------------------------------------------------------------------------------------------
// B. u64 codecs
// ------------------------------------------------------------------------------------------
pub(crate) fn gen_u64s(rng: &mut Rng, n: usize) -> (Vec<u64>, &'static str) {
    let kind = rng.below(18);
    let base = match rng.below(5) { 0 => 0u64, 1 => u64::MAX - 5_000_000_000, 2 => 1u64 << 63, 3 => (1u64 << 63) - 3_000_000, _ => rng.next_u64() >> rng.below(64) };
    let name;
    let v: Vec<u64> = match kind {
        0 => { name = "constant"; vec![base; n] }
        1 => { name = "linear-inc"; let step = 1 + rng.below(1000); (0..n).map(|i| base.wrapping_add(step.wrapping_mul(i as u64)) ).collect() }
        2 => { name = "linear-dec"; let step = 1 + rng.below(1000); let top = base.max(step * n as u64 + 1); (0..n).map(|i| top - step * i as u64).collect() }
        3 => { name = "noisy-linear"; let step = 1 + rng.below(100_000); let noise = 1 + p2(rng, 20); let b = base / 2; (0..n).map(|i| b + step * i as u64 + rng.below(noise)).collect() }
        4 => { name = "random"; (0..n).map(|_| rng.next_u64()).collect() }
        5 => { name = "random-small"; let m = 1 + (1 + p2(rng, 40) * 2); (0..n).map(|_| rng.below(m)).collect() }
        6 => { name = "extremes"; (0..n).map(|_| *rng.pick(&[0u64, 1, u64::MAX, u64::MAX - 1, 1 << 63, (1 << 63) - 1, 1 << 56, (1 << 56) - 1, (1 << 57) + 1])).collect() }
        7 => { name = "gcd"; let g = *rng.pick(&[2u64, 3, 10, 1000, 1_000_000_000, 1 << 20, (1 << 40) + 7]); let b = base % 1_000_000; let m = 1 + rng.below(5000); (0..n).map(|_| b + g * rng.below(m)).collect() }
        8 => { name = "two-values"; let a = rng.next_u64(); let b = rng.next_u64(); (0..n).map(|_| if rng.chance(1, 2) { a } else { b }).collect() }
        9 => { name = "piecewise-linear"; let mut cur = base / 4; let mut step = rng.below(1000); (0..n).map(|i| { if i % 512 == 0 { step = rng.below(100_000); } cur = cur.wrapping_add(step); cur }).collect() }
        10 => { name = "wrap-around-linear"; let step = 1 + rng.below(1 << 30); (0..n).map(|i| (u64::MAX - 1000).wrapping_add(step.wrapping_mul(i as u64))).collect() }
        11 => { name = "sorted-random"; let mut v: Vec<u64> = (0..n).map(|_| rng.next_u64() >> 8).collect(); v.sort(); v }
        12 | 13 | 14 => {
            // one outlier (first / last / middle / a chosen boundary row) over small trend-less, constant or
            // slowly moving values; the outlier is far away (>= 2^31, up to >= 2^63), above or below
            let small = 1 + p2(rng, 12);
            let flavour = rng.below(4);
            let lowbase = if rng.chance(1, 2) { 0 } else { 1u64 << (32 + rng.below(31)) };
            let mut v: Vec<u64> = (0..n).map(|i| match flavour { 0 => lowbase + rng.below(small), 1 => lowbase, 2 => lowbase + i as u64, _ => lowbase + (n - i) as u64 }).collect();
            let far: u64 = *rng.pick(&[1u64 << 31, (1 << 31) + 1, 1 << 32, 1 << 40, 1 << 56, 1 << 57, 1 << 62, 1 << 63, u64::MAX]);
            let outlier = if rng.chance(3, 4) || lowbase < far { lowbase.saturating_add(far) } else { lowbase - far };
            if n > 0 {
                let pos = match kind { 12 => 0, 13 => n - 1, _ => { let r = rng.usize_below(n); *rng.pick(&[n / 2, 1 % n, 510 % n, 511 % n, 512 % n, 513 % n, r]) } };
                v[pos] = outlier;
                if rng.chance(1, 4) { let q = rng.usize_below(n); v[q] = outlier.wrapping_sub(rng.below(3)); }
            }
            name = match kind { 12 => "outlier-first", 13 => "outlier-last", _ => "outlier-middle" };
            v
        }
        15 => { name = "huge-range-decreasing"; let top = u64::MAX - rng.below(1000); let step = (1u64 << (20 + rng.below(40))) | 1; (0..n).map(|i| top.wrapping_sub(step.wrapping_mul(i as u64))).collect() }
        16 => { name = "two-clusters-far-apart"; let a = rng.below(1000); let b = (1u64 << (31 + rng.below(33))).wrapping_add(rng.below(1000)); (0..n).map(|i| if (i / (1 + n / 7)) % 2 == 0 { a + rng.below(50) } else { b.wrapping_sub(rng.below(50)) }).collect() }
        _ => { name = "slope-bailout-step"; let jump = (1u64 << 31) + p2(rng, 30); let k = if n > 0 { rng.usize_below(n) } else { 0 }; (0..n).map(|i| if i < k { 5 + rng.below(3) } else { 5 + jump + rng.below(3) }).collect() }
    };
    (v, name)
}

fn codec_code(c: CodecType) -> u8 {
    match c { CodecType::Bitpacked => 0, CodecType::Linear => 1, CodecType::BlockwiseLinear => 2 }
}

/// model decode of real column-values bytes at `idxs`; returns (codec, min, max, gcd, rows, values)
pub(crate) fn model_decode(ctx: &mut Ctx, bytes: &[u8], idxs: &[usize]) -> Option<(u64, u64, u64, u64, u64, Vec<u64>)> {
    let r = ctx.model.ask(&format!("C08 decode {} {}", hex(bytes), nat_list(idxs)));
    let (head, vals) = r.split_once(';')?;
    let h: Vec<u64> = head.split(' ').map(|t| t.parse().ok()).collect::<Option<_>>()?;
    if h.len() != 5 {
        return None;
    }
    Some((h[0], h[1], h[2], h[3], h[4], parse_nat_list(vals)?))
}

fn case_codec(ctx: &mut Ctx, seed: u64, case: &Value) {
    let mut rng = Rng(seed);
    // lengths on both sides of the linear codec's 512-value threshold and of the 512-row blocks
    let n = match rng.below(6) {
        0 => *rng.pick(&[511usize, 512, 513, 514, 600, 1023, 1024, 1025, 1536]),
        1 => 512 + rng.usize_below(1500),
        _ => pick_len(&mut rng, true),
    };
    let (vals, dist) = gen_u64s(&mut rng, n);
    // every codec type explicitly (not only what the automatic selection would pick), then the lists
    // the writers use, then all of them
    let lists: Vec<Vec<CodecType>> = vec![
        vec![CodecType::Bitpacked],
        vec![CodecType::Linear],
        vec![CodecType::BlockwiseLinear],
        vec![CodecType::Bitpacked, CodecType::Linear],
        vec![CodecType::Bitpacked, CodecType::BlockwiseLinear],
        tantivy_columnar::column_values::ALL_U64_CODEC_TYPES.to_vec(),
    ];
    // big columns: the three single codecs + all; small ones: everything
    for (k, codecs) in lists.iter().enumerate() {
        if n > 20_000 && (k == 3 || k == 4) { continue; }
        let sub = json!({"kind": "codec", "case_seed": seed, "codecs": format!("{:?}", codecs)});
        let _ = case;
        codec_one(ctx, &mut rng, &vals, dist, codecs, &sub, k == 5);
    }
}

fn codec_one(ctx: &mut Ctx, rng: &mut Rng, vals: &[u64], dist: &'static str, codecs: &[CodecType], case: &Value, last: bool) {
    let n = vals.len();
    let codecs: Vec<CodecType> = codecs.to_vec();
    let mut rng = rng.fork();
    let mut out: Vec<u8> = vec![];
    let res = serialize_u64_based_column_values::<u64>(&&vals[..], &codecs, &mut out);
    let canon = format!("codec|{dist}|{n}|{:?}|{}", codecs, crate::report::fnv(&nat_list(&vals).into_bytes()));
    ctx.report.case(&canon, n >= 2);
    if res.is_err() {
        // only the linear codec alone on fewer than 512 values is not applicable
        let expected_na = codecs == vec![CodecType::Linear] && n < BLOCKWISE_BLOCK;
        ctx.report.count("codec:not-applicable");
        if !expected_na {
            oracle(ctx, "C08:codec-serialize-error", format!("{dist} x{n} with {:?}: serialize failed", codecs), case);
        } else {
            let m = ctx.model.ask(&format!("C08 encode 1 {}", nat_list(&vals)));
            if m != "none" {
                modelv(ctx, "C08:linear-applicability", format!("real linear codec not applicable on {n} values, model encodes"), case);
            }
        }
        return;
    }
    let chosen = out[0];
    ctx.report.count(&format!("codec:chosen:{}", ["bitpacked", "linear", "blockwise"][chosen.min(2) as usize]));
    ctx.report.count(&format!("codec:dist:{dist}"));
    if !codecs.iter().any(|c| codec_code(*c) == chosen) {
        oracle(ctx, "C08:codec-not-in-list", format!("codec byte {chosen} not among {:?}", codecs), case);
    }
    let col = match load_u64_based_column_values::<u64>(OwnedBytes::new(out.clone())) {
        Ok(c) => c,
        Err(e) => { oracle(ctx, "C08:codec-load-error", format!("{dist} x{n}: load failed: {e}"), case); return; }
    };
    if col.num_vals() as usize != n {
        oracle(ctx, "C08:codec-num-vals", format!("{dist}: num_vals {} for {n} values (codec {chosen})", col.num_vals()), case);
        return;
    }
    let (mn, mx) = (col.min_value(), col.max_value());
    for (i, &v) in vals.iter().enumerate() {
        let got = col.get_val(i as u32);
        if got != v {
            oracle(ctx, "C08:codec-value", format!("{dist} x{n}, codec {chosen}: get_val({i}) = {got}, indexed {v}"), case);
            return;
        }
        if v < mn || v > mx {
            oracle(ctx, "C08:codec-minmax-bound", format!("{dist} x{n}, codec {chosen}: value {v} outside [min_value {mn}, max_value {mx}]"), case);
            return;
        }
    }
    if n > 0 {
        // iter / get_range / get_vals
        let it: Vec<u64> = col.iter().collect();
        if it != vals {
            oracle(ctx, "C08:codec-iter", format!("{dist} x{n}, codec {chosen}: iter() differs from the indexed values"), case);
        }
        let s = rng.usize_below(n);
        let len = rng.usize_below((n - s).min(300) + 1);
        let mut buf = vec![0u64; len];
        col.get_range(s as u64, &mut buf);
        if buf[..] != vals[s..s + len] {
            oracle(ctx, "C08:codec-get-range", format!("{dist} x{n}, codec {chosen}: get_range({s}, {len}) differs"), case);
        }
        // value-range lookup = brute force
        for _ in 0..3 {
            let a = if rng.chance(1, 2) { vals[rng.usize_below(n)] } else { rng.next_u64() >> rng.below(64) };
            let b = if rng.chance(1, 2) { vals[rng.usize_below(n)] } else { a.wrapping_add(p2(&mut rng, 40)) };
            let (lo, hi) = if rng.chance(1, 10) { (a.max(b), a.min(b)) } else { (a.min(b), a.max(b)) };
            let s = rng.usize_below(n);
            let e = s + rng.usize_below(n - s + 1);
            let mut pos = vec![];
            col.get_row_ids_for_value_range(lo..=hi, s as u32..e as u32, &mut pos);
            let brute: Vec<u32> = (s..e).filter(|&i| vals[i] >= lo && vals[i] <= hi).map(|i| i as u32).collect();
            if pos != brute {
                // known finding: a non-empty query range entirely below the column minimum is clamped
                // to [0, 0] by `transform_range_before_linear_transformation` (saturating_sub) and
                // therefore matches exactly the rows holding the minimum (bitpacked codec only)
                let min_rows: Vec<u32> = (s..e).filter(|&i| vals[i] == mn).map(|i| i as u32).collect();
                let key = if chosen == 0 && lo <= hi && hi < mn && pos == min_rows { "C08:range-below-min-returns-min-rows" } else { "C08:codec-range-lookup" };
                oracle(ctx, key, format!("{dist} x{n}, codec {chosen}: get_row_ids_for_value_range({lo}..={hi}, {s}..{e}) = {} rows, brute force {} (column min {mn}, max {mx})", pos.len(), brute.len()), case);
                if key == "C08:codec-range-lookup" { break; }
            }
        }
    }
    // model: decode the real bytes (cross-decoding), exact stats
    let idxs = probe_indices(&mut rng, n, 1200, 150);
    match model_decode(ctx, &out, &idxs) {
        Some((mc, mmin, mmax, _g, rows, mv)) => {
            let exp: Vec<u64> = idxs.iter().map(|&i| vals[i]).collect();
            if mc != chosen as u64 || rows != n as u64 || mv != exp {
                modelv(ctx, "C08:codec-cross-decode", format!("{dist} x{n}, codec {chosen}: model decode of the real bytes differs from the indexed values"), case);
            } else if (mmin, mmax) != (mn, mx) {
                modelv(ctx, "C08:codec-stats-header", format!("model header min/max {mmin}/{mmax}, real {mn}/{mx}"), case);
            }
        }
        None => modelv(ctx, "C08:codec-cross-decode", format!("{dist} x{n}, codec {chosen}: model cannot decode the real bytes"), case),
    }
    let ms = ctx.model.ask(&format!("C08 stats {}", nat_list(&vals)));
    let exact_min = vals.iter().copied().min().unwrap_or(0);
    let exact_max = vals.iter().copied().max().unwrap_or(0);
    if ms.split(' ').take(2).collect::<Vec<_>>() != vec![exact_min.to_string(), exact_max.to_string()] {
        modelv(ctx, "C08:model-stats", format!("model stats {ms} vs exact {exact_min} {exact_max}"), case);
    }
    if (mn, mx) != (exact_min, exact_max) {
        ctx.report.count("codec:minmax-not-tight");
        modelv(ctx, "C08:stats-not-tight", format!("{dist} x{n}: freshly serialized column reports min/max {mn}/{mx}, exact {exact_min}/{exact_max} (StatsCollector model is exact)"), case);
    }
    // the bitpacked reader's range transformation as the current source has it (with or without the
    // `range.end() < min` guard, re-extracted on every run): the model predicts the reported rows
    if chosen == 0 && n > 0 {
        let gcd: u64 = ms.split(' ').nth(2).and_then(|t| t.parse().ok()).unwrap_or(1).max(1);
        for round in 0..3 {
            let (lo, hi) = match round {
                0 => { let a = vals[rng.usize_below(n)]; (a.saturating_sub(p2(&mut rng, 20)), a.saturating_add(p2(&mut rng, 20))) }
                1 => { let hi = mn.saturating_sub(1 + p2(&mut rng, 30)); (hi.saturating_sub(p2(&mut rng, 30)), hi) } // below the minimum
                _ => { let a = rng.next_u64() >> rng.below(64); (a, a.saturating_add(p2(&mut rng, 40))) }
            };
            let mut pos = vec![];
            col.get_row_ids_for_value_range(lo..=hi, 0..n as u32, &mut pos);
            let t = ctx.model.ask(&format!("C08 transform {mn} {gcd} {lo} {hi}"));
            let predicted: Vec<u32> = match t.split_once(' ') {
                Some((a, b)) => {
                    let (a, b): (u64, u64) = (a.parse().unwrap_or(1), b.parse().unwrap_or(0));
                    (0..n).filter(|&i| { let x = (vals[i] - mn) / gcd; x >= a && x <= b }).map(|i| i as u32).collect()
                }
                None => vec![],
            };
            ctx.report.count(if t == "none" { "range-transform:none" } else { "range-transform:some" });
            if pos != predicted {
                modelv(ctx, "C08:range-transform-model", format!("{dist} x{n}: get_row_ids_for_value_range({lo}..={hi}) reports {} rows, the model of transform_range_before_linear_transformation ({t}) predicts {}", pos.len(), predicted.len()), case);
                break;
            }
            let brute: Vec<u32> = (0..n).filter(|&i| vals[i] >= lo && vals[i] <= hi).map(|i| i as u32).collect();
            if pos != brute {
                let min_rows: Vec<u32> = (0..n).filter(|&i| vals[i] == mn).map(|i| i as u32).collect();
                let key = if lo <= hi && hi < mn && pos == min_rows { "C08:range-below-min-returns-min-rows" } else { "C08:codec-range-lookup" };
                oracle(ctx, key, format!("{dist} x{n}, codec 0: get_row_ids_for_value_range({lo}..={hi}) = {} rows, brute force {} (column min {mn}, max {mx})", pos.len(), brute.len()), case);
            }
        }
    }
    // the other direction: real decoder on model-encoded bytes
    if n <= 1100 {
        for c in &codecs {
            let m = ctx.model.ask(&format!("C08 encode {} {}", codec_code(*c), nat_list(&vals)));
            if m == "none" {
                if !(*c == CodecType::Linear && n < BLOCKWISE_BLOCK) {
                    modelv(ctx, "C08:model-encode", format!("model refuses codec {:?} on {n} values", c), case);
                }
                continue;
            }
            let bytes = unhex(&m).unwrap_or_default();
            match load_u64_based_column_values::<u64>(OwnedBytes::new(bytes)) {
                Ok(c2) => {
                    let got: Vec<u64> = if c2.num_vals() as usize == n { (0..n).map(|i| c2.get_val(i as u32)).collect() } else { vec![] };
                    if got != vals {
                        modelv(ctx, "C08:model-encode-real-decode", format!("{dist} x{n}: real decoder on model-encoded {:?} bytes differs from the values", c), case);
                    }
                }
                Err(_) => modelv(ctx, "C08:model-encode-real-decode", format!("{dist} x{n}: real loader rejects model-encoded {:?} bytes", c), case),
            }
        }
    }
    // typed views over the same machinery: i64 / f64 / bool through their monotone mappings
    if last && n > 0 && n <= 3000 {
        typed_codec_checks(ctx, &mut rng, vals, &codecs, case);
    }
    if ctx.report.samples.len() < 2 {
        ctx.report.sample(json!({"section": "codec", "distribution": dist, "rows": n, "codecs": format!("{:?}", codecs), "chosen": chosen, "min": mn, "max": mx, "first_values": vals.iter().take(5).collect::<Vec<_>>()}));
    }
}

fn typed_codec_checks(ctx: &mut Ctx, rng: &mut Rng, raw: &[u64], codecs: &[CodecType], case: &Value) {
    let codecs: Vec<CodecType> = if codecs == [CodecType::Linear] && raw.len() < BLOCKWISE_BLOCK { vec![CodecType::Bitpacked] } else { codecs.to_vec() };
    // i64
    let ivals: Vec<i64> = raw.iter().map(|&u| match rng.below(8) { 0 => i64::MIN, 1 => i64::MAX, 2 => 0, 3 => -1, _ => u as i64 }).collect();
    let mut out = vec![];
    if serialize_u64_based_column_values::<i64>(&&ivals[..], &codecs, &mut out).is_ok() {
        match load_u64_based_column_values::<i64>(OwnedBytes::new(out)) {
            Ok(col) => {
                for (i, &v) in ivals.iter().enumerate() {
                    if col.get_val(i as u32) != v || v < col.min_value() || v > col.max_value() {
                        oracle(ctx, "C08:i64-column-value", format!("i64 column: row {i} = {}, indexed {v}, min {} max {}", col.get_val(i as u32), col.min_value(), col.max_value()), case);
                        break;
                    }
                }
                let a = ivals[rng.usize_below(ivals.len())];
                let b = ivals[rng.usize_below(ivals.len())];
                let (lo, hi) = (a.min(b), a.max(b));
                let mut pos = vec![];
                col.get_row_ids_for_value_range(lo..=hi, 0..ivals.len() as u32, &mut pos);
                let brute: Vec<u32> = (0..ivals.len()).filter(|&i| ivals[i] >= lo && ivals[i] <= hi).map(|i| i as u32).collect();
                if pos != brute {
                    oracle(ctx, "C08:i64-range-lookup", format!("i64 range {lo}..={hi}: {} rows, brute force {}", pos.len(), brute.len()), case);
                }
            }
            Err(e) => oracle(ctx, "C08:codec-load-error", format!("i64 column load failed: {e}"), case),
        }
    }
    // f64 (NaN free), incl. ±0, ±inf, subnormals
    let fvals: Vec<f64> = raw.iter().map(|&u| match rng.below(10) {
        0 => 0.0, 1 => -0.0, 2 => f64::INFINITY, 3 => f64::NEG_INFINITY, 4 => f64::MIN_POSITIVE / 2.0, 5 => -(u as f64), 6 => f64::MAX, 7 => f64::MIN,
        _ => { let f = f64::from_bits(u); if f.is_nan() { (u >> 12) as f64 } else { f } }
    }).collect();
    let mut out = vec![];
    if serialize_u64_based_column_values::<f64>(&&fvals[..], &codecs, &mut out).is_ok() {
        match load_u64_based_column_values::<f64>(OwnedBytes::new(out)) {
            Ok(col) => {
                for (i, &v) in fvals.iter().enumerate() {
                    let g = col.get_val(i as u32);
                    if g.to_bits() != v.to_bits() || !(v >= col.min_value() && v <= col.max_value()) {
                        oracle(ctx, "C08:f64-column-value", format!("f64 column: row {i} = {g:?} (bits {:x}), indexed {v:?} (bits {:x}), min {:?} max {:?}", g.to_bits(), v.to_bits(), col.min_value(), col.max_value()), case);
                        break;
                    }
                }
                let a = fvals[rng.usize_below(fvals.len())];
                let b = fvals[rng.usize_below(fvals.len())];
                let (lo, hi) = if a <= b { (a, b) } else { (b, a) };
                let mut pos = vec![];
                col.get_row_ids_for_value_range(lo..=hi, 0..fvals.len() as u32, &mut pos);
                // the lookup works on the total order of the mapping (−0 < +0)
                let (l, h) = (lo.to_u64(), hi.to_u64());
                let brute: Vec<u32> = (0..fvals.len()).filter(|&i| { let k = fvals[i].to_u64(); k >= l && k <= h }).map(|i| i as u32).collect();
                if pos != brute {
                    oracle(ctx, "C08:f64-range-lookup", format!("f64 range {lo:?}..={hi:?}: {} rows, brute force {}", pos.len(), brute.len()), case);
                }
            }
            Err(e) => oracle(ctx, "C08:codec-load-error", format!("f64 column load failed: {e}"), case),
        }
    }
    // monotone mappings: real vs extracted model, order and inverse on the sampled pairs
    for k in 0..6.min(raw.len()) {
        let i = ivals[(k * 7) % ivals.len()];
        let real = tantivy_common::i64_to_u64(i);
        let m = ctx.model.ask(&format!("C08 i64_to_u64 {}", i as u64));
        let back = ctx.model.ask(&format!("C08 u64_to_i64 {real}"));
        if m != real.to_string() || back != (i as u64).to_string() || tantivy_common::u64_to_i64(real) != i {
            modelv(ctx, "C08:i64-mapping", format!("i64_to_u64({i}) = {real}, model {m}; inverse {back}"), case);
        }
        let f = fvals[(k * 5) % fvals.len()];
        let real = tantivy_common::f64_to_u64(f);
        let m = ctx.model.ask(&format!("C08 f64_to_u64 {}", f.to_bits()));
        let back = ctx.model.ask(&format!("C08 u64_to_f64 {real}"));
        if m != real.to_string() || back != f.to_bits().to_string() || tantivy_common::u64_to_f64(real).to_bits() != f.to_bits() {
            modelv(ctx, "C08:f64-mapping", format!("f64_to_u64({f:?}) = {real}, model {m}; inverse {back}"), case);
        }
        let f2 = fvals[(k * 11 + 3) % fvals.len()];
        if (f < f2) && !(tantivy_common::f64_to_u64(f) < tantivy_common::f64_to_u64(f2)) {
            oracle(ctx, "C08:f64-mapping-not-monotone", format!("{f:?} < {f2:?} but mapped {} >= {}", tantivy_common::f64_to_u64(f), tantivy_common::f64_to_u64(f2)), case);
        }
        let i2 = ivals[(k * 13 + 1) % ivals.len()];
        if (i < i2) != (tantivy_common::i64_to_u64(i) < tantivy_common::i64_to_u64(i2)) {
            oracle(ctx, "C08:i64-mapping-not-monotone", format!("{i} vs {i2}: order not preserved"), case);
        }
    }
}

// ------------------------------------------------------------------------------------------
// C. optional index
// ------------------------------------------------------------------------------------------
/// `k` distinct sorted positions in `0..len`
pub(crate) fn choose_sorted(rng: &mut Rng, len: u32, k: u32) -> Vec<u32> {
    let k = k.min(len);
    if k == len {
        return (0..len).collect();
    }
    if k * 2 > len {
        let drop = choose_sorted(rng, len, len - k);
        let mut out = Vec::with_capacity(k as usize);
        let mut di = 0;
        for x in 0..len {
            if di < drop.len() && drop[di] == x { di += 1; } else { out.push(x); }
        }
        return out;
    }
    let mut set = std::collections::BTreeSet::new();
    while (set.len() as u32) < k {
        set.insert(rng.below(len as u64) as u32);
    }
    set.into_iter().collect()
}

pub(crate) fn gen_optional_rows(rng: &mut Rng) -> (u32, Vec<u32>, String) {
    let num_rows: u32 = match rng.below(12) {
        0 => 0,
        1 => 1,
        2 => *rng.pick(&[63u32, 64, 65, 511, 512, 513]),
        3 => *rng.pick(&[ELEMENTS_PER_BLOCK - 1, ELEMENTS_PER_BLOCK, ELEMENTS_PER_BLOCK + 1]),
        4 => *rng.pick(&[2 * ELEMENTS_PER_BLOCK - 1, 2 * ELEMENTS_PER_BLOCK, 2 * ELEMENTS_PER_BLOCK + 1]),
        5 => 3 * ELEMENTS_PER_BLOCK + rng.below(70_000) as u32,
        6 | 7 => rng.below(5000) as u32,
        _ => rng.below(140_000) as u32,
    };
    let mut rows: Vec<u32> = vec![];
    let mut profile = vec![];
    let mut start = 0u32;
    while start < num_rows {
        let len = (num_rows - start).min(ELEMENTS_PER_BLOCK);
        let t = DENSE_BLOCK_THRESHOLD;
        let (k, tag) = match rng.below(12) {
            0 => (0, "empty"),
            1 => (1, "one"),
            2 => (t - 1, "thr-1"),
            3 => (t, "thr"),
            4 => (t + 1, "thr+1"),
            5 => (len, "full"),
            6 => (len.saturating_sub(1), "full-1"),
            7 | 8 => (rng.below(t as u64) as u32, "sparse"),
            9 => (t + rng.below(3000) as u32, "dense-low"),
            _ => (rng.below(len as u64 + 1) as u32, "any"),
        };
        let mut in_block = choose_sorted(rng, len, k);
        // force mini-block boundary members now and then
        if rng.chance(1, 3) && len > 130 {
            for x in [0u32, 63, 64, 127, 128, len - 1] {
                if let Err(p) = in_block.binary_search(&x) { in_block.insert(p, x); }
            }
        }
        profile.push(format!("{tag}:{}", in_block.len()));
        rows.extend(in_block.iter().map(|x| x + start));
        start += len;
    }
    (num_rows, rows, profile.join(","))
}

/// checks one serialized optional index (bytes without the cardinality byte) against the row set
pub(crate) fn check_optional_index(ctx: &mut Ctx, rng: &mut Rng, oi: &tantivy_columnar::column_index::OptionalIndex, raw: &[u8], num_rows: u32, rows: &[u32], what: &str, case: &Value) {
    if oi.num_docs() != num_rows || oi.num_non_nulls() as usize != rows.len() {
        oracle(ctx, "C08:optidx-counts", format!("{what}: num_docs {} (expected {num_rows}), num_non_nulls {} (expected {})", oi.num_docs(), oi.num_non_nulls(), rows.len()), case);
        return;
    }
    let it: Vec<u32> = oi.iter_non_null_docs().collect();
    if it != rows {
        let at = it.iter().zip(rows.iter()).position(|(a, b)| a != b).unwrap_or(it.len().min(rows.len()));
        oracle(ctx, "C08:optidx-iter", format!("{what}: iter_non_null_docs differs from the row set at position {at}"), case);
        return;
    }
    // docs to probe
    let mut docs: Vec<u32> = vec![];
    if num_rows > 0 {
        docs.extend([0, num_rows - 1, num_rows / 2]);
        for b in [64u32, 128, 512, DENSE_BLOCK_THRESHOLD, ELEMENTS_PER_BLOCK, 2 * ELEMENTS_PER_BLOCK] {
            for d in [-1i64, 0, 1, 63, 64] {
                let x = b as i64 + d;
                if x >= 0 && (x as u32) < num_rows { docs.push(x as u32); }
            }
        }
        for _ in 0..40 { docs.push(rng.below(num_rows as u64) as u32); }
        for _ in 0..40.min(rows.len()) {
            let r = rows[rng.usize_below(rows.len())];
            docs.push(r);
            if r + 1 < num_rows { docs.push(r + 1); }
        }
    }
    docs.sort();
    docs.dedup();
    let brute_rank = |d: u32| rows.partition_point(|&r| r < d) as u32;
    for &d in &docs {
        let member = rows.binary_search(&d).is_ok();
        if oi.contains(d) != member {
            oracle(ctx, "C08:optidx-contains", format!("{what}: contains({d}) = {}, member = {member}", oi.contains(d)), case);
            return;
        }
        let rk = oi.rank(d);
        if rk != brute_rank(d) {
            oracle(ctx, "C08:optidx-rank", format!("{what}: rank({d}) = {rk}, members below = {}", brute_rank(d)), case);
            return;
        }
        let rie = oi.rank_if_exists(d);
        if rie != if member { Some(brute_rank(d)) } else { None } {
            oracle(ctx, "C08:optidx-rank-if-exists", format!("{what}: rank_if_exists({d}) = {rie:?}, member = {member}, members below = {}", brute_rank(d)), case);
            return;
        }
        if member && oi.select(rk) != d {
            oracle(ctx, "C08:optidx-select-rank", format!("{what}: select(rank({d})) = {}", oi.select(rk)), case);
            return;
        }
    }
    // rank for doc ids at / beyond num_docs
    for d in [num_rows, num_rows.saturating_add(1), u32::MAX] {
        if oi.rank(d) as usize != rows.len() {
            oracle(ctx, "C08:optidx-rank-beyond", format!("{what}: rank({d}) = {} with {} members", oi.rank(d), rows.len()), case);
        }
    }
    let mut ranks: Vec<u32> = vec![];
    if !rows.is_empty() {
        let n = rows.len() as u32;
        ranks.extend([0, n - 1, n / 2]);
        for b in [64u32, DENSE_BLOCK_THRESHOLD, ELEMENTS_PER_BLOCK] {
            for d in [-1i64, 0, 1] {
                let x = b as i64 + d;
                if x >= 0 && (x as u32) < n { ranks.push(x as u32); }
            }
        }
        for _ in 0..40 { ranks.push(rng.below(n as u64) as u32); }
        // first / last rank of every block
        for b in 0..=(num_rows / ELEMENTS_PER_BLOCK) {
            let p = rows.partition_point(|&r| r < b * ELEMENTS_PER_BLOCK) as u32;
            if p < n { ranks.push(p); }
            if p > 0 { ranks.push(p - 1); }
        }
    }
    ranks.sort();
    ranks.dedup();
    for &k in &ranks {
        if oi.select(k) != rows[k as usize] {
            oracle(ctx, "C08:optidx-select", format!("{what}: select({k}) = {}, {k}-th member = {}", oi.select(k), rows[k as usize]), case);
            return;
        }
    }
    let mut batch = ranks.clone();
    oi.select_batch(&mut batch);
    let exp: Vec<u32> = ranks.iter().map(|&k| rows[k as usize]).collect();
    if batch != exp {
        oracle(ctx, "C08:optidx-select-cursor", format!("{what}: select_batch over increasing ranks differs from the members"), case);
    }
    // model on the real bytes
    let r = ctx.model.ask(&format!("C08 optidx {} {} {}", hex(raw), nat_list(&docs), nat_list(&ranks)));
    let parts: Vec<&str> = r.split(';').collect();
    let show_opt = |v: Vec<Option<u32>>| if v.is_empty() { "-".to_string() } else { v.iter().map(|o| o.map(|x| x.to_string()).unwrap_or("x".into())).collect::<Vec<_>>().join(",") };
    let exp_rank = show_opt(docs.iter().map(|&d| Some(brute_rank(d))).collect());
    let exp_rie = show_opt(docs.iter().map(|&d| if rows.binary_search(&d).is_ok() { Some(brute_rank(d)) } else { None }).collect());
    let exp_sel = show_opt(ranks.iter().map(|&k| Some(rows[k as usize])).collect());
    if parts.len() != 4 || parts[0] != format!("{num_rows} {}", rows.len()) || parts[1] != exp_rank || parts[2] != exp_rie || parts[3] != exp_sel {
        let which = if parts.len() != 4 { "open" } else if parts[0] != format!("{num_rows} {}", rows.len()) { "counts" } else if parts[1] != exp_rank { "rank" } else if parts[2] != exp_rie { "rank_if_exists" } else { "select" };
        modelv(ctx, "C08:optidx-model", format!("{what}: model {which} on the real optional-index bytes differs (num_rows {num_rows}, {} members)", rows.len()), case);
    }
}

fn case_optidx(ctx: &mut Ctx, seed: u64, case: &Value) {
    let mut rng = Rng(seed);
    let (num_rows, rows, profile) = gen_optional_rows(&mut rng);
    let mut out: Vec<u8> = vec![];
    serialize_column_index(
        SerializableColumnIndex::Optional(SerializableOptionalIndex { non_null_row_ids: Box::new(&rows[..]), num_rows }),
        &mut out,
    ).unwrap();
    for p in profile.split(',') {
        ctx.report.count(&format!("optidx:block:{}", p.split(':').next().unwrap_or("")));
    }
    ctx.report.case(&format!("optidx|{num_rows}|{}", crate::report::fnv(&nat_list(&rows).into_bytes())), !rows.is_empty() && (rows.len() as u32) < num_rows);
    let idx = match open_column_index(OwnedBytes::new(out.clone()), Version::V2) {
        Ok(ColumnIndex::Optional(oi)) => oi,
        Ok(other) => { oracle(ctx, "C08:optidx-open", format!("optional index opened as {:?}", other.get_cardinality()), case); return; }
        Err(e) => { oracle(ctx, "C08:optidx-open", format!("open failed: {e}"), case); return; }
    };
    check_optional_index(ctx, &mut rng, &idx, &out[1..], num_rows, &rows, &format!("blocks [{profile}]"), case);
    // byte-exact model encoder on moderate sizes
    if rows.len() <= 12_000 && rng.chance(1, 2) {
        let m = ctx.model.ask(&format!("C08 optenc {num_rows} {}", nat_list(&rows)));
        if m != hex(&out[1..]) {
            modelv(ctx, "C08:optidx-bytes", format!("serialize_optional_index bytes differ from the model (num_rows {num_rows}, blocks [{profile}])"), case);
        }
    }
    if ctx.report.samples.len() < 3 {
        ctx.report.sample(json!({"section": "optidx", "num_rows": num_rows, "members": rows.len(), "blocks": profile}));
    }
}

// ------------------------------------------------------------------------------------------
// driver
// ------------------------------------------------------------------------------------------
fn run_case(ctx: &mut Ctx, kind: &str, seed: u64) {
    let case = json!({"kind": kind, "case_seed": seed});
    let r = catch_unwind(AssertUnwindSafe(|| match kind {
        "bitpack" => case_bitpack(ctx, seed, &case),
        "codec" => case_codec(ctx, seed, &case),
        "optidx" => case_optidx(ctx, seed, &case),
        "columnar" => columnar_part::case_columnar(ctx, seed, &case),
        "merge" => columnar_part::case_merge(ctx, seed, &case),
        "tantivy" => tantivy_part::case_tantivy(ctx, seed, &case),
        _ => ctx.report.notes.push(format!("unknown case kind {kind}")),
    }));
    if let Err(p) = r {
        let msg = p.downcast_ref::<String>().cloned().or_else(|| p.downcast_ref::<&str>().map(|s| s.to_string())).unwrap_or_default();
        ctx.report.violation("oracle", &format!("C08:panic-{kind}"), format!("panic in {kind} case: {}", &msg[..msg.len().min(300)]), case);
    }
    ctx.report.count(&format!("cases:{kind}"));
}

fn check_constants(ctx: &mut Ctx) {
    // the harness' boundary constants are the extracted ones: threshold member counts switch the
    // block variant exactly where the model (Gen.is_sparse) says
    let case = json!({"kind": "consts"});
    for (n, rows) in [(DENSE_BLOCK_THRESHOLD - 1, DENSE_BLOCK_THRESHOLD - 1), (DENSE_BLOCK_THRESHOLD, DENSE_BLOCK_THRESHOLD)] {
        let rows: Vec<u32> = (0..rows).map(|i| i * 3).collect();
        let mut out = vec![];
        serialize_column_index(SerializableColumnIndex::Optional(SerializableOptionalIndex { non_null_row_ids: Box::new(&rows[..]), num_rows: ELEMENTS_PER_BLOCK }), &mut out).unwrap();
        let m = ctx.model.ask(&format!("C08 optenc {ELEMENTS_PER_BLOCK} {}", nat_list(&rows)));
        if m != hex(&out[1..]) {
            modelv(ctx, "C08:threshold-encoding", format!("a block with {n} members is encoded differently by the code and the model (sparse/dense switch)"), &case);
        }
    }
}

/// stored witness of the known finding `C08:range-below-min-returns-min-rows`, replayed first
fn known_range_below_min(ctx: &mut Ctx) {
    let case = json!({"kind": "known-range-below-min", "values": [10, 20, 30, 10], "codec": "bitpacked", "range": [0, 5]});
    let vals: Vec<u64> = vec![10, 20, 30, 10];
    let mut out = vec![];
    serialize_u64_based_column_values::<u64>(&&vals[..], &[CodecType::Bitpacked], &mut out).unwrap();
    let col = load_u64_based_column_values::<u64>(OwnedBytes::new(out)).unwrap();
    let mut pos = vec![];
    col.get_row_ids_for_value_range(0..=5, 0..4, &mut pos);
    ctx.report.case("known-range-below-min", true);
    if pos == vec![0, 3] {
        oracle(ctx, "C08:range-below-min-returns-min-rows", "values [10,20,30,10] (bitpacked): get_row_ids_for_value_range(0..=5) returns rows [0, 3] although no value lies in the range".into(), &case);
    } else if !pos.is_empty() {
        oracle(ctx, "C08:codec-range-lookup", format!("values [10,20,30,10] (bitpacked): get_row_ids_for_value_range(0..=5) returns {pos:?}"), &case);
    }
}

pub fn replay(ctx: &mut Ctx, case: &Value) {
    let kind = case["kind"].as_str().unwrap_or("").to_string();
    if kind == "consts" {
        check_constants(ctx);
        return;
    }
    if kind == "known-range-below-min" {
        known_range_below_min(ctx);
        return;
    }
    match case["case_seed"].as_u64() {
        Some(seed) => run_case(ctx, &kind, seed),
        None => ctx.report.notes.push("replay: case without case_seed".into()),
    }
}

pub fn run(ctx: &mut Ctx) {
    // functions translated from the Rust source (Gen/PureFns): translation vs real code
    crate::purefns::check(ctx, &["mono", "bits"], if ctx.thorough() { 4000 } else { 300 });
    ctx.report.rule = "one case = one generated bit-packed sequence / u64 column (distribution x codec list) / optional index \
        (per-block density profile) / columnar table (typed columns x cardinalities) / merge (inputs x row order) / tantivy index; \
        distinct = distinct content hash; non-trivial = at least 2 values (codec), a proper non-empty subset of rows (optidx), \
        a column with an absent or multi-valued row (columnar), at least 2 inputs or a deletion (merge), >= 2 segments or a delete (tantivy)".into();
    ctx.report.correspondence_obligations = vec![
        "BitPacker bytes = model pack (byte exact); model BitUnpacker::get on real bytes = values".into(),
        "compute_num_bits = model".into(),
        "BitUnpacker::get_ids_for_value_range = model (slow path / translated u32 conversion) on the same bytes".into(),
        "model decode of real column-values bytes (bitpacked / linear / blockwise) = indexed values; header stats equal".into(),
        "real decoder on model-encoded column bytes = values".into(),
        "serialize_optional_index bytes = model optEnc (byte exact, incl. sparse/dense switch at the threshold)".into(),
        "model rank / rank_if_exists / select on real optional-index bytes = real = brute force".into(),
        "i64_to_u64 / f64_to_u64 and inverses: real = extracted Gen functions".into(),
        "rows reported by the bitpacked range lookup = rows predicted by the model of transform_range_before_linear_transformation (guard re-extracted)".into(),
        "column index + values of real columnar files cross-decoded by the model (cardinality, optional index, start offsets, values)".into(),
        "merge row mapping: read(model mergeShuffled / mergeStacked) = real merged column rows".into(),
        "model decode of real compact-space (IP) column bytes = indexed u128 values; footer min/max equal".into(),
        "compact-space range lookup (query range -> compact range incl. gaps) = model on the real column bytes".into(),
        "Column::get_docids_for_value_range on written u64 columns = model (docid_range_to_rowids + select_batch_in_place)".into(),
        "cardinality of every written column = the model of ColumnWriter (op log, delta_with_last_doc); model writer reads back its rows".into(),
    ];
    if let Some(case) = ctx.replay.clone() {
        replay(ctx, &case);
        return;
    }
    check_constants(ctx);
    known_range_below_min(ctx);
    let plan: [(&str, u64, u64); 6] = [
        ("bitpack", 500, 2_200),
        ("codec", 230, 1_100),
        ("optidx", 60, 300),
        ("columnar", 260, 1_250),
        ("merge", 220, 1_100),
        ("tantivy", 14, 64),
    ];
    for (kind, q, t) in plan {
        let n = ctx.budget(q, t);
        for _ in 0..n {
            let seed = ctx.rng.next_u64();
            run_case(ctx, kind, seed);
        }
    }
}
