//! C17 — a sorted index keeps every segment in sort order, with unchanged semantics.
//!
//! Per real segment (fresh and merged): the sort-field values in doc-id order (deleted docs
//! included) are sorted in the configured direction, documents without a value first (asc) /
//! last (desc), for u64 / i64 / f64 / date / str / bytes sort fields with duplicates, missing
//! values and extremes. Every document's stored fields, fast values, norms and postings still
//! belong together (unique-id cross-check against an unsorted, never-merged reference index), and
//! deletes inside a transaction hit the same ids as the sequential replay (= the unsorted twin).
//! Model: the new→old mapping of every fresh segment equals Lean `sortOrder` (stable), the
//! deleted doc ids equal the model's remapped-opstamp computation, merged key sequences equal
//! Lean `kmerge`.
use super::c04::{doc_views, gen_doc, schema_with, uids_of, Fields, Reference};
use crate::model::nat_list;
use crate::rng::Rng;
use crate::segdump::dump_segment;
use crate::Ctx;
use serde_json::{json, Value};
use std::collections::{BTreeMap, BTreeSet, HashMap};
use std::panic::{catch_unwind, AssertUnwindSafe};
use tantivy::directory::RamDirectory;
use tantivy::index::{IndexSortByField, Order, SegmentId};
use tantivy::indexer::NoMergePolicy;
use tantivy::schema::{BytesOptions, DateOptions, Field, NumericOptions, FAST, STRING};
use tantivy::{DateTime, Index, IndexSettings, IndexWriter, SegmentReader, Term};

const TYPES: [&str; 6] = ["u64", "i64", "f64", "date", "str", "bytes"];

#[derive(Clone, Debug, PartialEq, Eq, PartialOrd, Ord, Hash)]
enum K {
    Missing,
    Num(u64),
    Bytes(Vec<u8>),
}

/// a generated sort value
#[derive(Clone, Debug)]
enum V {
    U(u64),
    I(i64),
    F(f64),
    D(i64),
    S(String),
    B(Vec<u8>),
}

impl V {
    fn key(&self) -> K {
        match self {
            V::U(v) => K::Num(*v),
            V::I(v) => K::Num(tantivy::i64_to_u64(*v)),
            V::F(v) => K::Num(tantivy::f64_to_u64(*v)),
            V::D(secs) => K::Num(tantivy::i64_to_u64(secs * 1_000_000_000)),
            V::S(s) => K::Bytes(s.as_bytes().to_vec()),
            V::B(b) => K::Bytes(b.clone()),
        }
    }
}

fn gen_value(rng: &mut Rng, ty: &str, profile: u64, base: i64) -> V {
    // profile 0: few distinct values (duplicates); 1: extremes; 2: wide random;
    // 3: a narrow range around `base` (per transaction: disjoint or touching ranges across segments)
    if profile == 3 {
        let v = base + rng.below(4) as i64;
        return match ty {
            "u64" => V::U((v + 1_000_000) as u64),
            "i64" => V::I(v),
            "f64" => V::F(v as f64 / 2.0),
            "date" => V::D(v),
            "str" => V::S(format!("{:08}", v + 1_000_000)),
            _ => V::B(((v + 1_000_000) as u32).to_be_bytes().to_vec()),
        };
    }
    match ty {
        "u64" => V::U(match profile { 0 => rng.below(4), 1 => *rng.pick(&[0, 1, u64::MAX, u64::MAX - 1, 1 << 63, (1 << 24) + 1, (1 << 53) + 1]), _ => rng.next_u64() }),
        "i64" => V::I(match profile { 0 => rng.below(4) as i64 - 2, 1 => *rng.pick(&[i64::MIN, i64::MAX, -1, 0, 1, i64::MIN + 1]), _ => rng.next_u64() as i64 }),
        "f64" => V::F(match profile { 0 => rng.below(4) as f64 - 1.5, 1 => *rng.pick(&[f64::NEG_INFINITY, f64::INFINITY, f64::MAX, f64::MIN, -0.0, 0.0, f64::MIN_POSITIVE, -f64::MIN_POSITIVE]), _ => (rng.next_u64() as i64 as f64) / 1e3 }),
        "date" => V::D(match profile { 0 => 1_600_000_000 + rng.below(4) as i64, 1 => *rng.pick(&[0, -1, 1, -9_000_000_000, 9_000_000_000]), _ => rng.below(4_000_000_000) as i64 - 2_000_000_000 }),
        "str" => V::S(match profile { 0 => format!("k{}", rng.below(4)), 1 => rng.pick(&["", "a", "aa", "b", "\u{10ffff}", "z", "A", "ä"]).to_string(), _ => format!("{:x}", rng.next_u64() >> rng.below(60)) }),
        _ => V::B(match profile { 0 => vec![rng.below(3) as u8], 1 => rng.pick(&[vec![], vec![0], vec![0, 0], vec![255], vec![255, 255], vec![1]]).clone(), _ => { let n = rng.usize_below(6); rng.bytes(n) } }),
    }
}

struct Env {
    index: Index,
    writer: IndexWriter,
    f: Fields,
    sk: Field,
    ty: &'static str,
    desc: bool,
    reference: Reference,
    key_of: HashMap<u64, K>,
    grp_of: HashMap<u64, u64>,
    next_uid: u64,
    pending: BTreeSet<u64>,
    committed: BTreeSet<u64>,
    known_segments: BTreeSet<String>,
    /// false = the case runs under another property's check (no C17 model requests)
    own: bool,
}

fn le_dir(desc: bool, a: &K, b: &K) -> bool {
    if desc { a >= b } else { a <= b }
}

/// sort keys of a segment in doc-id order, read back through the fast field readers
fn segment_keys(reader: &SegmentReader, ty: &str) -> Result<Vec<K>, String> {
    let ff = reader.fast_fields();
    let n = reader.max_doc();
    let e = |e: tantivy::TantivyError| format!("sort column: {e}");
    Ok(match ty {
        "u64" => { let c = ff.u64("sk").map_err(e)?; (0..n).map(|d| c.first(d).map(K::Num).unwrap_or(K::Missing)).collect() }
        "i64" => { let c = ff.i64("sk").map_err(e)?; (0..n).map(|d| c.first(d).map(|v| K::Num(tantivy::i64_to_u64(v))).unwrap_or(K::Missing)).collect() }
        "f64" => { let c = ff.f64("sk").map_err(e)?; (0..n).map(|d| c.first(d).map(|v| K::Num(tantivy::f64_to_u64(v))).unwrap_or(K::Missing)).collect() }
        "date" => { let c = ff.date("sk").map_err(e)?; (0..n).map(|d| c.first(d).map(|v| K::Num(tantivy::i64_to_u64(v.into_timestamp_nanos()))).unwrap_or(K::Missing)).collect() }
        "str" => match ff.str("sk").map_err(e)? {
            None => vec![K::Missing; n as usize],
            Some(c) => (0..n).map(|d| match c.term_ords(d).next() { Some(o) => { let mut b = vec![]; c.ord_to_bytes(o, &mut b).unwrap(); K::Bytes(b) } None => K::Missing }).collect(),
        },
        _ => match ff.bytes("sk").map_err(e)? {
            None => vec![K::Missing; n as usize],
            Some(c) => (0..n).map(|d| match c.term_ords(d).next() { Some(o) => { let mut b = vec![]; c.ord_to_bytes(o, &mut b).unwrap(); K::Bytes(b) } None => K::Missing }).collect(),
        },
    })
}

/// model token of a key list: order-preserving ranks among the distinct values of the case
fn key_tokens(keys: &[K], all: &BTreeMap<K, usize>) -> String {
    if keys.is_empty() {
        return "-".into();
    }
    keys.iter().map(|k| match k { K::Missing => "n".to_string(), k => all[k].to_string() }).collect::<Vec<_>>().join(",")
}

fn dir_name(desc: bool) -> &'static str {
    if desc { "desc" } else { "asc" }
}

struct BatchOp {
    /// Some(uid) = add, None = delete
    add: Option<u64>,
    del_uid: Option<u64>,
    del_grp: Option<u64>,
}

fn case(ctx: &mut Ctx, case_seed: u64) {
    case_for(ctx, case_seed, true)
}

/// `own` = false: the shaped sorted-merge case run under another property's check: oracle checks
/// only (no C17 model requests), violation keys renamed by the caller
pub fn case_for(ctx: &mut Ctx, case_seed: u64, own: bool) {
    let mut rng = Rng(case_seed);
    let ty = TYPES[rng.usize_below(TYPES.len())];
    let desc = rng.chance(1, 2);
    // multi-valued sort fields with disjoint ranges: every case with C17_PROBE_MULTI set; since
    // the repair of the live-null scan (/repo 3dc01ec26, `fixed:` in KNOWN_FINDINGS.txt) also one
    // own case in eight of the default run (u64 sort field, a third of the valued documents carry
    // the value twice => Cardinality::Multivalued), so that the finding is reported if it returns
    let probe_env = std::env::var("C17_PROBE_MULTI").is_ok();
    let probe_multi = probe_env || (own && case_seed % 8 == 3);
    let ty = if probe_multi && !probe_env { "u64" } else { ty };
    if probe_multi { ctx.report.count("shaped:multivalued-sort-column-cases"); }
    let profile = if probe_multi { 3 } else { rng.below(4) };
    // shaped mode: numeric sort field, disjoint value ranges across segments, and in every segment
    // a delete set chosen so that the first live document WITHOUT value sits at a doc id >= the
    // number of live docs (desc: the values before it are deleted; asc: nearly everything is)
    let late_nulls = !probe_multi && (!own || case_seed % 4 == 0);
    let ty = if late_nulls { TYPES[rng.usize_below(4)] } else { ty };
    let profile = if late_nulls { 3 } else { profile };
    let step: i64 = *rng.pick(&[3i64, 4, 10, -3, -4, -10]);
    let mut base: i64 = 0;
    let case = json!({"case_seed": case_seed.to_string(), "type": ty, "desc": desc});
    let mut sk_field: Option<Field> = None;
    let (schema, f) = schema_with(|sb| {
        sk_field = Some(match ty {
            "u64" => sb.add_u64_field("sk", FAST),
            "i64" => sb.add_i64_field("sk", NumericOptions::default().set_fast().set_indexed()),
            "f64" => sb.add_f64_field("sk", FAST),
            "date" => sb.add_date_field("sk", DateOptions::default().set_fast()),
            "str" => sb.add_text_field("sk", STRING | FAST),
            _ => sb.add_bytes_field("sk", BytesOptions::default().set_fast().set_indexed()),
        });
    });
    let sk = sk_field.unwrap();
    let mut settings = IndexSettings::default();
    settings.sort_by_field = Some(IndexSortByField { field: "sk".into(), order: if desc { Order::Desc } else { Order::Asc } });
    if rng.chance(1, 3) {
        settings.docstore_blocksize = 100;
    }
    let index = match Index::create(RamDirectory::create(), schema.clone(), settings) {
        Ok(i) => i,
        Err(e) => {
            ctx.report.violation("oracle", "C17:index-create-failed", format!("sorted index on a {ty} field refused: {e}"), case);
            return;
        }
    };
    let writer: IndexWriter = index.writer_with_num_threads(1, 15_000_000).unwrap();
    writer.set_merge_policy(Box::new(NoMergePolicy));
    let mut env = Env {
        index, writer, f, sk, ty, desc, reference: Reference::new(&schema), key_of: HashMap::new(), grp_of: HashMap::new(), next_uid: 1,
        pending: BTreeSet::new(), committed: BTreeSet::new(), known_segments: BTreeSet::new(), own,
    };
    if late_nulls { ctx.report.count("shaped:late-live-nulls-cases"); }
    ctx.report.count(&format!("type:{ty}:{}", dir_name(desc)));
    let rounds = if late_nulls { 2 + rng.usize_below(3) } else { 1 + rng.usize_below(4) };
    for _ in 0..rounds {
        // ---- one transaction = one fresh segment --------------------------------------
        let n = match rng.below(10) { 0 => 1, 1 => 127 + rng.usize_below(4), _ => 2 + rng.usize_below(30) };
        let missing_rate = *rng.pick(&[0u64, 0, 1, 3, 9, 10]);
        // shaped: which documents of the batch have no value
        let shaped: Option<Vec<bool>> = if late_nulls {
            let n_val = 1 + rng.usize_below(6);
            let n_null = if rng.chance(1, 4) { 0 } else { 1 + rng.usize_below(3) };
            let mut plan: Vec<bool> = (0..n_val + n_null).map(|i| i >= n_val).collect();
            rng.shuffle(&mut plan);
            Some(plan)
        } else {
            None
        };
        let n = shaped.as_ref().map(|p| p.len()).unwrap_or(n);
        let mut ops: Vec<BatchOp> = vec![];
        let mut batch_uids: Vec<u64> = vec![];
        for bi in 0..n {
            let uid = env.next_uid;
            env.next_uid += 1;
            let grp = rng.below(4);
            let mut doc = gen_doc(&mut rng, &env.f, uid, grp, "m");
            let no_value = match &shaped {
                Some(plan) => plan[bi],
                None => missing_rate > 0 && rng.below(10) < missing_rate,
            };
            let key = if no_value {
                K::Missing
            } else {
                let pr = if profile != 3 && rng.chance(1, 6) { 1 } else { profile };
                let v = gen_value(&mut rng, ty, pr, base);
                match &v {
                    V::U(x) => {
                        doc.add_u64(env.sk, *x);
                        if probe_multi && rng.chance(1, 3) {
                            doc.add_u64(env.sk, *x);
                        }
                    }
                    V::I(x) => doc.add_i64(env.sk, *x),
                    V::F(x) => doc.add_f64(env.sk, *x),
                    V::D(x) => doc.add_date(env.sk, DateTime::from_timestamp_secs(*x)),
                    V::S(x) => doc.add_text(env.sk, x),
                    V::B(x) => doc.add_bytes(env.sk, &x[..]),
                }
                v.key()
            };
            env.reference.add(doc.clone());
            env.writer.add_document(doc).unwrap();
            env.key_of.insert(uid, key);
            env.grp_of.insert(uid, grp);
            env.pending.insert(uid);
            batch_uids.push(uid);
            ops.push(BatchOp { add: Some(uid), del_uid: None, del_grp: None });
            // deletes inside the transaction: they must hit only documents added before them
            if shaped.is_none() && rng.chance(1, 6) {
                if rng.chance(1, 2) {
                    let g = rng.below(4);
                    env.writer.delete_term(Term::from_field_u64(env.f.grp, g));
                    let gone: Vec<u64> = env.pending.iter().copied().filter(|u| env.grp_of[u] == g).collect();
                    for u in gone { env.pending.remove(&u); }
                    ops.push(BatchOp { add: None, del_uid: None, del_grp: Some(g) });
                } else {
                    let u = 1 + rng.below(env.next_uid - 1);
                    env.writer.delete_term(Term::from_field_u64(env.f.id, u));
                    env.pending.remove(&u);
                    ops.push(BatchOp { add: None, del_uid: Some(u), del_grp: None });
                }
            }
        }
        if shaped.is_some() {
            // predicted doc order of the fresh segment (stable sort, missing first asc / last desc);
            // draw live sets until the first live doc without value has doc id >= number of live docs
            let mut order: Vec<usize> = (0..batch_uids.len()).collect();
            if desc {
                order.sort_by(|a, b| env.key_of[&batch_uids[*b]].cmp(&env.key_of[&batch_uids[*a]]));
            } else {
                order.sort_by(|a, b| env.key_of[&batch_uids[*a]].cmp(&env.key_of[&batch_uids[*b]]));
            }
            let mut live: Vec<bool> = vec![true; order.len()];
            for _try in 0..40 {
                let cand: Vec<bool> = (0..order.len()).map(|_| rng.chance(1, 2)).collect();
                let nlive = cand.iter().filter(|x| **x).count();
                let first_null = (0..order.len()).find(|d| cand[*d] && env.key_of[&batch_uids[order[*d]]] == K::Missing);
                let has_value = (0..order.len()).any(|d| cand[d] && env.key_of[&batch_uids[order[d]]] != K::Missing);
                live = cand;
                if let Some(d) = first_null {
                    if d >= nlive && has_value { break; }
                }
            }
            for d in 0..order.len() {
                if !live[d] {
                    let u = batch_uids[order[d]];
                    env.writer.delete_term(Term::from_field_u64(env.f.id, u));
                    env.pending.remove(&u);
                    ops.push(BatchOp { add: None, del_uid: Some(u), del_grp: None });
                }
            }
        }
        base += step;
        env.writer.commit().unwrap();
        env.committed = env.pending.clone();
        env.reference.sync();
        if !check_all(ctx, &mut env, "after commit", &case, if own { Some((&batch_uids, &ops)) } else { None }) {
            return;
        }
        // ---- maybe merge ---------------------------------------------------------------
        let metas = env.index.searchable_segment_metas().unwrap();
        if metas.len() >= 2 && rng.chance(2, 3) {
            let mut ids: Vec<SegmentId> = metas.iter().map(|m| m.id()).collect();
            ids.sort();
            rng.shuffle(&mut ids);
            let take = 2 + rng.usize_below(ids.len() - 1);
            ids.truncate(take);
            // live keys of the sources (doc-id order) for the model's k-way merge
            let mut runs: Vec<Vec<K>> = vec![];
            // sort column of every source as the stack-vs-k-way decision sees it (numeric types)
            let mut segcols: Vec<(String, Vec<u64>)> = vec![];
            // full dumps of the sources for the Lean merge through the REAL new→old table
            let mut src_dumps: Vec<(crate::segdump::SegDump, Vec<u64>)> = vec![];
            for id in &ids {
                let seg = env.index.searchable_segments().unwrap().into_iter().find(|s| s.id() == *id).unwrap();
                let r = SegmentReader::open(&seg).unwrap();
                let keys = segment_keys(&r, ty).unwrap();
                if let Ok(d) = dump_segment(&seg, &r, None) {
                    src_dumps.push((d, uids_of(&r).unwrap()));
                }
                if !matches!(ty, "str" | "bytes") && r.num_docs() > 0 {
                    if let Ok(Some((col, _))) = r.fast_fields().u64_lenient("sk") {
                        let card = match col.get_cardinality() {
                            tantivy::columnar::Cardinality::Full => "full",
                            tantivy::columnar::Cardinality::Optional => "optional",
                            tantivy::columnar::Cardinality::Multivalued => "multivalued",
                        };
                        let ks: Vec<String> = keys.iter().map(|k| match k { K::Num(v) => v.to_string(), _ => "n".to_string() }).collect();
                        let al: String = (0..r.max_doc()).map(|d| if r.is_deleted(d) { '0' } else { '1' }).collect();
                        let u = uids_of(&r).unwrap();
                        let live: Vec<u64> = (0..r.max_doc()).filter(|d| !r.is_deleted(*d)).map(|d| u[d as usize]).collect();
                        segcols.push((format!("{card};{};{al};{}:{}", ks.join(","), col.min_value(), col.max_value()), live));
                    }
                }
                if let Some(d) = (0..r.max_doc()).find(|d| !r.is_deleted(*d) && keys[*d as usize] == K::Missing) {
                    if d >= r.num_docs() { ctx.report.count("merge:source-first-live-null-at-or-beyond-num-docs"); }
                }
                runs.push((0..r.max_doc()).filter(|d| !r.is_deleted(*d)).map(|d| keys[d as usize].clone()).collect());
            }
            let res = env.writer.merge(&ids).wait();
            match res {
                Err(e) => {
                    ctx.report.violation("oracle", "C17:merge-failed", format!("merge of {} sorted segments ({ty} {}) failed: {e}", ids.len(), dir_name(desc)), case.clone());
                    return;
                }
                Ok(mm) => {
                    ctx.report.count("merges");
                    if !check_all(ctx, &mut env, "after merge", &case, None) {
                        return;
                    }
                    if let Some(mm) = mm {
                        let seg = env.index.searchable_segments().unwrap().into_iter().find(|s| s.id() == mm.id());
                        if let Some(seg) = seg {
                            let r = SegmentReader::open(&seg).unwrap();
                            let keys = segment_keys(&r, ty).unwrap();
                            let mut all: BTreeMap<K, usize> = BTreeMap::new();
                            for k in runs.iter().flatten().chain(keys.iter()) { all.insert(k.clone(), 0); }
                            for (i, (_, v)) in all.iter_mut().enumerate() { *v = i; }
                            if !own { continue; }
                            let toks: Vec<String> = runs.iter().map(|r| key_tokens(r, &all)).collect();
                            let m = ctx.model.ask(&format!("C17 kmerge {} {}", dir_name(desc), toks.join(" ")));
                            if m != key_tokens(&keys, &all) {
                                ctx.report.violation("model", "C17:kmerge-keys-differ", format!("key sequence of the merged segment differs from Lean kmerge ({ty} {})", dir_name(desc)), case.clone());
                                return;
                            }
                            // the Lean stack-vs-k-way decision on the real columns: when it says
                            // "stack", the merged doc order must be the readers stacked in
                            // min-value order
                            if !segcols.is_empty() {
                                let ans = ctx.model.ask(&format!("C17 decision {} {}", dir_name(desc), segcols.iter().map(|s| s.0.clone()).collect::<Vec<_>>().join(" ")));
                                let parts: Vec<&str> = ans.split('/').collect();
                                if parts.len() == 3 {
                                    ctx.report.count(match parts[0] { "1" => "decision:stack", "0" => "decision:k-way", _ => "decision:source-shape-changed" });
                                    if parts[2] == "1" { ctx.report.count("decision:live-nulls"); }
                                    if parts[0] == "1" {
                                        let order = crate::model::parse_nat_list(parts[1]).unwrap_or_default();
                                        let expect: Vec<u64> = order.iter().flat_map(|i| segcols[*i as usize].1.clone()).collect();
                                        let real: Vec<u64> = uids_of(&r).unwrap();
                                        if real != expect {
                                            ctx.report.violation("model", "C17:stack-decision-differs", format!("Lean stackDecision says the {} readers are stacked in min-value order, but the merged segment's doc order differs ({ty} {})", segcols.len(), dir_name(desc)), case.clone());
                                            return;
                                        }
                                    }
                                } else {
                                    ctx.report.violation("model", "C17:decision-bad-answer", format!("model answered {ans}"), case.clone());
                                    return;
                                }
                            }
                            // the merged segment = the Lean merge of the dumped sources through the
                            // table the real merge used (read off the unique ids)
                            if src_dumps.len() == ids.len() {
                                let nkeys: usize = src_dumps.iter().map(|(d, _)| d.terms.len()).sum();
                                if nkeys * nkeys * src_dumps.len() <= 30_000_000 {
                                    let mut addr: HashMap<u64, (usize, usize)> = HashMap::new();
                                    for (si, (d, u)) in src_dumps.iter().enumerate() {
                                        for doc in 0..d.max_doc as usize {
                                            if d.alive[doc] { addr.insert(u[doc], (si, doc)); }
                                        }
                                    }
                                    let muids = uids_of(&r).unwrap();
                                    let tbl: Vec<String> = muids.iter().filter_map(|u| addr.get(u)).map(|(a, b)| format!("{a}:{b}")).collect();
                                    if tbl.len() == muids.len() {
                                        if let Ok(md) = dump_segment(&seg, &r, None) {
                                            let toks: Vec<String> = src_dumps.iter().map(|(d, _)| d.token_with(&d.alive)).collect();
                                            let ans = ctx.model.ask(&format!("C17 shuffled {} {}", if tbl.is_empty() { "-".to_string() } else { tbl.join(",") }, toks.join(" ")));
                                            ctx.report.count("merge:lean-shuffled-merge-compared");
                                            if ans != md.logical().token() {
                                                ctx.report.violation("model", "C17:shuffled-merge-differs", format!("merged segment of a sorted index ({ty} {}) differs from the Lean merge of the dumped sources through the real new→old table", dir_name(desc)), case.clone());
                                                return;
                                            }
                                        }
                                    }
                                }
                            }
                            let disjoint = runs.windows(2).all(|w| w[0].iter().all(|a| w[1].iter().all(|b| le_dir(desc, a, b))));
                            ctx.report.count(if disjoint { "merge:disjoint-ranges" } else { "merge:overlapping-ranges" });
                        }
                    }
                }
            }
        }
    }
    if ctx.report.samples.len() < 4 {
        ctx.report.sample(json!({"case": "sorted index", "type": ty, "order": dir_name(desc), "docs": env.next_uid - 1, "live": env.committed.len(), "segments": env.index.searchable_segment_metas().unwrap().len()}));
    }
}

/// every searchable segment: sorted; every live doc = reference doc; live set = sequential replay.
/// `fresh`: the uids and operations of the transaction that produced the newest segment.
fn check_all(ctx: &mut Ctx, env: &mut Env, when: &str, case: &Value, fresh: Option<(&Vec<u64>, &Vec<BatchOp>)>) -> bool {
    let (ty, desc) = (env.ty, env.desc);
    let mut seen: BTreeSet<u64> = BTreeSet::new();
    for seg in env.index.searchable_segments().unwrap() {
        let sid = seg.id().uuid_string();
        let r = match SegmentReader::open(&seg) {
            Ok(r) => r,
            Err(e) => {
                ctx.report.violation("oracle", "C17:segment-unreadable", format!("{when}: {e}"), case.clone());
                return false;
            }
        };
        let keys = match segment_keys(&r, ty) {
            Ok(k) => k,
            Err(e) => {
                ctx.report.violation("oracle", "C17:sort-column-unreadable", format!("{when}: {e}"), case.clone());
                return false;
            }
        };
        let uids = uids_of(&r).unwrap();
        // (1) sorted in the configured direction, missing first (asc) / last (desc), deleted docs included
        for d in 1..keys.len() {
            if !le_dir(desc, &keys[d - 1], &keys[d]) {
                let nulls = keys[d - 1] == K::Missing || keys[d] == K::Missing;
                let mut key = if nulls { "C17:null-placement" } else { "C17:segment-not-sorted" };
                if nulls && std::env::var("C17_PROBE_MULTI").is_ok() {
                    // probe mode only: multi-valued sort column, see KNOWN_FINDINGS.txt
                    key = "C17:multivalued-sort-column-stacked-with-live-nulls";
                }
                ctx.report.violation("oracle", key, format!("{when}: segment {sid} ({ty} {}): doc {} has key {:?} but doc {} has key {:?}", dir_name(desc), d - 1, keys[d - 1], d, keys[d]), case.clone());
                return false;
            }
        }
        // (2) the sort value read back is the value the document was added with
        for d in 0..keys.len() {
            if env.key_of.get(&uids[d]) != Some(&keys[d]) {
                ctx.report.violation("oracle", "C17:sort-value-changed", format!("{when}: segment {sid}: doc {d} (id={}) reads sort key {:?}, was added with {:?}", uids[d], keys[d], env.key_of.get(&uids[d])), case.clone());
                return false;
            }
        }
        // (3) every live doc still is the same document (stored, norms, fast values, postings)
        let dump = match dump_segment(&seg, &r, None) {
            Ok(d) => d,
            Err(e) => {
                ctx.report.violation("oracle", "C17:segment-unreadable", format!("{when}: {e}"), case.clone());
                return false;
            }
        };
        if let Err(e) = dump.well_formed() {
            ctx.report.violation("oracle", "C17:segment-ill-formed", format!("{when}: segment {sid}: {e}"), case.clone());
            return false;
        }
        for (uid, v) in doc_views(&dump, &uids, &dump.alive) {
            if !seen.insert(uid) {
                ctx.report.violation("oracle", "C17:duplicate-doc", format!("{when}: document id={uid} is live twice"), case.clone());
                return false;
            }
            match env.reference.views.get(&uid) {
                Some(rv) if *rv == v => {}
                Some(rv) => {
                    let part = if rv.payload != v.payload {
                        let (a, b): (Vec<&str>, Vec<&str>) = (rv.payload.split('|').collect(), v.payload.split('|').collect());
                        ["stored fields", "field norms", "fast values"][(0..a.len().min(b.len())).find(|j| a[*j] != b[*j]).unwrap_or(0).min(2)]
                    } else {
                        "postings (terms, tf or positions)"
                    };
                    ctx.report.violation("oracle", "C17:doc-parts-separated", format!("{when}: segment {sid} ({ty} {}): document id={uid} no longer matches the unsorted reference: {part} differ", dir_name(desc)), case.clone());
                    return false;
                }
                None => {
                    ctx.report.violation("oracle", "C17:unknown-doc", format!("{when}: document id={uid} was never added"), case.clone());
                    return false;
                }
            }
        }
        // (4) fresh segment: mapping = Lean sortOrder (stable), deleted ids = Lean remapped opstamps
        let is_new = env.known_segments.insert(sid.clone());
        if let (true, Some((batch, ops))) = (is_new, fresh) {
            if uids.len() == batch.len() && uids.iter().all(|u| batch.contains(u)) {
                let pos: HashMap<u64, usize> = batch.iter().enumerate().map(|(i, u)| (*u, i)).collect();
                let real_n2o: Vec<usize> = uids.iter().map(|u| pos[u]).collect();
                let in_keys: Vec<K> = batch.iter().map(|u| env.key_of[u].clone()).collect();
                let mut all: BTreeMap<K, usize> = in_keys.iter().map(|k| (k.clone(), 0)).collect();
                for (i, (_, v)) in all.iter_mut().enumerate() { *v = i; }
                let ktok = key_tokens(&in_keys, &all);
                let m = ctx.model.ask(&format!("C17 sortorder {} {}", dir_name(desc), ktok));
                if m != nat_list(&real_n2o) {
                    ctx.report.violation("model", "C17:sort-order-differs", format!("{when}: new→old mapping of a fresh segment ({ty} {}) differs from Lean sortOrder: real {} model {}", dir_name(desc), nat_list(&real_n2o), m), case.clone());
                    return false;
                }
                ctx.report.count("fresh-segment:mapping-compared");
                if in_keys.windows(2).any(|w| w[0] == w[1]) || in_keys.iter().collect::<BTreeSet<_>>().len() < in_keys.len() {
                    ctx.report.count("fresh-segment:duplicate-keys");
                }
                if in_keys.iter().any(|k| *k == K::Missing) {
                    ctx.report.count("fresh-segment:missing-values");
                }
                // in-transaction deletes through remapped opstamps
                let mut expected_dead: BTreeSet<usize> = BTreeSet::new();
                let mut opstamp_of: HashMap<u64, usize> = HashMap::new();
                for (i, op) in ops.iter().enumerate() {
                    if let Some(u) = op.add { opstamp_of.insert(u, i); }
                }
                let opstamps: Vec<usize> = batch.iter().map(|u| opstamp_of[u]).collect();
                let mut ndel = 0;
                for (i, op) in ops.iter().enumerate() {
                    if op.add.is_some() { continue; }
                    let matches: String = batch.iter().map(|u| if op.del_uid == Some(*u) || op.del_grp == Some(env.grp_of[u]) { '1' } else { '0' }).collect();
                    let ans = ctx.model.ask(&format!("C17 deletes {} {} {} {} {}", dir_name(desc), ktok, matches, nat_list(&opstamps), i));
                    let mut parts = ans.split('/');
                    let (a, b) = (parts.next().unwrap_or(""), parts.next().unwrap_or(""));
                    if a != b {
                        ctx.report.violation("model", "C17:model-deletes-inconsistent", format!("Lean: deletes through remapped opstamps {a} ≠ images of unsorted deletes {b}"), case.clone());
                        return false;
                    }
                    for x in crate::model::parse_nat_list(a).unwrap_or_default() { expected_dead.insert(x as usize); }
                    ndel += 1;
                }
                let real_dead: BTreeSet<usize> = (0..dump.max_doc as usize).filter(|d| !dump.alive[*d]).collect();
                if real_dead != expected_dead {
                    ctx.report.violation("oracle", "C17:delete-hit-wrong-docs", format!("{when}: fresh sorted segment ({ty} {}): deleted doc ids {:?}, the {} in-transaction deletes computed on the unsorted order and mapped give {:?}", dir_name(desc), real_dead, ndel, expected_dead), case.clone());
                    return false;
                }
                if ndel > 0 { ctx.report.count("fresh-segment:in-transaction-deletes"); }
                if !real_dead.is_empty() { ctx.report.count("fresh-segment:docs-deleted-in-transaction"); }
                let nontrivial = real_n2o.iter().enumerate().any(|(i, o)| i != *o);
                ctx.report.case(&format!("{ty}|{desc}|{ktok}|{ndel}"), nontrivial);
            }
        } else {
            ctx.report.case(&format!("{ty}|{desc}|seg|{}|{}", keys.len(), when), keys.len() > 1);
        }
    }
    if seen != env.committed {
        let missing: Vec<&u64> = env.committed.difference(&seen).take(5).collect();
        let extra: Vec<&u64> = seen.difference(&env.committed).take(5).collect();
        ctx.report.violation("oracle", "C17:deletes-differ-from-unsorted", format!("{when} ({ty} {}): live docs differ from the sequential replay / unsorted twin: missing {missing:?} unexpected {extra:?}", dir_name(desc)), case.clone());
        return false;
    }
    true
}

pub fn run(ctx: &mut Ctx) {
    ctx.report.rule = "cases = fresh sorted segments (mapping compared with the model) and every other segment checked; \
        non-trivial = the sort really permuted the documents (fresh) / the segment has >= 2 docs; distinct by (type, direction, key sequence, deletes)".into();
    ctx.report.correspondence_obligations = vec![
        "every segment: sort keys in doc-id order sorted in the configured direction, missing first asc / last desc (oracle)".into(),
        "every live doc = same doc in the unsorted never-merged reference (stored, norms, fast values, postings) (oracle)".into(),
        "live docs = sequential replay (in-transaction deletes hit the same ids as unsorted) (oracle)".into(),
        "fresh segment new→old mapping = Lean sortOrder (stable)".into(),
        "deleted doc ids of a fresh segment = Lean deleteHits on remapped opstamps".into(),
        "merged key sequence = Lean kmerge".into(),
    ];
    if let Some(c) = ctx.replay.clone() {
        let seed: u64 = c["case_seed"].as_str().and_then(|s| s.parse().ok()).unwrap_or(0);
        let _ = catch_unwind(AssertUnwindSafe(|| case(ctx, seed)));
        return;
    }
    for _ in 0..ctx.budget(150, 3500) {
        let s = ctx.rng.next_u64();
        let r = catch_unwind(AssertUnwindSafe(|| case(ctx, s)));
        if let Err(e) = r {
            let msg = e.downcast_ref::<String>().cloned().or_else(|| e.downcast_ref::<&str>().map(|s| s.to_string())).unwrap_or_default();
            ctx.report.violation("oracle", "C17:panic", format!("panic: {msg}"), json!({"case_seed": s.to_string()}));
        }
    }
}
