//! C04 — merging never changes the logical content of the index.
//!
//! Translation validation of every merge the harness performs: canonical dump (`segdump`) of the
//! source segments before, of the merged segment after; expected = concatenation of the live
//! docs in source order, computed here AND by the Lean model (`mergeSpec`, `mergeModel`).
//! Independently, after every publish the whole index is compared document by document (stored
//! bytes, norms, fast values, every term with tf and positions) with a reference index that is
//! never merged and never sees a delete.
//! Schedules: the `VDir` hook pauses the merge thread at its k-th storage operation while the
//! main thread commits deletes / rolls back / deletes all / merges / garbage-collects.
use crate::dirs::{OpKind, OpRec, VDir};
use crate::rng::Rng;
use crate::segdump::{dump_segment, Logical, SegDump};
use crate::Ctx;
use serde_json::{json, Value};
use std::collections::{BTreeMap, BTreeSet, HashMap};
use std::net::Ipv6Addr;
use std::panic::{catch_unwind, AssertUnwindSafe};
use std::sync::{Arc, Condvar, Mutex};
use std::time::Duration;
use tantivy::directory::RamDirectory;
use tantivy::index::SegmentId;
use tantivy::indexer::{LogMergePolicy, NoMergePolicy};
use tantivy::schema::{
    BytesOptions, DateOptions, Facet, FacetOptions, Field, IndexRecordOption, IpAddrOptions, JsonObjectOptions,
    NumericOptions, Schema, TextFieldIndexing, TextOptions, FAST, INDEXED, STORED, STRING, TEXT,
};
use tantivy::{DateTime, Index, IndexSettings, IndexWriter, SegmentMeta, SegmentReader, TantivyDocument, Term};

pub const WORDS: [&str; 28] = [
    "alpha", "beta", "gamma", "delta", "epsilon", "zeta", "eta", "theta", "iota", "kappa", "lambda", "mu", "nu",
    "xi", "omicron", "pi", "rho", "sigma", "tau", "upsilon", "phi", "chi", "psi", "omega", "über", "naïve", "日本", "x",
];

#[derive(Clone)]
pub struct Fields {
    pub id: Field,
    pub grp: Field,
    pub title: Field,
    pub body: Field,
    pub freq: Field,
    pub tag: Field,
    pub num: Field,
    pub score: Field,
    pub flag: Field,
    pub date: Field,
    pub ip: Field,
    pub bytes: Field,
    pub facet: Field,
    pub js: Field,
}

pub fn schema() -> (Schema, Fields) {
    schema_with(|_| {})
}

/// the C04 schema plus whatever `extra` adds (C17 adds the sort field)
pub fn schema_with(extra: impl FnOnce(&mut tantivy::schema::SchemaBuilder)) -> (Schema, Fields) {
    let mut sb = Schema::builder();
    let id = sb.add_u64_field("id", FAST | INDEXED | STORED);
    let grp = sb.add_u64_field("grp", FAST | INDEXED);
    let title = sb.add_text_field("title", TEXT | STORED);
    let body = sb.add_text_field("body", TEXT);
    let freq = sb.add_text_field(
        "freq",
        TextOptions::default().set_indexing_options(
            TextFieldIndexing::default().set_tokenizer("default").set_index_option(IndexRecordOption::WithFreqs),
        ),
    );
    let tag = sb.add_text_field("tag", STRING | FAST | STORED);
    let num = sb.add_i64_field("num", NumericOptions::default().set_fast().set_indexed().set_fieldnorm());
    let score = sb.add_f64_field("score", FAST | STORED);
    let flag = sb.add_bool_field("flag", FAST | INDEXED);
    let date = sb.add_date_field("date", DateOptions::default().set_fast().set_indexed().set_stored());
    let ip = sb.add_ip_addr_field("ip", IpAddrOptions::default().set_fast().set_indexed().set_stored());
    let bytes = sb.add_bytes_field("bytes", BytesOptions::default().set_fast().set_indexed().set_stored());
    let facet = sb.add_facet_field("facet", FacetOptions::default().set_stored());
    let js = sb.add_json_field("js", JsonObjectOptions::from(TEXT | STORED).set_fast(None));
    extra(&mut sb);
    (sb.build(), Fields { id, grp, title, body, freq, tag, num, score, flag, date, ip, bytes, facet, js })
}

fn words(rng: &mut Rng, n: usize, vocab: usize) -> String {
    (0..n).map(|_| WORDS[rng.usize_below(vocab.min(WORDS.len()))]).collect::<Vec<_>>().join(" ")
}

/// `marker`: a word that occurs only in documents of one batch (a term present in one source)
pub fn gen_doc(rng: &mut Rng, f: &Fields, uid: u64, grp: u64, marker: &str) -> TantivyDocument {
    let mut d = TantivyDocument::default();
    d.add_u64(f.id, uid);
    d.add_u64(f.grp, grp);
    let vocab = 3 + rng.usize_below(25);
    match rng.below(8) {
        0 => {}
        1 => d.add_text(f.title, ""),
        _ => {
            let n = 1 + rng.usize_below(10);
            d.add_text(f.title, &words(rng, n, vocab));
            if rng.chance(1, 5) {
                let n = 1 + rng.usize_below(4);
                d.add_text(f.title, &words(rng, n, vocab)); // multi-valued text
            }
        }
    }
    let blen = match rng.below(10) { 0 => 0, 1 => 40 + rng.usize_below(60), 2 => 300 + rng.usize_below(200), _ => 1 + rng.usize_below(14) };
    let mut body = words(rng, blen, vocab);
    if rng.chance(1, 2) {
        body.push(' ');
        body.push_str(marker);
    }
    d.add_text(f.body, &body);
    if rng.chance(2, 3) {
        let n = 1 + rng.usize_below(8);
        d.add_text(f.freq, &words(rng, n, 4));
    }
    for _ in 0..rng.below(4) {
        d.add_text(f.tag, &format!("t{}", rng.below(6)));
    }
    for _ in 0..rng.below(3) {
        d.add_i64(f.num, *rng.pick(&[i64::MIN, -1, 0, 1, 7, 1 << 40, i64::MAX]));
    }
    if rng.chance(2, 3) {
        d.add_f64(f.score, *rng.pick(&[0.0, -0.0, 1.5, -2.25, f64::MAX, f64::MIN_POSITIVE, 1e300]));
    }
    if rng.chance(1, 2) {
        d.add_bool(f.flag, rng.chance(1, 2));
    }
    if rng.chance(2, 3) {
        d.add_date(f.date, DateTime::from_timestamp_secs(1_600_000_000 + (rng.below(5) as i64) * 86_400));
    }
    if rng.chance(1, 2) {
        d.add_ip_addr(f.ip, Ipv6Addr::from((rng.below(4) as u128) << 64 | rng.below(3) as u128));
    }
    if rng.chance(1, 2) {
        let n = rng.usize_below(5);
        d.add_bytes(f.bytes, &rng.bytes(n)[..]);
    }
    if rng.chance(1, 2) {
        d.add_facet(f.facet, Facet::from(&format!("/top{}/sub{}", rng.below(3), rng.below(3))[..]));
    }
    if rng.chance(2, 3) {
        let mut o = serde_json::Map::new();
        if rng.chance(2, 3) { let n = 1 + rng.usize_below(5); o.insert("a".into(), json!(words(rng, n, 6))); }
        if rng.chance(1, 2) { o.insert("n".into(), json!(rng.below(5) as i64)); }
        if rng.chance(1, 3) { o.insert("b".into(), json!(rng.chance(1, 2))); }
        if rng.chance(1, 3) { o.insert("f".into(), json!(0.5 + rng.below(3) as f64)); }
        if rng.chance(1, 3) { let n = 1 + rng.usize_below(3); o.insert("nested".into(), json!({"x": words(rng, n, 5), "k": [1, 2]})); }
        let obj: BTreeMap<String, tantivy::schema::OwnedValue> =
            o.into_iter().map(|(k, v)| (k, tantivy::schema::OwnedValue::from(v))).collect();
        d.add_object(f.js, obj);
    }
    d
}

/// one document as it must look in every segment it ever lives in
#[derive(Clone, Debug, PartialEq, Eq)]
pub struct DocView {
    pub payload: String,
    pub terms: Vec<(Vec<u8>, u32, Vec<u32>)>,
}

pub fn uids_of(reader: &SegmentReader) -> Result<Vec<u64>, String> {
    let col = reader.fast_fields().u64("id").map_err(|e| format!("id column: {e}"))?;
    Ok((0..reader.max_doc()).map(|d| col.first(d).unwrap_or(u64::MAX)).collect())
}

pub fn doc_views(dump: &SegDump, uids: &[u64], alive: &[bool]) -> Vec<(u64, DocView)> {
    let mut per_doc: Vec<Vec<(Vec<u8>, u32, Vec<u32>)>> = vec![vec![]; dump.max_doc as usize];
    for (k, rows) in &dump.terms {
        for (d, tf, pos) in rows {
            per_doc[*d as usize].push((k.clone(), *tf, pos.clone()));
        }
    }
    (0..dump.max_doc as usize)
        .filter(|d| alive[*d])
        .map(|d| (uids[d], DocView { payload: dump.payload[d].clone(), terms: std::mem::take(&mut per_doc[d]) }))
        .collect()
}

/// reference index: same documents, one writer, never merged, never deleted from
pub struct Reference {
    index: Index,
    writer: IndexWriter,
    seen: BTreeSet<String>,
    pub views: HashMap<u64, DocView>,
}

impl Reference {
    pub fn new(schema: &Schema) -> Reference {
        let index = Index::create(RamDirectory::create(), schema.clone(), IndexSettings::default()).unwrap();
        let writer: IndexWriter = index.writer_with_num_threads(1, 15_000_000).unwrap();
        writer.set_merge_policy(Box::new(NoMergePolicy));
        Reference { index, writer, seen: BTreeSet::new(), views: HashMap::new() }
    }
    pub fn add(&mut self, doc: TantivyDocument) {
        self.writer.add_document(doc).unwrap();
    }
    pub fn sync(&mut self) {
        self.writer.commit().unwrap();
        for seg in self.index.searchable_segments().unwrap() {
            let id = seg.id().uuid_string();
            if self.seen.insert(id) {
                let r = SegmentReader::open(&seg).unwrap();
                let d = dump_segment(&seg, &r, None).unwrap();
                let u = uids_of(&r).unwrap();
                for (uid, v) in doc_views(&d, &u, &d.alive) {
                    self.views.insert(uid, v);
                }
            }
        }
    }
}

/// gate + pause machinery shared with the merge threads through the VDir hook
#[derive(Default)]
struct GateState {
    /// pause the merge thread at its k-th pausable operation (schedule cases)
    pause_at: Option<u64>,
    seen: u64,
    paused: bool,
    resume: bool,
    /// block merge threads when they open the merged segment's store for writing (policy cases)
    gate: bool,
    blocked: usize,
    permits: usize,
    meta_writes: u64,
}

#[derive(Clone)]
struct Gate(Arc<(Mutex<GateState>, Condvar)>);

fn pausable(rec: &OpRec) -> bool {
    matches!(rec.kind, OpKind::OpenRead | OpKind::OpenWrite | OpKind::Write | OpKind::Flush | OpKind::Terminate)
        && !rec.path.ends_with(".json")
        && !rec.path.ends_with(".lock")
}

impl Gate {
    fn new() -> Gate {
        Gate(Arc::new((Mutex::new(GateState::default()), Condvar::new())))
    }
    fn install(&self, vdir: &VDir) {
        let g = self.clone();
        vdir.set_hook(Some(Arc::new(move |rec: &OpRec| g.on_op(rec))));
    }
    fn on_op(&self, rec: &OpRec) {
        let (m, cv) = &*self.0;
        let mut s = m.lock().unwrap();
        if rec.kind == OpKind::AtomicWrite && rec.path == "meta.json" {
            s.meta_writes += 1;
            cv.notify_all();
        }
        if !rec.thread.starts_with("merge_thread") {
            return;
        }
        if s.gate && rec.kind == OpKind::OpenWrite && rec.path.ends_with(".store") {
            s.blocked += 1;
            cv.notify_all();
            let (mut s2, _) = cv.wait_timeout_while(s, Duration::from_secs(20), |s| s.permits == 0).unwrap();
            if s2.permits > 0 {
                s2.permits -= 1;
            }
            s2.blocked -= 1;
            cv.notify_all();
            return;
        }
        if let Some(k) = s.pause_at {
            if pausable(rec) {
                if s.seen == k {
                    s.paused = true;
                    s.pause_at = None;
                    cv.notify_all();
                    let (mut s2, _) = cv.wait_timeout_while(s, Duration::from_secs(20), |s| !s.resume).unwrap();
                    s2.resume = false;
                    s2.paused = false;
                    s2.seen += 1;
                    cv.notify_all();
                    return;
                }
                s.seen += 1;
            }
        }
    }
    fn with<R>(&self, f: impl FnOnce(&mut GateState) -> R) -> R {
        let (m, cv) = &*self.0;
        let mut s = m.lock().unwrap();
        let r = f(&mut s);
        cv.notify_all();
        r
    }
    /// wait until `pred` holds or the timeout expires; returns whether it holds
    fn wait(&self, timeout: Duration, pred: impl Fn(&GateState) -> bool) -> bool {
        let (m, cv) = &*self.0;
        let s = m.lock().unwrap();
        let (s, _) = cv.wait_timeout_while(s, timeout, |s| !pred(s)).unwrap();
        pred(&s)
    }
}

struct Env {
    vdir: VDir,
    index: Index,
    writer: Option<IndexWriter>,
    f: Fields,
    reference: Reference,
    gate: Gate,
    grp_of: HashMap<u64, u64>,
    next_uid: u64,
    batch: u64,
    /// sequential replay: live uids if everything so far were committed / as of the last commit
    pending: BTreeSet<u64>,
    committed: BTreeSet<u64>,
    /// segment dumps by segment id (taken when the segment was first seen)
    dumps: HashMap<String, (SegDump, Vec<u64>)>,
    log: Vec<String>,
    /// events for the Lean writer machine (`C04 trace`): uids added since the last flush, and the
    /// event tokens so far (only maintained by the cases that control every flush themselves)
    buffer: Vec<u64>,
    evlog: Vec<String>,
}

impl Env {
    fn new(rng: &mut Rng) -> Env {
        let (schema, f) = schema();
        let vdir = VDir::new();
        let mut settings = IndexSettings::default();
        // small blocks: stores with >= 6 checkpoints take the stacking path of write_storable_fields
        settings.docstore_blocksize = *rng.pick(&[16_384usize, 200, 50, 1_000]);
        if rng.chance(1, 4) {
            settings.docstore_compress_dedicated_thread = false;
        }
        let index = Index::create(vdir.clone(), schema.clone(), settings).unwrap();
        let writer: IndexWriter = index.writer_with_num_threads(1, 15_000_000).unwrap();
        writer.set_merge_policy(Box::new(NoMergePolicy));
        let gate = Gate::new();
        gate.install(&vdir);
        Env {
            vdir, index, writer: Some(writer), f, reference: Reference::new(&schema), gate, grp_of: HashMap::new(), next_uid: 1, batch: 0,
            pending: BTreeSet::new(), committed: BTreeSet::new(), dumps: HashMap::new(), log: vec![],
            buffer: vec![], evlog: vec![],
        }
    }
    fn add_docs(&mut self, rng: &mut Rng, n: usize) {
        self.add_docs_grp(rng, n, None)
    }
    /// `grp`: every new doc carries this delete key (the upsert pattern `delete(key); add(key)`)
    fn add_docs_grp(&mut self, rng: &mut Rng, n: usize, force_grp: Option<u64>) {
        self.batch += 1;
        let marker = format!("only{}", self.batch);
        for _ in 0..n {
            let uid = self.next_uid;
            self.next_uid += 1;
            let grp = force_grp.unwrap_or_else(|| rng.below(5));
            let doc = gen_doc(rng, &self.f, uid, grp, &marker);
            self.reference.add(doc.clone());
            self.writer.as_mut().unwrap().add_document(doc).unwrap();
            self.grp_of.insert(uid, grp);
            self.pending.insert(uid);
            self.buffer.push(uid);
        }
        self.log.push(format!("add {n}"));
    }
    /// the buffered docs become one uncommitted segment; docs already hit by a later delete of
    /// the same transaction are dead on arrival (the model's `addSeg` takes the live ones)
    fn note_flush(&mut self) {
        if self.buffer.is_empty() {
            return;
        }
        let docs: Vec<String> = self.buffer.iter().filter(|u| self.pending.contains(u)).map(|u| format!("{}.{}.{}", u, 1_000_000 + u, self.grp_of[u])).collect();
        self.evlog.push(format!("a:{}", if docs.is_empty() { "-".to_string() } else { docs.join(",") }));
        self.buffer.clear();
    }
    fn delete_uid(&mut self, uid: u64) {
        self.writer.as_mut().unwrap().delete_term(Term::from_field_u64(self.f.id, uid));
        self.pending.remove(&uid);
        self.evlog.push(format!("d:{}", 1_000_000 + uid));
        self.log.push(format!("delete id={uid}"));
    }
    fn delete_grp(&mut self, grp: u64) {
        self.writer.as_mut().unwrap().delete_term(Term::from_field_u64(self.f.grp, grp));
        let gone: Vec<u64> = self.pending.iter().copied().filter(|u| self.grp_of[u] == grp).collect();
        for u in gone {
            self.pending.remove(&u);
        }
        self.evlog.push(format!("d:{grp}"));
        self.log.push(format!("delete grp={grp}"));
    }
    fn commit(&mut self) {
        self.writer.as_mut().unwrap().commit().unwrap();
        self.committed = self.pending.clone();
        self.reference.sync();
        self.note_flush();
        self.evlog.push("c".into());
        self.log.push("commit".into());
    }
    fn rollback(&mut self) {
        self.writer.as_mut().unwrap().rollback().unwrap();
        self.writer.as_mut().unwrap().set_merge_policy(Box::new(NoMergePolicy));
        self.pending = self.committed.clone();
        self.buffer.clear();
        self.evlog.push("r".into());
        self.log.push("rollback".into());
    }
    /// flush the pending documents into an UNCOMMITTED segment (`prepare_commit()` dropped)
    fn flush_uncommitted(&mut self) {
        let prepared = self.writer.as_mut().unwrap().prepare_commit().unwrap();
        drop(prepared);
        self.note_flush();
        self.log.push("flush (prepare_commit dropped)".into());
    }
    /// let every running merge finish, drop the writer (nothing committed), open a new one
    fn wait_merges_and_reopen(&mut self) {
        let w = self.writer.take().unwrap();
        let _ = w.wait_merging_threads();
        let w: IndexWriter = self.index.writer_with_num_threads(1, 15_000_000).unwrap();
        w.set_merge_policy(Box::new(NoMergePolicy));
        self.writer = Some(w);
        self.pending = self.committed.clone();
        self.buffer.clear();
        self.evlog.push("r".into());
        self.log.push("wait_merging_threads; reopen".into());
    }
    fn searchable(&self) -> Vec<SegmentMeta> {
        self.index.searchable_segment_metas().unwrap()
    }
    fn dump_meta(&self, meta: &SegmentMeta) -> Result<(SegDump, Vec<u64>), String> {
        let seg = self.index.segment(meta.clone());
        let r = SegmentReader::open(&seg).map_err(|e| format!("open segment: {e}"))?;
        let d = dump_segment(&seg, &r, None)?;
        let u = uids_of(&r)?;
        Ok((d, u))
    }
    /// dump (and remember) every searchable segment
    fn dump_searchable(&mut self) -> Result<Vec<(String, SegDump, Vec<u64>)>, String> {
        let mut out = vec![];
        for meta in self.searchable() {
            let (d, u) = self.dump_meta(&meta)?;
            self.dumps.insert(meta.id().uuid_string(), (d.clone(), u.clone()));
            out.push((meta.id().uuid_string(), d, u));
        }
        Ok(out)
    }
}

fn case_json(kind: &str, case_seed: u64, extra: Value) -> Value {
    json!({"kind": kind, "case_seed": case_seed.to_string(), "params": extra})
}

/// O5: the whole published index, document by document, against the reference index
fn check_index_content(ctx: &mut Ctx, env: &mut Env, expect: &BTreeSet<u64>, when: &str, case: &Value) -> bool {
    check_index_content_alt(ctx, env, expect, None, when, case)
}

/// `alt`: a doc set predicted by the Lean updater model for a recorded finding, with its key
fn check_index_content_alt(ctx: &mut Ctx, env: &mut Env, expect: &BTreeSet<u64>, alt: Option<(&BTreeSet<u64>, &str)>, when: &str, case: &Value) -> bool {
    // a merge finishing right now may garbage-collect a source between reading meta.json and
    // opening its files: re-read the segment list before calling a segment unreadable
    let mut attempt = env.dump_searchable();
    for _ in 0..4 {
        if attempt.is_ok() {
            break;
        }
        std::thread::sleep(Duration::from_millis(50));
        attempt = env.dump_searchable();
    }
    let dumps = match attempt {
        Ok(d) => d,
        Err(e) => {
            ctx.report.violation("oracle", "C04:segment-unreadable", format!("{when}: {e}"), case.clone());
            return false;
        }
    };
    let mut seen: BTreeSet<u64> = BTreeSet::new();
    for (sid, d, u) in &dumps {
        if let Err(e) = d.well_formed() {
            ctx.report.violation("oracle", "C04:segment-ill-formed", format!("{when}: segment {sid}: {e}"), case.clone());
            return false;
        }
        for (uid, v) in doc_views(d, u, &d.alive) {
            if !seen.insert(uid) {
                ctx.report.violation("oracle", "C04:duplicate-doc", format!("{when}: document id={uid} is live twice"), case.clone());
                return false;
            }
            match env.reference.views.get(&uid) {
                Some(rv) if *rv == v => {}
                Some(rv) => {
                    let what = if rv.payload != v.payload {
                        let (a, b): (Vec<&str>, Vec<&str>) = (rv.payload.split('|').collect(), v.payload.split('|').collect());
                        let j = (0..a.len().min(b.len())).find(|j| a[*j] != b[*j]).unwrap_or(0);
                        ["stored fields", "field norms", "fast values"][j.min(2)].to_string()
                    } else {
                        let bad = rv.terms.iter().zip(v.terms.iter()).find(|(x, y)| x != y);
                        format!("terms ({} vs {} terms; first difference {:?})", rv.terms.len(), v.terms.len(), bad.map(|(x, y)| (crate::model::hex(&x.0), x.1, x.2.len(), crate::model::hex(&y.0), y.1, y.2.len())))
                    };
                    let key = if rv.payload != v.payload { "C04:doc-payload-changed" } else { "C04:doc-terms-changed" };
                    ctx.report.violation("oracle", key, format!("{when}: document id={uid} in segment {sid} differs from the never-merged reference: {what}"), case.clone());
                    return false;
                }
                None => {
                    ctx.report.violation("oracle", "C04:unknown-doc", format!("{when}: document id={uid} was never added"), case.clone());
                    return false;
                }
            }
        }
    }
    if seen != *expect {
        let missing: Vec<&u64> = expect.difference(&seen).take(5).collect();
        let extra: Vec<&u64> = seen.difference(expect).take(5).collect();
        let mut key = if !extra.is_empty() { "C04:deleted-doc-visible" } else { "C04:live-doc-lost" };
        if let Some((alt_set, alt_key)) = alt {
            if *alt_set == seen {
                key = alt_key;
            }
        }
        ctx.report.violation("oracle", key, format!("{when}: published docs differ from the sequential replay: missing {missing:?} unexpected {extra:?} (expected {} docs, found {})", expect.len(), seen.len()), case.clone());
        return false;
    }
    true
}

/// translation validation of one merge. `sources`: dumps in merge order with the alive set the
/// merged segment must reflect; `merged`: dump of the merged segment as published.
fn validate_merge(ctx: &mut Ctx, sources: &[(&SegDump, Vec<bool>)], merged: Option<&SegDump>, how: &str, case: &Value) -> bool {
    let parts: Vec<Logical> = sources.iter().map(|(d, a)| d.logical_with(a)).collect();
    let expected = Logical::concat(&parts);
    let real = merged.map(|m| m.logical()).unwrap_or_default();
    ctx.report.count_n("translation_validation:programs", 1);
    ctx.report.count(&format!("merge:{how}"));
    ctx.report.count(&format!("merge-sources:{}", sources.len()));
    let any_deletes = sources.iter().any(|(_, a)| a.iter().any(|x| !*x));
    ctx.report.count(if any_deletes { "mapping:stacked-with-deletes" } else { "mapping:stacked" });
    if sources.iter().any(|(_, a)| !a.iter().any(|x| *x)) {
        ctx.report.count("source:no-live-doc");
    }
    if expected.docs.is_empty() {
        ctx.report.count("merge:empty-result");
    }
    let ndocs: usize = sources.iter().map(|(d, _)| d.max_doc as usize).sum();
    let canon = format!("{how}|{}|{}", sources.iter().map(|(d, a)| format!("{}:{}", d.max_doc, a.iter().filter(|x| **x).count())).collect::<Vec<_>>().join(","), real.token().len());
    ctx.report.case(&canon, sources.len() >= 2 || any_deletes);
    let mut ok = true;
    if let Some(diff) = real.diff(&expected) {
        ctx.report.count_n("translation_validation:disagreements_checked", 1);
        let key = if diff.starts_with("doc ") || diff.starts_with("number of live docs") { "C04:merged-docs-differ" } else { "C04:merged-postings-differ" };
        ctx.report.violation("oracle", key, format!("{how} merge of {} sources ({} docs): merged segment (left) vs concatenation of the live source docs (right): {diff}", sources.len(), ndocs), case.clone());
        ok = false;
    }
    if let Some(m) = merged {
        if let Err(e) = m.well_formed() {
            ctx.report.violation("oracle", "C04:merged-ill-formed", format!("{how} merge: {e}"), case.clone());
            ok = false;
        }
    }
    // the Lean model on the same sources
    let nkeys: usize = sources.iter().map(|(d, _)| d.terms.len()).sum();
    if nkeys * nkeys * sources.len().max(1) <= 40_000_000 {
        let toks: Vec<String> = sources.iter().map(|(d, a)| d.token_with(a)).collect();
        let spec = ctx.model.ask(&format!("C04 spec {}", toks.join(" ")));
        let modl = ctx.model.ask(&format!("C04 model {}", toks.join(" ")));
        let etok = expected.token();
        if spec != etok {
            ctx.report.violation("model", "C04:spec-vs-harness", format!("{how} merge: Lean mergeSpec differs from the harness's concatenation ({} vs {} chars)", spec.len(), etok.len()), case.clone());
            ok = false;
        }
        let (m_logical, m_df) = match modl.rfind('/') {
            Some(i) => (&modl[..i], &modl[i + 1..]),
            None => (&modl[..], ""),
        };
        if m_logical != spec {
            ctx.report.violation("model", "C04:model-vs-spec", format!("{how} merge: Lean mergeModel differs from mergeSpec"), case.clone());
            ok = false;
        }
        if let Some(m) = merged {
            if m.num_alive() == m.max_doc as usize {
                let real_df: Vec<String> = m.doc_freq.values().map(|v| v.to_string()).collect();
                let real_df = if real_df.is_empty() { "-".to_string() } else { real_df.join(",") };
                if real_df != m_df {
                    ctx.report.violation("model", "C04:doc-freq-mismatch", format!("{how} merge: doc_freq of the merged dictionary differs from the model's total_doc_freq"), case.clone());
                    ok = false;
                }
                if real.token() != m_logical && ok {
                    ctx.report.violation("model", "C04:model-vs-real", format!("{how} merge: merged segment differs from Lean mergeModel"), case.clone());
                    ok = false;
                }
            }
        }
        ctx.report.count("model:asked");
    } else {
        ctx.report.count("model:skipped-too-large");
    }
    ok
}

fn alive_under(uids: &[u64], base_alive: &[bool], live: &BTreeSet<u64>) -> Vec<bool> {
    uids.iter().zip(base_alive).map(|(u, a)| *a && live.contains(u)).collect()
}

fn seg_sizes(rng: &mut Rng) -> usize {
    match rng.below(12) { 0 => 1, 1 => 2, 2 => 127 + rng.usize_below(4), 3 => 60 + rng.usize_below(80), _ => 1 + rng.usize_below(24) }
}

/// build `n` committed segments, then committed deletes of several shapes
fn build_committed(rng: &mut Rng, env: &mut Env, n: usize) {
    for _ in 0..n {
        let k = seg_sizes(rng);
        env.add_docs(rng, k);
        env.commit();
    }
    match rng.below(6) {
        0 => {}
        1 => {
            // all docs of one segment's worth of ids
            let lo = 1 + rng.below(env.next_uid.max(2) - 1);
            for u in lo..(lo + 6).min(env.next_uid) {
                env.delete_uid(u);
            }
            env.commit();
        }
        2 => {
            env.delete_grp(rng.below(5));
            env.commit();
        }
        _ => {
            let m = rng.usize_below(8);
            for _ in 0..m {
                let u = 1 + rng.below(env.next_uid.max(2) - 1);
                env.delete_uid(u);
            }
            if rng.chance(1, 3) {
                env.delete_grp(rng.below(5));
            }
            env.commit();
        }
    }
}

/// A. explicit merges of committed segments, validated one by one (also merges of merged segments)
fn case_explicit(ctx: &mut Ctx, case_seed: u64) {
    let mut rng = Rng(case_seed);
    let case = case_json("explicit", case_seed, json!({}));
    let mut env = Env::new(&mut rng);
    let n = 1 + rng.usize_below(6);
    build_committed(&mut rng, &mut env, n);
    let committed = env.committed.clone();
    if !check_index_content(ctx, &mut env, &committed, "before any merge", &case) {
        return;
    }
    let rounds = 1 + rng.usize_below(3);
    for round in 0..rounds {
        let metas = env.searchable();
        if metas.is_empty() {
            break;
        }
        let mut ids: Vec<SegmentId> = metas.iter().map(|m| m.id()).collect();
        ids.sort();
        rng.shuffle(&mut ids);
        let take = 1 + rng.usize_below(ids.len());
        ids.truncate(take);
        let before = env.dump_searchable().unwrap();
        let srcs: Vec<(SegDump, Vec<u64>)> = ids.iter().map(|id| { let (_, d, u) = before.iter().find(|(s, _, _)| *s == id.uuid_string()).unwrap(); (d.clone(), u.clone()) }).collect();
        let res = env.writer.as_mut().unwrap().merge(&ids).wait();
        let merged_meta = match res {
            Ok(m) => m,
            Err(e) => {
                ctx.report.violation("oracle", "C04:merge-failed", format!("explicit merge of {} committed segments failed: {e}", ids.len()), case.clone());
                return;
            }
        };
        let after = env.searchable();
        let merged_dump = match &merged_meta {
            Some(mm) => match after.iter().find(|m| m.id() == mm.id()) {
                Some(m) => Some(env.dump_meta(m).unwrap().0),
                None => {
                    ctx.report.violation("oracle", "C04:merged-not-published", "merge returned a segment that is not in meta.json".into(), case.clone());
                    return;
                }
            },
            None => None,
        };
        if ids.iter().any(|id| after.iter().any(|m| m.id() == *id)) {
            ctx.report.violation("oracle", "C04:source-still-published", "a merged source segment is still listed in meta.json".into(), case.clone());
            return;
        }
        let sources: Vec<(&SegDump, Vec<bool>)> = srcs.iter().map(|(d, _)| (d, d.alive.clone())).collect();
        let ok = validate_merge(ctx, &sources, merged_dump.as_ref(), "explicit-committed", &case);
        if ctx.report.samples.len() < 2 {
            ctx.report.sample(json!({"case": "explicit merge", "sources (max_doc:live)": srcs.iter().map(|(d, _)| format!("{}:{}", d.max_doc, d.num_alive())).collect::<Vec<_>>(), "merged_docs": merged_dump.as_ref().map(|m| m.max_doc), "terms": merged_dump.as_ref().map(|m| m.terms.len()), "round": round}));
        }
        if !ok || !check_index_content(ctx, &mut env, &committed, "after explicit merge", &case) {
            return;
        }
    }
}

/// B. policy-triggered merges; the gate holds each merge thread until its sources are dumped
fn case_policy(ctx: &mut Ctx, case_seed: u64) {
    let mut rng = Rng(case_seed);
    let case = case_json("policy", case_seed, json!({}));
    let mut env = Env::new(&mut rng);
    let mut policy = LogMergePolicy::default();
    policy.set_min_num_segments(2 + rng.usize_below(2));
    policy.set_min_layer_size(1 + rng.below(30) as u32);
    if rng.chance(1, 2) {
        policy.set_del_docs_ratio_before_merge(0.2);
    }
    env.writer.as_mut().unwrap().set_merge_policy(Box::new(policy));
    env.gate.with(|s| s.gate = true);
    let rounds = 3 + rng.usize_below(5);
    for _ in 0..rounds {
        let k = seg_sizes(&mut rng).min(60);
        env.add_docs(&mut rng, k);
        if rng.chance(1, 2) && env.next_uid > 2 {
            let u = 1 + rng.below(env.next_uid - 1);
            env.delete_uid(u);
        }
        if rng.chance(1, 6) {
            env.delete_grp(rng.below(5));
        }
        env.commit();
        // drain: validate every merge the policy started
        loop {
            let blocked = env.gate.wait(Duration::from_millis(120), |s| s.blocked > 0);
            if !blocked {
                break;
            }
            let before = env.dump_searchable().unwrap();
            let writes0 = env.gate.with(|s| { s.permits += 1; s.meta_writes });
            if !env.gate.wait(Duration::from_secs(30), |s| s.meta_writes > writes0) {
                ctx.report.notes.push("policy merge did not publish within 30 s".into());
                break;
            }
            // the updater writes meta.json before the task returns; wait for the new list
            let mut after = env.searchable();
            for _ in 0..200 {
                if after.iter().map(|m| m.id()).collect::<BTreeSet<_>>() != before.iter().map(|(s, _, _)| SegmentId::from_uuid_string(s).unwrap()).collect::<BTreeSet<_>>() {
                    break;
                }
                std::thread::sleep(Duration::from_millis(5));
                after = env.searchable();
            }
            let after_ids: BTreeSet<String> = after.iter().map(|m| m.id().uuid_string()).collect();
            let gone: Vec<&(String, SegDump, Vec<u64>)> = before.iter().filter(|(s, _, _)| !after_ids.contains(s)).collect();
            let new: Vec<&SegmentMeta> = after.iter().filter(|m| !before.iter().any(|(s, _, _)| *s == m.id().uuid_string())).collect();
            if gone.is_empty() || new.len() > 1 {
                ctx.report.count("policy:merge-not-isolated");
                continue;
            }
            let merged = new.first().map(|m| env.dump_meta(m).unwrap());
            // source order = order of their first live doc in the merged segment
            let mut order: Vec<(usize, &(String, SegDump, Vec<u64>))> = gone
                .iter()
                .map(|g| {
                    let first = (0..g.1.max_doc as usize).find(|d| g.1.alive[*d]).map(|d| g.2[d]);
                    let pos = match (&merged, first) {
                        (Some((md, mu)), Some(uid)) => mu.iter().position(|u| *u == uid).filter(|p| md.alive[*p]).unwrap_or(usize::MAX),
                        _ => usize::MAX,
                    };
                    (pos, *g)
                })
                .collect();
            order.sort_by_key(|(p, _)| *p);
            let sources: Vec<(&SegDump, Vec<bool>)> = order.iter().map(|(_, g)| (&g.1, g.1.alive.clone())).collect();
            if !validate_merge(ctx, &sources, merged.as_ref().map(|m| &m.0), "policy-committed", &case) {
                env.gate.with(|s| { s.gate = false; s.permits = 1000; });
                return;
            }
        }
        let committed = env.committed.clone();
        if !check_index_content(ctx, &mut env, &committed, "after commit with merge policy", &case) {
            env.gate.with(|s| { s.gate = false; s.permits = 1000; });
            return;
        }
    }
    env.gate.with(|s| { s.gate = false; s.permits = 1000; });
    let _ = env.writer.take().unwrap().wait_merging_threads();
}

const ACTIONS: [&str; 12] = ["delete-commit", "delete-source-commit", "rollback", "delete-all-commit", "overlapping-merge", "disjoint-merge", "gc", "add-commit", "delete-commit-twice",
    // a second merge that shares a source with the parked one in its LAST / a MIDDLE position, or
    // takes all of its sources: the parked merge is stale when it resumes and must be cancelled
    "overlap-shared-last", "overlap-shared-middle", "overlap-all-sources"];

/// C. a committed merge paused at its k-th storage operation while the main thread acts
fn case_schedule(ctx: &mut Ctx, case_seed: u64, forced: Option<(usize, u64)>) {
    let mut rng = Rng(case_seed);
    let mut env = Env::new(&mut rng);
    let n = 3 + rng.usize_below(3);
    build_committed(&mut rng, &mut env, n);
    let (action_ix, k) = forced.unwrap_or_else(|| (rng.usize_below(ACTIONS.len()), match rng.below(4) { 0 => rng.below(4), 1 => rng.below(40), 2 => 40 + rng.below(400), _ => rng.below(3000) }));
    let action = ACTIONS[action_ix];
    let case = case_json("schedule", case_seed, json!({"action": action_ix, "k": k}));
    let metas = env.searchable();
    if metas.len() < 2 {
        ctx.report.count("schedule:too-few-segments");
        return;
    }
    let mut ids: Vec<SegmentId> = metas.iter().map(|m| m.id()).collect();
    ids.sort();
    rng.shuffle(&mut ids);
    let nsrc = 2 + rng.usize_below(ids.len() - 1);
    let src_ids: Vec<SegmentId> = ids[..nsrc.min(ids.len())].to_vec();
    let rest_ids: Vec<SegmentId> = ids[nsrc.min(ids.len())..].to_vec();
    let before = env.dump_searchable().unwrap();
    let find = |id: &SegmentId| before.iter().find(|(s, _, _)| *s == id.uuid_string()).unwrap();
    let writes0 = env.gate.with(|s| { s.pause_at = Some(k); s.seen = 0; s.paused = false; s.resume = false; s.meta_writes });
    let fut = env.writer.as_mut().unwrap().merge(&src_ids);
    // paused at op k, or the merge had fewer than k operations and was already published
    env.gate.wait(Duration::from_secs(20), |s| s.paused || s.meta_writes > writes0);
    let paused = env.gate.with(|s| s.paused);
    ctx.report.count(if paused { "schedule:paused" } else { "schedule:merge-finished-before-k" });
    ctx.report.count(&format!("schedule-action:{action}"));
    // ---- the concurrent action on the main thread -------------------------------------
    let mut second: Option<tantivy::FutureResult<Option<SegmentMeta>>> = None;
    let mut expect_discard = false;
    match action {
        "delete-commit" | "delete-commit-twice" => {
            for _ in 0..(1 + rng.usize_below(4)) {
                let (_, d, u) = find(rng.pick(&src_ids));
                let live: Vec<u64> = (0..d.max_doc as usize).filter(|i| d.alive[*i]).map(|i| u[i]).collect();
                if let Some(uid) = live.get(rng.usize_below(live.len().max(1))) {
                    env.delete_uid(*uid);
                }
            }
            env.commit();
            if action == "delete-commit-twice" {
                env.delete_grp(rng.below(5));
                env.commit();
            }
        }
        "delete-source-commit" => {
            // every live doc of one source: the source vanishes from the register at commit
            let (_, d, u) = find(&src_ids[0]);
            for i in 0..d.max_doc as usize {
                if d.alive[i] {
                    env.delete_uid(u[i]);
                }
            }
            env.commit();
            expect_discard = paused;
        }
        "rollback" => {
            env.add_docs(&mut rng, 3);
            let (_, d, u) = find(&src_ids[0]);
            if let Some(i) = (0..d.max_doc as usize).find(|i| d.alive[*i]) {
                env.delete_uid(u[i]);
            }
            env.rollback();
            expect_discard = paused;
        }
        "delete-all-commit" => {
            env.writer.as_mut().unwrap().delete_all_documents().unwrap();
            env.pending.clear();
            env.log.push("delete_all".into());
            env.commit();
            expect_discard = paused;
        }
        "overlapping-merge" => {
            let mut ids2: Vec<SegmentId> = vec![src_ids[0]];
            ids2.extend(rest_ids.iter().take(1));
            second = Some(env.writer.as_mut().unwrap().merge(&ids2));
        }
        "overlap-shared-last" => {
            let mut ids2: Vec<SegmentId> = rest_ids.iter().take(1).copied().collect();
            ids2.push(*src_ids.last().unwrap());
            second = Some(env.writer.as_mut().unwrap().merge(&ids2));
            expect_discard = paused;
        }
        "overlap-shared-middle" => {
            let mid = if src_ids.len() >= 3 { src_ids[1] } else { *src_ids.last().unwrap() };
            let mut ids2: Vec<SegmentId> = vec![mid];
            ids2.extend(rest_ids.iter().take(1));
            second = Some(env.writer.as_mut().unwrap().merge(&ids2));
            expect_discard = paused;
        }
        "overlap-all-sources" => {
            let mut ids2: Vec<SegmentId> = src_ids.clone();
            ids2.reverse();
            second = Some(env.writer.as_mut().unwrap().merge(&ids2));
            expect_discard = paused;
        }
        "disjoint-merge" => {
            if !rest_ids.is_empty() {
                second = Some(env.writer.as_mut().unwrap().merge(&rest_ids));
            }
        }
        "gc" => {
            let _ = env.writer.as_mut().unwrap().garbage_collect_files().wait();
        }
        "add-commit" => {
            let n = 1 + rng.usize_below(5);
            env.add_docs(&mut rng, n);
            env.commit();
        }
        _ => unreachable!(),
    }
    if let Some(f) = second.take() {
        // let the second merge run to its end while the first is still paused
        let second_ok = f.wait().is_ok();
        if action.starts_with("overlap-") {
            // the second merge consumed a source of the parked one: the parked merge is stale
            expect_discard = paused && second_ok;
        }
    }
    env.gate.with(|s| { s.resume = true; s.pause_at = None; });
    let res = fut.wait();
    ctx.report.count(if res.is_ok() { "schedule:first-merge-ok" } else { "schedule:first-merge-err" });
    ctx.report.traces_validated_against_impl += 1;
    // ---- afterwards: searcher content = sequential replay --------------------------------
    let committed = env.committed.clone();
    let after = env.searchable();
    let case_ok = check_index_content(ctx, &mut env, &committed, &format!("after schedule {action} at k={k}"), &case);
    let canon = format!("schedule|{action}|{k}|{}|{}", src_ids.len(), paused);
    ctx.report.case(&canon, paused);
    if !case_ok {
        return;
    }
    // if the merged segment was published, validate it against the sources under the final alive sets
    if let Ok(Some(mm)) = &res {
        if let Some(m) = after.iter().find(|m| m.id() == mm.id()) {
            let (md, _) = env.dump_meta(m).unwrap();
            let sources: Vec<(&SegDump, Vec<bool>)> = src_ids.iter().map(|id| { let (_, d, u) = find(id); (d, alive_under(u, &d.alive, &committed)) }).collect();
            validate_merge(ctx, &sources, Some(&md), &format!("schedule-{action}"), &case);
            if expect_discard && action != "delete-source-commit" {
                ctx.report.violation("oracle", "C04:stale-merge-applied", format!("a merge paused across {action} was still published"), case.clone());
            }
            ctx.report.count("schedule:merged-published");
        } else {
            ctx.report.count("schedule:merged-not-published");
        }
    } else {
        ctx.report.count("schedule:merge-discarded-or-failed");
    }
    if ctx.report.samples.len() < 5 && paused {
        ctx.report.sample(json!({"case": "schedule", "action": action, "paused_at_op": k, "sources": src_ids.len(), "first_merge": if res.is_ok() { "ok" } else { "err (discarded)" }, "log": env.log.iter().rev().take(6).collect::<Vec<_>>()}));
    }
}

/// D. merges of UNCOMMITTED segments (cut inside a transaction), in-transaction deletes,
/// followed by commit or rollback. Explicit merges are also replayed through the Lean updater
/// model (`C04 sm`), which mirrors "the merged entry takes the delete cursor of the FIRST source".
fn case_uncommitted(ctx: &mut Ctx, case_seed: u64) {
    let mut rng = Rng(case_seed);
    let mut env = Env::new(&mut rng);
    let pre = rng.usize_below(3);
    if pre > 0 {
        build_committed(&mut rng, &mut env, pre);
    }
    let cut = 2 + rng.below(6) as u32;
    let nseg = 2 + rng.usize_below(4);
    let del_mode = rng.below(4); // 0 none, 1 between segments, 2 after all, 3 both
    let finish = rng.below(3); // 0 commit, 1 rollback, 2 delete+commit
    let by_policy = rng.chance(1, 3);
    let case = case_json("uncommitted", case_seed, json!({"cut": cut, "nseg": nseg, "del_mode": del_mode, "finish": finish, "by_policy": by_policy}));
    // ---- script for the Lean updater model ------------------------------------------------
    let mut script: Vec<String> = vec![];
    let mut seg_no: HashMap<String, usize> = HashMap::new();
    let mut op: u64 = 1;
    let doc_tok = |env: &Env, uids: &[u64], alive: &[bool]| -> String {
        let v: Vec<String> = uids.iter().zip(alive).filter(|(_, a)| **a).map(|(u, _)| format!("{}.{}.{}", u, 1_000_000 + u, env.grp_of[u])).collect();
        if v.is_empty() { "-".into() } else { v.join(",") }
    };
    for (sid, d, u) in env.dump_searchable().unwrap() {
        let n = seg_no.len() + 1;
        seg_no.insert(sid, n);
        script.push(format!("seg:{n}:{}:c", doc_tok(&env, &u, &d.alive)));
    }
    let committed_op = 0u64;
    if by_policy {
        let mut policy = LogMergePolicy::default();
        policy.set_min_num_segments(2);
        policy.set_min_layer_size(10_000);
        env.writer.as_mut().unwrap().set_merge_policy(Box::new(policy));
    }
    tantivy::verif::set_segment_cut_docs(cut);
    let mut unc_metas: Vec<SegmentMeta> = vec![];
    let mut script_complete = true;
    let result = catch_unwind(AssertUnwindSafe(|| {
        for _ in 0..nseg {
            env.add_docs(&mut rng, cut as usize);
            if by_policy {
                std::thread::sleep(Duration::from_millis(4));
            } else {
                // wait until the worker has registered the segment it just cut
                let mut found = false;
                for _ in 0..10_000 {
                    let (_, unc) = tantivy::verif::c04_registered_segment_metas(env.writer.as_ref().unwrap());
                    if let Some(m) = unc.iter().find(|m| !seg_no.contains_key(&m.id().uuid_string())) {
                        found = true;
                        let n = seg_no.len() + 1;
                        seg_no.insert(m.id().uuid_string(), n);
                        let (d, u) = env.dump_meta(m).unwrap();
                        script.push(format!("seg:{n}:{}:u", doc_tok(&env, &u, &d.alive)));
                        unc_metas.push(m.clone());
                        break;
                    }
                    std::thread::sleep(Duration::from_millis(2));
                }
                if !found {
                    // the worker was too slow (loaded machine): the script no longer mirrors the run
                    script_complete = false;
                }
            }
            if (del_mode == 1 || del_mode == 3) && rng.chance(2, 3) {
                // a delete inside the transaction: hits older uncommitted docs (and committed ones)
                op += 1;
                if rng.chance(1, 2) {
                    let g = rng.below(5);
                    env.delete_grp(g);
                    script.push(format!("del:{op}:{g}"));
                } else {
                    let u = 1 + rng.below(env.next_uid - 1);
                    env.delete_uid(u);
                    script.push(format!("del:{op}:{}", 1_000_000 + u));
                }
            }
        }
        if del_mode >= 2 {
            let u = 1 + rng.below(env.next_uid - 1);
            env.delete_uid(u);
            op += 1;
            script.push(format!("del:{op}:{}", 1_000_000 + u));
        }
    }));
    tantivy::verif::set_segment_cut_docs(0);
    if result.is_err() {
        ctx.report.violation("oracle", "C04:panic", "panic while building uncommitted segments".into(), case.clone());
        return;
    }
    let mut res: tantivy::Result<Option<SegmentMeta>> = Ok(None);
    let mut srcs: Vec<(SegDump, Vec<u64>)> = vec![];
    let mut ids: Vec<SegmentId> = vec![];
    if !by_policy {
        if unc_metas.len() < 2 {
            ctx.report.count("uncommitted:too-few-segments");
            return;
        }
        let mut metas = unc_metas.clone();
        rng.shuffle(&mut metas);
        let take = 2 + rng.usize_below(metas.len() - 1);
        metas.truncate(take);
        if rng.chance(1, 2) {
            metas.sort_by_key(|m| seg_no[&m.id().uuid_string()]); // creation order
        }
        ids = metas.iter().map(|m| m.id()).collect();
        srcs = metas.iter().map(|m| env.dump_meta(m).unwrap()).collect();
        res = env.writer.as_mut().unwrap().merge(&ids).wait();
        ctx.report.count(if res.is_ok() { "uncommitted:merge-ok" } else { "uncommitted:merge-err" });
        if let Err(e) = &res {
            ctx.report.violation("oracle", "C04:merge-failed", format!("explicit merge of {} uncommitted segments failed: {e}", ids.len()), case.clone());
            return;
        }
        let nums: Vec<String> = ids.iter().map(|i| seg_no[&i.uuid_string()].to_string()).collect();
        script.push(format!("start:0:{committed_op}:{}:{}", seg_no.len() + 1, nums.join(",")));
        script.push("end:0".into());
    }
    match finish {
        1 => {
            env.rollback();
            script.push("rollback".into());
        }
        2 => {
            let u = 1 + rng.below(env.next_uid - 1);
            env.delete_uid(u);
            op += 1;
            script.push(format!("del:{op}:{}", 1_000_000 + u));
            env.commit();
            op += 1;
            script.push(format!("commit:{op}"));
        }
        _ => {
            env.commit();
            op += 1;
            script.push(format!("commit:{op}"));
        }
    }
    let committed = env.committed.clone();
    let after = env.searchable();
    // what the Lean updater model (first-source cursor) predicts for the published doc set
    let mut model_pub: Option<BTreeSet<u64>> = None;
    if !script_complete {
        ctx.report.count("uncommitted:registration-timeout");
    }
    if !by_policy && script_complete {
        let ans = ctx.model.ask(&format!("C04 sm {}", script.join(" ")));
        match ans.strip_prefix("pub=").and_then(|r| r.split("/pend=").next()).and_then(crate::model::parse_nat_list) {
            Some(v) => model_pub = Some(v.into_iter().collect()),
            None => ctx.report.violation("model", "C04:sm-bad-answer", format!("updater model answered {ans}"), case.clone()),
        }
    }
    let alt = model_pub.as_ref().map(|m| (m, "C04:explicit-merge-uncommitted-first-cursor"));
    let how = if by_policy { "policy".to_string() } else { format!("explicit, source order {:?}", ids.iter().map(|i| seg_no[&i.uuid_string()]).collect::<Vec<_>>()) };
    let ok = check_index_content_alt(ctx, &mut env, &committed, alt, &format!("after merge of uncommitted segments ({how}) and {}; script: {}", ["commit", "rollback", "delete+commit"][finish as usize], script.join(" ")), &case);
    ctx.report.case(&format!("uncommitted|{cut}|{nseg}|{del_mode}|{finish}|{}|{by_policy}", ids.len()), true);
    ctx.report.count(&format!("uncommitted-finish:{}", ["commit", "rollback", "delete-commit"][finish as usize]));
    ctx.report.count(if by_policy { "uncommitted:by-policy" } else { "uncommitted:explicit" });
    if !ok {
        return;
    }
    if let Some(m) = &model_pub {
        ctx.report.traces_validated_against_impl += 1;
        if *m != committed {
            // the implementation did the right thing although the model predicts the finding
            ctx.report.violation("model", "C04:sm-vs-real", format!("updater model predicts {} published docs, implementation and sequential replay {}", m.len(), committed.len()), case.clone());
        }
    }
    if by_policy {
        let _ = env.writer.take().unwrap().wait_merging_threads();
        return;
    }
    if finish != 1 {
        if let Ok(Some(mm)) = &res {
            if let Some(m) = after.iter().find(|m| m.id() == mm.id()) {
                let (md, _) = env.dump_meta(m).unwrap();
                let sources: Vec<(&SegDump, Vec<bool>)> = srcs.iter().map(|(d, u)| (d, alive_under(u, &d.alive, &committed))).collect();
                validate_merge(ctx, &sources, Some(&md), "explicit-uncommitted", &case);
            }
        }
    } else if let Ok(Some(mm)) = &res {
        if after.iter().any(|m| m.id() == mm.id()) {
            ctx.report.violation("oracle", "C04:stale-merge-applied", "a merged uncommitted segment survived rollback".into(), case.clone());
        }
    }
}

/// merge policy scripted by the harness: when enabled, one candidate holding ALL segments it is
/// shown (committed and uncommitted sets are shown separately), in a chosen order
#[derive(Debug, Clone)]
struct ScriptedPolicy {
    enabled: Arc<std::sync::atomic::AtomicBool>,
    rank: Arc<Mutex<HashMap<SegmentId, usize>>>,
    /// 0 creation order, 1 reverse creation order, 2 by uuid (arbitrary), 3 largest first
    mode: u64,
    min: usize,
}

impl tantivy::indexer::MergePolicy for ScriptedPolicy {
    fn compute_merge_candidates(&self, segments: &[SegmentMeta]) -> Vec<tantivy::indexer::MergeCandidate> {
        if !self.enabled.load(std::sync::atomic::Ordering::SeqCst) || segments.len() < self.min {
            return vec![];
        }
        let rank = self.rank.lock().unwrap();
        let mut v: Vec<&SegmentMeta> = segments.iter().collect();
        v.sort_by_key(|m| m.id());
        match self.mode {
            0 => v.sort_by_key(|m| rank.get(&m.id()).copied().unwrap_or(usize::MAX / 2)),
            1 => v.sort_by_key(|m| std::cmp::Reverse(rank.get(&m.id()).copied().unwrap_or(usize::MAX / 2))),
            3 => v.sort_by_key(|m| std::cmp::Reverse(m.max_doc())),
            _ => {}
        }
        vec![tantivy::indexer::MergeCandidate(v.iter().map(|m| m.id()).collect())]
    }
}

impl ScriptedPolicy {
    fn new(mode: u64, enabled: bool) -> ScriptedPolicy {
        ScriptedPolicy { enabled: Arc::new(std::sync::atomic::AtomicBool::new(enabled)), rank: Arc::new(Mutex::new(HashMap::new())), mode, min: 2 }
    }
    /// give every registered segment not seen before the next creation rank
    fn note_segments(&self, env: &Env) {
        let (c, u) = tantivy::verif::c04_registered_segment_metas(env.writer.as_ref().unwrap());
        let mut rank = self.rank.lock().unwrap();
        let mut fresh: Vec<SegmentId> = c.iter().chain(u.iter()).map(|m| m.id()).filter(|id| !rank.contains_key(id)).collect();
        fresh.sort();
        for id in fresh {
            let n = rank.len();
            rank.insert(id, n);
        }
    }
}

/// Correspondence for the Lean writer machine (`Sys`, theorem `C04_merge_invisible_all_traces`):
/// the recorded events, with merge starts / ends inserted at arbitrary points, are run through
/// the machine; its published ids must equal the sequential replay (= the real searcher, which
/// the oracle compares separately).
fn check_trace_model(ctx: &mut Ctx, env: &Env, rng: &mut Rng, case: &Value) {
    // the machine with any number of merges in flight (`SysM`): starts over all / all but the
    // first segment of a register (so that merges overlap) and ends in arbitrary order
    // `xc` / `xc1`: explicit merges of committed segments (always covered); explicit merges of
    // uncommitted ones (`xu`) need `OkTraceM` and are not inserted
    const MERGE_TOKS: [&str; 10] = ["mu", "mc", "mu1", "mc1", "xc", "xc1", "e:0", "e:1", "e:2", "e:0"];
    let mut toks: Vec<String> = vec![];
    for t in &env.evlog {
        while rng.chance(1, 3) {
            toks.push(rng.pick(&MERGE_TOKS).to_string());
        }
        toks.push(t.clone());
        if t == "c" {
            // `commit` writes meta.json through `committed_segment_metas`, which first drops the
            // committed segments that have no live document left
            toks.push("z".into());
        }
    }
    for _ in 0..4 {
        toks.push("e:0".into());
    }
    let ans = ctx.model.ask(&format!("C04 tracem {}", toks.join(" ")));
    let field = |name: &str| -> Option<BTreeSet<u64>> {
        ans.split('/').find_map(|p| p.strip_prefix(name)).and_then(crate::model::parse_nat_list).map(|v| v.into_iter().collect())
    };
    ctx.report.count("trace-model:asked");
    ctx.report.count_n("trace-model:merge-events", toks.iter().filter(|t| t.starts_with('m') || t.starts_with('e')).count() as u64);
    match (field("pub="), field("abs=")) {
        (Some(p), Some(ab)) => {
            if p != env.committed || ab != env.committed {
                ctx.report.violation("model", "C04:trace-model-vs-replay", format!("Lean writer machine publishes {} docs, its abstract replay {}, the harness replay {}; events: {}", p.len(), ab.len(), env.committed.len(), toks.join(" ")), case.clone());
            }
        }
        _ => ctx.report.violation("model", "C04:trace-bad-answer", format!("writer machine answered {ans}"), case.clone()),
    }
}

const MODE_NAMES: [&str; 4] = ["creation-order", "reverse-creation-order", "uuid-order", "largest-first"];

/// E. POLICY-started merges of COMMITTED segments while deletes (and adds) are pending, i.e.
/// pushed to the writer but not committed. Observed BEFORE any commit, and after commit /
/// rollback / dropping the writer and reopening: published docs must equal the sequential replay
/// (a pending delete is invisible until committed and gone after rollback / reopen).
fn case_pending(ctx: &mut Ctx, case_seed: u64) {
    let mut rng = Rng(case_seed);
    let mut env = Env::new(&mut rng);
    let n = 2 + rng.usize_below(3);
    build_committed(&mut rng, &mut env, n);
    let mode = rng.below(4);
    let trigger = rng.below(3);
    let finish = rng.below(4);
    let case = case_json("pending", case_seed, json!({"mode": mode, "trigger": trigger, "finish": finish}));
    let nseg = env.searchable().len();
    if nseg < 2 {
        ctx.report.count("pending:too-few-segments");
        return;
    }
    // pending operations: deletes of committed docs (not committed), maybe adds
    let committed_now: Vec<u64> = env.committed.iter().copied().collect();
    if committed_now.is_empty() {
        return;
    }
    if rng.chance(1, 3) {
        env.add_docs(&mut rng, 1); // some other operation first
    }
    for _ in 0..(1 + rng.usize_below(3)) {
        if rng.chance(1, 3) {
            env.delete_grp(rng.below(5));
        } else {
            env.delete_uid(*rng.pick(&committed_now));
        }
    }
    if env.pending.is_superset(&env.committed) {
        env.delete_uid(committed_now[0]);
    }
    let policy = ScriptedPolicy::new(mode, true);
    policy.note_segments(&env);
    let writes0 = env.gate.with(|s| s.meta_writes);
    let mut expected_writes = 1;
    // the policy replaces NoMergePolicy; something must make the updater reconsider merges
    let explicit_ids: Vec<SegmentId> = {
        let mut v: Vec<SegmentId> = env.searchable().iter().map(|m| m.id()).collect();
        v.sort();
        v.truncate(2);
        v
    };
    env.writer.as_mut().unwrap().set_merge_policy(Box::new(policy.clone()));
    match trigger {
        0 => {
            let k = 1 + rng.usize_below(3);
            env.add_docs(&mut rng, k);
            env.flush_uncommitted();
        }
        1 => {
            let k = 2 + rng.usize_below(3);
            tantivy::verif::set_segment_cut_docs(k as u32);
            env.add_docs(&mut rng, k);
            for _ in 0..5_000 {
                let (_, unc) = tantivy::verif::c04_registered_segment_metas(env.writer.as_ref().unwrap());
                if !unc.is_empty() || env.gate.with(|s| s.meta_writes) > writes0 {
                    break;
                }
                std::thread::sleep(Duration::from_millis(2));
            }
            tantivy::verif::set_segment_cut_docs(0);
            env.note_flush();
        }
        _ => {
            // another (explicit) merge ends: end_merge reconsiders merges under the new policy
            if nseg >= 3 {
                let _ = env.writer.as_mut().unwrap().merge(&explicit_ids).wait();
                expected_writes = 2;
            } else {
                env.add_docs(&mut rng, 1);
                env.flush_uncommitted();
            }
        }
    }
    let merged = env.gate.wait(Duration::from_secs(5), |s| s.meta_writes >= writes0 + expected_writes);
    ctx.report.count(if merged { "pending:policy-merge-published" } else { "pending:no-policy-merge-seen" });
    ctx.report.count(&format!("pending-trigger:{}", ["flush-prepare-commit-dropped", "flush-segment-cut", "explicit-merge-ends"][trigger as usize]));
    ctx.report.count(&format!("policy-order:{}", MODE_NAMES[mode as usize]));
    ctx.report.traces_validated_against_impl += 1;
    ctx.report.case(&format!("pending|{mode}|{trigger}|{finish}|{nseg}|{}", env.log.len()), merged);
    // BEFORE any commit: the pending deletes must be invisible
    let committed = env.committed.clone();
    let log_tail = |env: &Env| env.log.iter().rev().take(8).rev().cloned().collect::<Vec<_>>().join("; ");
    let when = format!("policy merge of committed segments with pending uncommitted deletes, observed BEFORE commit [{}]", log_tail(&env));
    if !check_index_content(ctx, &mut env, &committed, &when, &case) {
        return;
    }
    let after = match finish {
        0 => {
            env.commit();
            "after commit"
        }
        1 => {
            env.rollback();
            "after rollback"
        }
        2 => {
            env.wait_merges_and_reopen();
            "after dropping the writer and reopening"
        }
        _ => {
            env.wait_merges_and_reopen();
            // a fresh writer: its first stamped operation must not be a delete (C02 finding)
            env.add_docs(&mut rng, 1);
            env.commit();
            "after reopen, add, commit"
        }
    };
    let committed = env.committed.clone();
    let when = format!("policy merge of committed segments with pending deletes, observed {after} [{}]", log_tail(&env));
    check_index_content(ctx, &mut env, &committed, &when, &case);
    check_trace_model(ctx, &env, &mut rng, &case);
    if ctx.report.samples.len() < 6 && merged {
        ctx.report.sample(json!({"case": "pending deletes + policy merge of committed segments", "order": MODE_NAMES[mode as usize], "trigger": trigger, "finish": after, "log": env.log.iter().rev().take(8).collect::<Vec<_>>()}));
    }
}

/// F. POLICY merges of UNCOMMITTED segments with in-transaction upserts (`delete(key)` then
/// `add(key)`), sources in various orders, then commit / rollback; published docs = replay.
fn case_upsert(ctx: &mut Ctx, case_seed: u64) {
    let mut rng = Rng(case_seed);
    let mut env = Env::new(&mut rng);
    let pre = rng.usize_below(3);
    if pre > 0 {
        build_committed(&mut rng, &mut env, pre);
    }
    let mode = rng.below(4);
    let eager = rng.chance(1, 3); // policy active from the start: merges as segments get flushed
    let nseg = 2 + rng.usize_below(3);
    let finish = rng.below(3); // 0 commit, 1 commit twice with delete, 2 rollback
    let flush_by_cut = rng.chance(1, 3);
    let case = case_json("upsert", case_seed, json!({"mode": mode, "eager": eager, "nseg": nseg, "finish": finish, "flush_by_cut": flush_by_cut}));
    let policy = ScriptedPolicy::new(mode, eager);
    policy.note_segments(&env);
    env.writer.as_mut().unwrap().set_merge_policy(Box::new(policy.clone()));
    let mut last_deleted: Option<u64> = None;
    let mut upserts = 0;
    for _ in 0..nseg {
        let k = 1 + rng.usize_below(5);
        let force = if rng.chance(2, 3) { last_deleted } else { None };
        if force.is_some() {
            upserts += 1;
        }
        if flush_by_cut {
            let (_, before) = tantivy::verif::c04_registered_segment_metas(env.writer.as_ref().unwrap());
            tantivy::verif::set_segment_cut_docs(k as u32);
            env.add_docs_grp(&mut rng, k, force);
            for _ in 0..5_000 {
                let (_, unc) = tantivy::verif::c04_registered_segment_metas(env.writer.as_ref().unwrap());
                if unc.iter().any(|m| !before.iter().any(|b| b.id() == m.id())) || eager {
                    break;
                }
                std::thread::sleep(Duration::from_millis(2));
            }
            tantivy::verif::set_segment_cut_docs(0);
            env.note_flush();
            if eager {
                std::thread::sleep(Duration::from_millis(5));
            }
        } else {
            env.add_docs_grp(&mut rng, k, force);
            env.flush_uncommitted();
        }
        policy.note_segments(&env);
        if rng.chance(3, 4) {
            // delete by the shared key: hits older docs only; later docs with the key must survive
            let g = match (rng.chance(2, 3), env.pending.iter().next_back()) {
                (true, Some(u)) => env.grp_of[u],
                _ => rng.below(5),
            };
            env.delete_grp(g);
            last_deleted = Some(g);
        } else if rng.chance(1, 2) && env.next_uid > 1 {
            let u = 1 + rng.below(env.next_uid - 1);
            env.delete_uid(u);
        }
    }
    // enable the policy; flushing one more segment makes the updater reconsider merges
    policy.enabled.store(true, std::sync::atomic::Ordering::SeqCst);
    let k = 1 + rng.usize_below(3);
    let force = if rng.chance(2, 3) { last_deleted } else { None };
    if force.is_some() {
        upserts += 1;
    }
    env.add_docs_grp(&mut rng, k, force);
    env.flush_uncommitted();
    policy.note_segments(&env);
    if rng.chance(1, 2) {
        std::thread::sleep(Duration::from_millis(rng.below(15)));
    }
    let after = match finish {
        0 => {
            env.commit();
            "commit"
        }
        1 => {
            env.commit();
            if env.next_uid > 1 {
                let u = 1 + rng.below(env.next_uid - 1);
                env.add_docs(&mut rng, 1);
                env.delete_uid(u);
            }
            env.commit();
            "commit, add, delete, commit"
        }
        _ => {
            env.rollback();
            "rollback"
        }
    };
    // all merges done (end_merge may still reconcile / publish after the commit)
    env.wait_merges_and_reopen();
    let committed = env.committed.clone();
    ctx.report.count(&format!("upsert-finish:{after}"));
    ctx.report.count(&format!("policy-order:{}", MODE_NAMES[mode as usize]));
    ctx.report.count(if upserts > 0 { "upsert:key-readded-after-delete" } else { "upsert:no-readd" });
    ctx.report.count(if eager { "upsert:policy-eager" } else { "upsert:policy-enabled-late" });
    ctx.report.traces_validated_against_impl += 1;
    ctx.report.case(&format!("upsert|{mode}|{eager}|{nseg}|{finish}|{flush_by_cut}|{upserts}|{}", env.log.len()), true);
    let when = format!("policy merge of uncommitted segments ({}) with in-transaction deletes and re-adds, then {after} [{}]", MODE_NAMES[mode as usize], env.log.join("; "));
    check_index_content(ctx, &mut env, &committed, &when, &case);
    check_trace_model(ctx, &env, &mut rng, &case);
}

/// merges in a SORTED index (shaped generator of the C17 harness: deletes, documents without sort
/// value, disjoint value ranges): every published doc = the never-merged reference doc, the live set
/// = the sequential replay, and the merged segment is still in index-sort order (what searches that
/// rely on the index sort read).  Oracle checks only; keys are reported as C04:sorted-merge:*.
fn case_sorted(ctx: &mut Ctx, case_seed: u64) {
    let before = ctx.report.violations.len();
    super::c17::case_for(ctx, case_seed, false);
    for v in ctx.report.violations[before..].iter_mut() {
        if let Some(rest) = v.key.strip_prefix("C17:") {
            v.key = format!("C04:sorted-merge:{rest}");
        }
        v.case = case_json("sorted", case_seed, json!({}));
    }
    // keep the first few per key, as Report::violation does
    let mut i = before;
    while i < ctx.report.violations.len() {
        let k = ctx.report.violations[i].key.clone();
        if ctx.report.violations[..i].iter().filter(|v| v.key == k).count() >= 3 {
            ctx.report.violations.remove(i);
        } else {
            i += 1;
        }
    }
    ctx.report.count("sorted:cases");
}

fn run_case(ctx: &mut Ctx, kind: &str, case_seed: u64, params: &Value) {
    let r = catch_unwind(AssertUnwindSafe(|| match kind {
        "explicit" => case_explicit(ctx, case_seed),
        "policy" => case_policy(ctx, case_seed),
        "schedule" => {
            let forced = match (params.get("action").and_then(|v| v.as_u64()), params.get("k").and_then(|v| v.as_u64())) {
                (Some(a), Some(k)) => Some((a as usize, k)),
                _ => None,
            };
            case_schedule(ctx, case_seed, forced)
        }
        "uncommitted" => case_uncommitted(ctx, case_seed),
        "pending" => case_pending(ctx, case_seed),
        "upsert" => case_upsert(ctx, case_seed),
        "sorted" => case_sorted(ctx, case_seed),
        _ => {}
    }));
    tantivy::verif::set_segment_cut_docs(0);
    if let Err(e) = r {
        let msg = e.downcast_ref::<String>().cloned().or_else(|| e.downcast_ref::<&str>().map(|s| s.to_string())).unwrap_or_default();
        ctx.report.violation("oracle", "C04:panic", format!("panic in a {kind} case: {msg}"), case_json(kind, case_seed, params.clone()));
    }
}

pub fn run(ctx: &mut Ctx) {
    ctx.report.rule = "cases = merges validated as translations (sources -> merged segment) and forced schedules; \
        non-trivial = a merge of >= 2 sources or with deleted docs, a schedule whose merge thread was really paused, \
        every merge of uncommitted segments; distinct by (kind, source sizes/live counts, action, k)".into();
    ctx.report.correspondence_obligations = vec![
        "merged segment (SegmentReader dump) = concatenation of the live source docs in source order (harness)".into(),
        "Lean mergeSpec on the dumped sources = harness concatenation".into(),
        "Lean dump(mergeModel) = mergeSpec and = real merged segment; total_doc_freq list = real doc_freq list".into(),
        "every published doc = the same doc in a never-merged reference index (stored bytes, norms, fast values, terms/tf/positions)".into(),
        "published doc set after forced schedules = sequential replay".into(),
        "sorted index: merged segments keep the index-sort order, docs = reference docs, live set = sequential replay (oracle)".into(),
    ];
    if let Some(case) = ctx.replay.clone() {
        let kind = case["kind"].as_str().unwrap_or("").to_string();
        let seed: u64 = case["case_seed"].as_str().and_then(|s| s.parse().ok()).unwrap_or(0);
        run_case(ctx, &kind, seed, &case["params"]);
        return;
    }
    for _ in 0..ctx.budget(60, 500) {
        let s = ctx.rng.next_u64();
        run_case(ctx, "explicit", s, &json!({}));
    }
    for _ in 0..ctx.budget(12, 80) {
        let s = ctx.rng.next_u64();
        run_case(ctx, "policy", s, &json!({}));
    }
    for _ in 0..ctx.budget(60, 400) {
        let s = ctx.rng.next_u64();
        run_case(ctx, "schedule", s, &json!({}));
    }
    for _ in 0..ctx.budget(40, 300) {
        let s = ctx.rng.next_u64();
        run_case(ctx, "uncommitted", s, &json!({}));
    }
    for _ in 0..ctx.budget(30, 250) {
        let s = ctx.rng.next_u64();
        run_case(ctx, "pending", s, &json!({}));
    }
    for _ in 0..ctx.budget(40, 300) {
        let s = ctx.rng.next_u64();
        run_case(ctx, "upsert", s, &json!({}));
    }
    for _ in 0..ctx.budget(60, 600) {
        let s = ctx.rng.next_u64();
        run_case(ctx, "sorted", s, &json!({}));
    }
    let p = ctx.report.distribution.get("translation_validation:programs").copied().unwrap_or(0);
    let d = ctx.report.distribution.get("translation_validation:disagreements_checked").copied().unwrap_or(0);
    ctx.report.notes.push(format!("translation_validation: programs={p} disagreements_checked={d}"));
}
