//! C15 — term dictionaries behave as ordered maps from byte strings.
//!
//! Ties `Model/SSTable/*.lean` to `tantivy_sstable` (Writer, Dictionary, Streamer, merge),
//! `tantivy::termdict` (fst backend, ordered-map contract only) and the columnar dictionary.
//! Two judgements:
//!  * oracle: the real result differs from a `BTreeMap` computed here / from the Lean spec,
//!    or tantivy panics where the property does not allow it;
//!  * model: the real result differs from the Lean block model (correspondence).
#[path = "c15_other.rs"]
mod other;

use crate::model::{hex, unhex};
use crate::rng::Rng;
use crate::Ctx;
use serde_json::{json, Value};
use std::collections::{BTreeMap, HashMap, VecDeque};
use std::hash::Hash;
use std::ops::Bound;
use std::panic::{catch_unwind, AssertUnwindSafe};
use tantivy_common::OwnedBytes;
use tantivy_fst::Automaton;
use tantivy_sstable::{Dictionary, MonotonicU64SSTable, RangeSSTable, SSTable, TermOrdHit, VoidSSTable};

pub const KEY_F6: &str = "C15:duplicate-empty-key-accepted";
pub const KEY_INVERTED: &str = "C15:inverted-range-across-blocks-panics";
pub const KEY_SEARCH_ORD: &str = "C15:search-stream-term-ord-after-pruned-block";

// ------------------------------------------------------------------------------------------
// small helpers
// ------------------------------------------------------------------------------------------

pub fn keys_field(keys: &[Vec<u8>]) -> String {
    if keys.is_empty() {
        return "_".into();
    }
    keys.iter().map(|k| hex(k)).collect::<Vec<_>>().join(",")
}

pub fn nats_field(v: &[u64]) -> String {
    if v.is_empty() {
        return "_".into();
    }
    v.iter().map(|x| x.to_string()).collect::<Vec<_>>().join(",")
}

pub fn parse_keys(s: &str) -> Vec<Vec<u8>> {
    if s == "_" {
        return vec![];
    }
    s.split(',').map(|t| unhex(t).unwrap_or_default()).collect()
}

fn fnv_byte(h: u64, b: u8) -> u64 {
    (h ^ b as u64).wrapping_mul(0x100000001b3)
}
fn fnv_nat(mut h: u64, n: u64) -> u64 {
    for i in 0..8 {
        h = fnv_byte(h, (n >> (8 * i)) as u8);
    }
    h
}
/// `count/first ordinal/fnv1a64` of a stream of (ordinal, key, value id) — same as the driver
pub fn digest(items: &[(u64, Vec<u8>, u64)]) -> String {
    let mut h: u64 = 0xcbf29ce484222325;
    for (o, k, v) in items {
        h = fnv_nat(h, *o);
        h = fnv_nat(h, k.len() as u64);
        for b in k {
            h = fnv_byte(h, *b);
        }
        h = fnv_nat(h, *v);
    }
    format!("{}/{}/{}", items.len(), items.first().map(|i| i.0.to_string()).unwrap_or("x".into()), h)
}

#[derive(Clone, Debug, PartialEq)]
pub enum Bnd {
    U,
    I(Vec<u8>),
    E(Vec<u8>),
}
impl Bnd {
    pub fn show(&self) -> String {
        match self {
            Bnd::U => "u".into(),
            Bnd::I(k) => format!("i{}", hex(k)),
            Bnd::E(k) => format!("e{}", hex(k)),
        }
    }
    pub fn parse(s: &str) -> Bnd {
        match s.as_bytes().first() {
            Some(b'i') => Bnd::I(unhex(&s[1..]).unwrap_or_default()),
            Some(b'e') => Bnd::E(unhex(&s[1..]).unwrap_or_default()),
            _ => Bnd::U,
        }
    }
    pub fn lo_ok(&self, k: &[u8]) -> bool {
        match self {
            Bnd::U => true,
            Bnd::I(b) => b.as_slice() <= k,
            Bnd::E(b) => b.as_slice() < k,
        }
    }
    pub fn hi_ok(&self, k: &[u8]) -> bool {
        match self {
            Bnd::U => true,
            Bnd::I(b) => k <= b.as_slice(),
            Bnd::E(b) => k < b.as_slice(),
        }
    }
    pub fn std(&self) -> Bound<&[u8]> {
        match self {
            Bnd::U => Bound::Unbounded,
            Bnd::I(b) => Bound::Included(b.as_slice()),
            Bnd::E(b) => Bound::Excluded(b.as_slice()),
        }
    }
}

// ------------------------------------------------------------------------------------------
// automata
// ------------------------------------------------------------------------------------------

#[derive(Clone)]
pub struct PrefixAut(pub Vec<u8>);
impl Automaton for PrefixAut {
    type State = Option<usize>;
    fn start(&self) -> Option<usize> {
        Some(0)
    }
    fn is_match(&self, s: &Option<usize>) -> bool {
        *s == Some(self.0.len())
    }
    fn can_match(&self, s: &Option<usize>) -> bool {
        s.is_some()
    }
    fn accept(&self, s: &Option<usize>, b: u8) -> Option<usize> {
        match s {
            None => None,
            Some(i) if *i == self.0.len() => Some(*i),
            Some(i) => {
                if self.0[*i] == b {
                    Some(i + 1)
                } else {
                    None
                }
            }
        }
    }
}

pub struct LevAut(pub levenshtein_automata::DFA);
impl Automaton for LevAut {
    type State = u32;
    fn start(&self) -> u32 {
        self.0.initial_state()
    }
    fn is_match(&self, s: &u32) -> bool {
        matches!(self.0.distance(*s), levenshtein_automata::Distance::Exact(_))
    }
    fn can_match(&self, s: &u32) -> bool {
        *s != levenshtein_automata::SINK_STATE
    }
    fn accept(&self, s: &u32, b: u8) -> u32 {
        self.0.transition(*s, b)
    }
}

/// harness-level automaton description: `p<hex>` | `L<d><t|n><p|f>,<hex query>` | `R<hex pattern>`
#[derive(Clone, Debug)]
pub enum AutSpec {
    Prefix(Vec<u8>),
    Lev { d: u8, transpose: bool, prefix: bool, q: String },
    Regex(String),
}
impl AutSpec {
    pub fn show(&self) -> String {
        match self {
            AutSpec::Prefix(p) => format!("p{}", hex(p)),
            AutSpec::Lev { d, transpose, prefix, q } => format!(
                "L{}{}{},{}",
                d,
                if *transpose { 't' } else { 'n' },
                if *prefix { 'p' } else { 'f' },
                hex(q.as_bytes())
            ),
            AutSpec::Regex(r) => format!("R{}", hex(r.as_bytes())),
        }
    }
    pub fn parse(s: &str) -> Option<AutSpec> {
        let b = s.as_bytes();
        match b.first()? {
            b'p' => Some(AutSpec::Prefix(unhex(&s[1..])?)),
            b'L' => {
                let d = (b[1] - b'0') as u8;
                let transpose = b[2] == b't';
                let prefix = b[3] == b'p';
                let q = String::from_utf8(unhex(&s[5..])?).ok()?;
                Some(AutSpec::Lev { d, transpose, prefix, q })
            }
            b'R' => Some(AutSpec::Regex(String::from_utf8(unhex(&s[1..])?).ok()?)),
            _ => None,
        }
    }
}

/// explicit DFA table of a real automaton for the Lean driver: `n:start:acc:can:runs`
pub fn explore<A: Automaton>(a: &A, cap: usize) -> Option<String>
where
    A::State: Clone + Eq + Hash,
{
    let mut ids: HashMap<A::State, usize> = HashMap::new();
    let mut states: Vec<A::State> = vec![];
    let mut queue = VecDeque::new();
    let s0 = a.start();
    ids.insert(s0.clone(), 0);
    states.push(s0);
    queue.push_back(0usize);
    let mut next: Vec<usize> = vec![];
    while let Some(i) = queue.pop_front() {
        debug_assert_eq!(next.len(), i * 256);
        for b in 0..=255u8 {
            let t = a.accept(&states[i], b);
            let id = match ids.get(&t) {
                Some(id) => *id,
                None => {
                    let id = states.len();
                    if id >= cap {
                        return None;
                    }
                    ids.insert(t.clone(), id);
                    states.push(t);
                    queue.push_back(id);
                    id
                }
            };
            next.push(id);
        }
    }
    let n = states.len();
    let acc: String = states.iter().map(|s| if a.is_match(s) { '1' } else { '0' }).collect();
    let can: String = states.iter().map(|s| if a.can_match(s) { '1' } else { '0' }).collect();
    let mut runs = String::new();
    let mut i = 0;
    while i < next.len() {
        let mut j = i;
        while j < next.len() && next[j] == next[i] {
            j += 1;
        }
        if !runs.is_empty() {
            runs.push(',');
        }
        if j - i == 1 {
            runs.push_str(&next[i].to_string());
        } else {
            runs.push_str(&format!("{}*{}", next[i], j - i));
        }
        i = j;
    }
    Some(format!("{n}:0:{acc}:{can}:{runs}"))
}

pub fn accepts<A: Automaton>(a: &A, k: &[u8]) -> bool {
    let mut s = a.start();
    for b in k {
        s = a.accept(&s, *b);
    }
    a.is_match(&s)
}

/// run `$body` with the real automaton of a spec bound to `$a`
#[macro_export]
macro_rules! c15_with_aut {
    ($spec:expr, $a:ident, $body:expr, $bad:expr) => {
        match $spec {
            $crate::props::c15::AutSpec::Prefix(p) => {
                let $a = $crate::props::c15::PrefixAut(p.clone());
                $body
            }
            $crate::props::c15::AutSpec::Lev { d, transpose, prefix, q } => {
                let b = levenshtein_automata::LevenshteinAutomatonBuilder::new(*d, *transpose);
                let $a = $crate::props::c15::LevAut(if *prefix { b.build_prefix_dfa(q) } else { b.build_dfa(q) });
                $body
            }
            $crate::props::c15::AutSpec::Regex(r) => match tantivy_fst::Regex::new(r) {
                Ok($a) => $body,
                Err(_) => $bad,
            },
        }
    };
}

/// edit distance over chars, optionally with adjacent transpositions at cost one
/// (restricted Damerau–Levenshtein, what levenshtein_automata implements)
pub fn edit_distance(a: &str, b: &str, transpose: bool) -> usize {
    let a: Vec<char> = a.chars().collect();
    let b: Vec<char> = b.chars().collect();
    let mut d = vec![vec![0usize; b.len() + 1]; a.len() + 1];
    for i in 0..=a.len() {
        d[i][0] = i;
    }
    for j in 0..=b.len() {
        d[0][j] = j;
    }
    for i in 1..=a.len() {
        for j in 1..=b.len() {
            let c = if a[i - 1] == b[j - 1] { 0 } else { 1 };
            d[i][j] = (d[i - 1][j] + 1).min(d[i][j - 1] + 1).min(d[i - 1][j - 1] + c);
            if transpose && i > 1 && j > 1 && a[i - 1] == b[j - 2] && a[i - 2] == b[j - 1] {
                d[i][j] = d[i][j].min(d[i - 2][j - 2] + 1);
            }
        }
    }
    d[a.len()][b.len()]
}

// ------------------------------------------------------------------------------------------
// key-set generators
// ------------------------------------------------------------------------------------------

pub fn gen_keys(rng: &mut Rng, thorough: bool) -> (String, Vec<Vec<u8>>) {
    let profile = rng.below(12);
    let mut set: std::collections::BTreeSet<Vec<u8>> = Default::default();
    let name;
    match profile {
        0 => {
            name = "empty";
        }
        1 => {
            name = "single";
            let n = rng.usize_below(6);
            set.insert(rng.bytes(n));
        }
        2 => {
            name = "empty-key+few";
            set.insert(vec![]);
            for _ in 0..rng.usize_below(6) {
                let n = 1 + rng.usize_below(3);
                set.insert(rng.bytes(n));
            }
        }
        3 => {
            name = "long-shared-prefix";
            let plen = *rng.pick(&[14usize, 15, 16, 17, 31, 127, 128, 129, 300]);
            let p = rng.bytes(plen);
            let n = 2 + rng.usize_below(60);
            for _ in 0..n {
                let mut k = p.clone();
                let extra = *rng.pick(&[0usize, 1, 2, 14, 15, 16, 17, 40]);
                k.extend(rng.bytes(extra));
                set.insert(k);
            }
        }
        4 => {
            name = "00-ff-bytes";
            let n = 2 + rng.usize_below(80);
            for _ in 0..n {
                let len = rng.usize_below(6);
                let k: Vec<u8> = (0..len).map(|_| *rng.pick(&[0u8, 0, 255, 255, 1, 254, 0x61])).collect();
                set.insert(k);
            }
        }
        5 => {
            name = "kilobyte-keys";
            let n = 1 + rng.usize_below(6);
            let base = rng.bytes(if thorough { 20_000 } else { 3000 });
            for _ in 0..n {
                let cut = rng.usize_below(base.len());
                let mut k = base[..cut].to_vec();
                let m = rng.usize_below(40);
                k.extend(rng.bytes(m));
                set.insert(k);
            }
            set.insert(vec![7]);
        }
        6 | 7 => {
            name = "ascii-words";
            let n = *rng.pick(&[3usize, 20, 100, 400]);
            let alpha = b"abcde";
            for _ in 0..n {
                let len = 1 + rng.usize_below(7);
                set.insert((0..len).map(|_| *rng.pick(alpha)).collect());
            }
        }
        8 => {
            name = "thousands";
            let n = if thorough { 20_000 } else { *rng.pick(&[1500usize, 3000, 5000]) };
            for i in 0..n {
                let mut k = format!("term{:06}", i * 7 + rng.usize_below(7)).into_bytes();
                if rng.chance(1, 10) {
                    let m = 1 + rng.usize_below(30);
                    k.extend(rng.bytes(m));
                }
                set.insert(k);
            }
        }
        9 => {
            name = "utf8-words";
            let syll = ["a", "é", "日", "本", "ß", "o", "𝄞", "k", "z"];
            let n = 5 + rng.usize_below(150);
            for _ in 0..n {
                let len = 1 + rng.usize_below(5);
                let s: String = (0..len).map(|_| *rng.pick(&syll)).collect();
                set.insert(s.into_bytes());
            }
        }
        10 => {
            name = "nibble-boundary";
            // keep / add lengths around FOUR_BIT_LIMITS
            let p = rng.bytes(20);
            for keep in [0usize, 1, 14, 15, 16, 17] {
                for add in [1usize, 2, 14, 15, 16, 17, 130] {
                    let mut k = p[..keep].to_vec();
                    k.extend(rng.bytes(add));
                    set.insert(k);
                }
            }
            if rng.chance(1, 2) {
                set.insert(vec![]);
            }
        }
        _ => {
            name = "random-binary";
            let n = 1 + rng.usize_below(300);
            for _ in 0..n {
                let len = rng.usize_below(10);
                set.insert(rng.bytes(len));
            }
        }
    }
    (name.to_string(), set.into_iter().collect())
}

pub fn gen_block_len(rng: &mut Rng) -> Option<usize> {
    match rng.below(10) {
        0 => Some(0),
        1 => Some(1),
        2 => Some(2 + rng.usize_below(14)),
        3 | 4 => Some(16 + rng.usize_below(100)),
        5 => Some(200 + rng.usize_below(1800)),
        6 => Some(4000),
        _ => None,
    }
}

/// probe keys: members, neighbours, separators of the model layout, random
pub fn probes(rng: &mut Rng, keys: &[Vec<u8>], seps: &[Vec<u8>]) -> Vec<Vec<u8>> {
    let mut out: Vec<Vec<u8>> = vec![vec![], vec![0], vec![255], vec![255, 255, 255]];
    let mut near = |k: &Vec<u8>, out: &mut Vec<Vec<u8>>| {
        out.push(k.clone());
        let mut a = k.clone();
        a.push(0);
        out.push(a);
        if !k.is_empty() {
            out.push(k[..k.len() - 1].to_vec());
            let mut b = k.clone();
            let l = b.len() - 1;
            b[l] = b[l].wrapping_add(1);
            out.push(b);
            let mut c = k.clone();
            c[l] = c[l].wrapping_sub(1);
            out.push(c);
        }
    };
    if !keys.is_empty() {
        near(&keys[0], &mut out);
        near(&keys[keys.len() - 1], &mut out);
        for _ in 0..6 {
            let k = keys[rng.usize_below(keys.len())].clone();
            near(&k, &mut out);
        }
    }
    for _ in 0..6.min(seps.len()) {
        let s = seps[rng.usize_below(seps.len())].clone();
        near(&s, &mut out);
    }
    for _ in 0..3 {
        let n = rng.usize_below(5);
        out.push(rng.bytes(n));
    }
    out
}

pub fn gen_bound(rng: &mut Rng, pr: &[Vec<u8>]) -> Bnd {
    match rng.below(5) {
        0 => Bnd::U,
        1 | 2 => Bnd::I(pr[rng.usize_below(pr.len())].clone()),
        _ => Bnd::E(pr[rng.usize_below(pr.len())].clone()),
    }
}

pub fn gen_aut(rng: &mut Rng, keys: &[Vec<u8>]) -> AutSpec {
    let sample_str = |rng: &mut Rng| -> String {
        for _ in 0..8 {
            if keys.is_empty() {
                break;
            }
            if let Ok(s) = String::from_utf8(keys[rng.usize_below(keys.len())].clone()) {
                if s.chars().count() <= 12 {
                    return s;
                }
            }
        }
        "abc".to_string()
    };
    match rng.below(4) {
        0 => {
            let p = if keys.is_empty() || rng.chance(1, 4) {
                let m = rng.usize_below(3);
                rng.bytes(m)
            } else {
                let k = &keys[rng.usize_below(keys.len())];
                k[..rng.usize_below(k.len() + 1).min(40)].to_vec()
            };
            AutSpec::Prefix(p)
        }
        1 | 2 => {
            let mut q = sample_str(rng);
            if rng.chance(1, 2) && !q.is_empty() {
                // perturb: drop / swap / replace a char
                let mut cs: Vec<char> = q.chars().collect();
                let i = rng.usize_below(cs.len());
                match rng.below(3) {
                    0 => {
                        cs.remove(i);
                    }
                    1 if i + 1 < cs.len() => cs.swap(i, i + 1),
                    _ => cs[i] = 'x',
                }
                q = cs.into_iter().collect();
            }
            AutSpec::Lev { d: rng.below(3) as u8, transpose: rng.chance(1, 2), prefix: rng.chance(1, 4), q }
        }
        _ => {
            let s = sample_str(rng);
            let esc: String = s.chars().filter(|c| c.is_alphanumeric()).collect();
            let pat = match rng.below(5) {
                0 => format!("{}.*", esc.chars().take(2).collect::<String>()),
                1 => format!(".*{}", esc.chars().rev().take(2).collect::<String>()),
                2 => "[a-c]+".to_string(),
                3 => format!("({}|b.*|term00[0-3].*)", esc),
                _ => "(a|b)*c?d".to_string(),
            };
            AutSpec::Regex(pat)
        }
    }
}

// ------------------------------------------------------------------------------------------
// the real sstable side
// ------------------------------------------------------------------------------------------

pub type V2 = (u64, u64);

pub struct Codec<T: SSTable> {
    pub name: &'static str,
    pub mk: fn(V2) -> T::Value,
    pub id: fn(&T::Value) -> V2,
}

pub fn void_codec() -> Codec<VoidSSTable> {
    Codec { name: "void", mk: |_| (), id: |_| (0, 0) }
}
pub fn u64_codec() -> Codec<MonotonicU64SSTable> {
    Codec { name: "u64", mk: |v| v.0, id: |v| (*v, 0) }
}
pub fn range_codec() -> Codec<RangeSSTable> {
    Codec { name: "range", mk: |v| v.0..v.1, id: |v| (v.start, v.end) }
}

pub fn gen_vals(rng: &mut Rng, kind: &str, n: usize) -> Vec<V2> {
    let mut out = Vec::with_capacity(n);
    let mut cur = if rng.chance(1, 2) { 0 } else { rng.below(1 << 40) };
    for _ in 0..n {
        match kind {
            "void" => out.push((0, 0)),
            "u64" => {
                cur += *rng.pick(&[0u64, 1, 1, 5, 127, 128, 1 << 20]);
                out.push((cur, 0));
            }
            _ => {
                let len = *rng.pick(&[0u64, 1, 3, 127, 128, 70_000]);
                out.push((cur, cur + len));
                cur += len;
            }
        }
    }
    out
}

/// build with the real writer; Err(index) = panic / io error while inserting key `index`
pub fn real_build<T: SSTable>(codec: &Codec<T>, block_len: Option<usize>, keys: &[Vec<u8>], vals: &[V2]) -> Result<Vec<u8>, usize> {
    let mut w = Dictionary::<T>::builder(Vec::new()).unwrap();
    if let Some(bl) = block_len {
        w.set_block_len(bl);
    }
    for (i, k) in keys.iter().enumerate() {
        let v = (codec.mk)(vals[i]);
        let r = catch_unwind(AssertUnwindSafe(|| w.insert(k, &v)));
        match r {
            Ok(Ok(())) => {}
            _ => return Err(i),
        }
    }
    match catch_unwind(AssertUnwindSafe(|| w.finish())) {
        Ok(Ok(b)) => Ok(b),
        _ => Err(keys.len()),
    }
}

pub fn show_opt_v(v: Option<u64>) -> String {
    match v {
        Some(v) => format!("some{v}"),
        None => "none".into(),
    }
}

pub fn real_stream<T: SSTable, A: Automaton>(
    dict: &Dictionary<T>,
    codec: &Codec<T>,
    aut: Option<A>,
    lo: &Bnd,
    hi: &Bnd,
    limit: Option<u64>,
) -> Result<Vec<(u64, Vec<u8>, V2)>, String>
where
    A::State: Clone,
{
    let r = catch_unwind(AssertUnwindSafe(|| -> std::io::Result<Vec<(u64, Vec<u8>, V2)>> {
        let mut out = vec![];
        macro_rules! drive {
            ($b:expr) => {{
                let mut b = $b;
                b = match lo {
                    Bnd::U => b,
                    Bnd::I(k) => b.ge(k),
                    Bnd::E(k) => b.gt(k),
                };
                b = match hi {
                    Bnd::U => b,
                    Bnd::I(k) => b.le(k),
                    Bnd::E(k) => b.lt(k),
                };
                if let Some(l) = limit {
                    b = b.limit(l);
                }
                let mut s = b.into_stream()?;
                while s.advance() {
                    out.push((s.term_ord(), s.key().to_vec(), (codec.id)(s.value())));
                }
            }};
        }
        match aut {
            Some(a) => drive!(dict.search(a)),
            None => drive!(dict.range()),
        }
        Ok(out)
    }));
    match r {
        Ok(Ok(v)) => Ok(v),
        Ok(Err(e)) => Err(format!("io:{e}")),
        Err(_) => Err("panic".into()),
    }
}

pub struct DictCase {
    pub vk: String,
    pub block_len: Option<usize>,
    pub keys: Vec<Vec<u8>>,
    pub vals: Vec<V2>,
    pub ops: Vec<String>,
    pub profile: String,
}

impl DictCase {
    pub fn json(&self, failing_op: &str) -> Value {
        json!({
            "kind": "sstable", "vk": self.vk, "block_len": self.block_len,
            "keys": keys_field(&self.keys),
            "vals": self.vals.iter().map(|v| format!("{}-{}", v.0, v.1)).collect::<Vec<_>>().join(","),
            "ops": if failing_op.is_empty() { self.ops.clone() } else { vec![failing_op.to_string()] },
            "profile": self.profile,
        })
    }
    pub fn from_json(v: &Value) -> Option<DictCase> {
        let vals: Vec<V2> = v["vals"].as_str()?.split(',').filter(|s| !s.is_empty()).filter_map(|s| {
            let (a, b) = s.split_once('-')?;
            Some((a.parse().ok()?, b.parse().ok()?))
        }).collect();
        Some(DictCase {
            vk: v["vk"].as_str()?.to_string(),
            block_len: v["block_len"].as_u64().map(|x| x as usize),
            keys: parse_keys(v["keys"].as_str()?),
            vals,
            ops: v["ops"].as_array()?.iter().filter_map(|s| s.as_str().map(|s| s.to_string())).collect(),
            profile: v["profile"].as_str().unwrap_or("").to_string(),
        })
    }
}

pub fn gen_ops(rng: &mut Rng, keys: &[Vec<u8>], seps: &[Vec<u8>], n_ops: usize) -> Vec<String> {
    let pr = probes(rng, keys, seps);
    let n = keys.len() as u64;
    let mut ops = vec![];
    let pick = |rng: &mut Rng| pr[rng.usize_below(pr.len())].clone();
    // fixed core
    ops.push("rng:u:u:n".to_string());
    for _ in 0..n_ops {
        let op = match rng.below(16) {
            0 | 1 => format!("get:{}", hex(&pick(rng))),
            2 => format!("ord:{}", hex(&pick(rng))),
            3 | 4 => format!("orn:{}", hex(&pick(rng))),
            5 => {
                let r = rng.below(n + 2);
                format!("o2t:{}", *rng.pick(&[0u64, 1, n.saturating_sub(1), n, n + 1, r]))
            }
            6 => {
                let r = rng.below(n + 2);
                format!("val:{}", *rng.pick(&[0u64, n.saturating_sub(1), n, r]))
            }
            7 => format!("blk:{}", hex(&pick(rng))),
            8 | 9 | 10 => {
                let lim = match rng.below(3) {
                    0 => "n".to_string(),
                    _ => rng.pick(&[0u64, 1, 2, 5, 50, n.saturating_sub(1), n, n + 1]).to_string(),
                };
                format!("rng:{}:{}:{}", gen_bound(rng, &pr).show(), gen_bound(rng, &pr).show(), lim)
            }
            11 => {
                let k = pick(rng);
                let p = k[..rng.usize_below(k.len() + 1)].to_vec();
                format!("pfx:{}:{}", hex(&p), if rng.chance(1, 3) { "3" } else { "n" })
            }
            12 => format!("sorted:{}", {
                let mut ords: Vec<u64> = (0..rng.usize_below(8)).map(|_| rng.below(n + 1)).collect();
                ords.sort();
                nats_field(&ords)
            }),
            _ => {
                let (lo, hi) = if rng.chance(1, 2) { (Bnd::U, Bnd::U) } else { (gen_bound(rng, &pr), gen_bound(rng, &pr)) };
                format!("aut:{}:{}:{}", gen_aut(rng, keys).show(), lo.show(), hi.show())
            }
        };
        ops.push(op);
    }
    // `term_bounds_to_ord` on the bounds of every generated range (no further random draws, so the
    // generated stream of the other operations is unchanged)
    let tbo: Vec<String> = ops.iter().filter(|o| o.starts_with("rng:")).map(|o| {
        let p: Vec<&str> = o.split(':').collect();
        format!("tbo:{}:{}", p[1], p[2])
    }).collect();
    ops.extend(tbo);
    // every automaton search again with a limit (bounds + limit + automaton together)
    let autl: Vec<String> = ops.iter().filter(|o| o.starts_with("aut:")).map(|o| {
        let lim = [0u64, 1, 2, 5][o.len() % 4];
        format!("autl:{}:{}", &o[4..], lim)
    }).collect();
    ops.extend(autl);
    ops
}

fn show_ord_bound(b: &Bound<u64>) -> String {
    let n = |o: &u64| if *o == u64::MAX { "max".to_string() } else { o.to_string() };
    match b {
        Bound::Unbounded => "u".into(),
        Bound::Included(o) => format!("i{}", n(o)),
        Bound::Excluded(o) => format!("e{}", n(o)),
    }
}

fn show_hit(h: &TermOrdHit) -> String {
    match h {
        TermOrdHit::Exact(o) => format!("e{o}"),
        TermOrdHit::Next(o) => {
            if *o == u64::MAX {
                "nmax".into()
            } else {
                format!("n{o}")
            }
        }
    }
}

/// everything about one dictionary: build, ask the model once, run every op on the real code
pub fn check_dict<T: SSTable>(ctx: &mut Ctx, codec: &Codec<T>, case: &DictCase) {
    let keys = &case.keys;
    let vals = &case.vals;
    let oracle: BTreeMap<Vec<u8>, V2> = keys.iter().cloned().zip(vals.iter().cloned()).collect();
    let sorted: Vec<(&Vec<u8>, &V2)> = oracle.iter().collect();
    let bytes = match real_build(codec, case.block_len, keys, vals) {
        Ok(b) => b,
        Err(i) => {
            ctx.report.violation("oracle", "C15:sorted-keys-rejected", format!("writer rejected strictly increasing keys at index {i} ({} keys, block_len {:?})", keys.len(), case.block_len), case.json(""));
            return;
        }
    };
    let dict = match catch_unwind(AssertUnwindSafe(|| Dictionary::<T>::from_bytes(OwnedBytes::new(bytes.clone())))) {
        Ok(Ok(d)) => d,
        _ => {
            ctx.report.violation("oracle", "C15:open-failed", "Dictionary::open failed on a file the writer produced".into(), case.json(""));
            return;
        }
    };
    check_ops(ctx, codec, case, &dict);
}

/// run every op of `case` on an opened dictionary and on the model
pub fn check_ops<T: SSTable>(ctx: &mut Ctx, codec: &Codec<T>, case: &DictCase, dict: &Dictionary<T>) {
    let keys = &case.keys;
    let vals = &case.vals;
    let oracle: BTreeMap<Vec<u8>, V2> = keys.iter().cloned().zip(vals.iter().cloned()).collect();
    let sorted: Vec<(&Vec<u8>, &V2)> = oracle.iter().collect();
    if dict.num_terms() != keys.len() {
        ctx.report.violation("oracle", "C15:num-terms", format!("num_terms {} != {}", dict.num_terms(), keys.len()), case.json(""));
    }
    // translate ops for the model (automata become explicit tables)
    let mut tables: Vec<String> = vec![];
    let mut table_of: HashMap<String, usize> = HashMap::new();
    let mut lean_ops: Vec<String> = vec![];
    for op in &case.ops {
        let parts: Vec<&str> = op.split(':').collect();
        if parts[0] == "aut" || parts[0] == "autl" {
            let spec = AutSpec::parse(parts[1]);
            let lean_aut = match &spec {
                Some(AutSpec::Prefix(p)) => Some(format!("p{}", hex(p))),
                Some(s) => match table_of.get(parts[1]) {
                    Some(i) => Some(format!("t{i}")),
                    None => {
                        let t: Option<String> = c15_with_aut!(s, a, explore(&a, 400), None);
                        t.map(|t| {
                            tables.push(t);
                            table_of.insert(parts[1].to_string(), tables.len() - 1);
                            format!("t{}", tables.len() - 1)
                        })
                    }
                },
                None => None,
            };
            match lean_aut {
                Some(a) if parts[0] == "autl" => {
                    let wam: bool = match &spec {
                        Some(s) => c15_with_aut!(s, au, au.will_always_match(&au.start()), false),
                        None => false,
                    };
                    lean_ops.push(format!("autl:{}:{}:{}:{}:{}", a, parts[2], parts[3], parts[4], if wam { 1 } else { 0 }))
                }
                Some(a) => lean_ops.push(format!("aut:{}:{}:{}", a, parts[2], parts[3])),
                None => {
                    ctx.report.count("aut:not-sent-to-model");
                    lean_ops.push("skip".into());
                }
            }
        } else {
            lean_ops.push(op.clone());
        }
    }
    let bl = case.block_len.unwrap_or(4000);
    let line = format!(
        "C15 run {} {} {} {} {}",
        bl,
        keys_field(keys),
        nats_field(&vals.iter().map(|v| v.0).collect::<Vec<_>>()),
        if tables.is_empty() { "_".to_string() } else { tables.join("|") },
        lean_ops.join(";")
    );
    let resp = ctx.model.ask(&line);
    let answers: Vec<&str> = resp.split(';').collect();
    if answers.len() != case.ops.len() {
        ctx.report.violation("model", "C15:driver-protocol", format!("model answered {} results for {} ops: {}", answers.len(), case.ops.len(), &resp[..resp.len().min(100)]), case.json(""));
        return;
    }
    let nontrivial_dict = keys.len() >= 2;
    for (op, ans) in case.ops.iter().zip(answers.iter()) {
        let parts: Vec<&str> = op.split(':').collect();
        let halves: Vec<&str> = ans.split('~').collect();
        let spec = halves.first().copied().unwrap_or("");
        let model = halves.get(1).copied().unwrap_or("");
        ctx.report.count(&format!("op:{}", parts[0]));
        ctx.report.case(&format!("{}|{:?}|{}|{}", case.vk, case.block_len, fnv_keys(keys), op), nontrivial_dict);
        let mut bad = |ctx: &mut Ctx, kind: &str, key: &str, what: String| {
            ctx.report.violation(kind, key, format!("{what} [op {op}, {} keys, block_len {:?}, values {}]", keys.len(), case.block_len, case.vk), case.json(op));
        };
        match parts[0] {
            "get" => {
                let k = unhex(parts[1]).unwrap();
                let real = match catch_unwind(AssertUnwindSafe(|| dict.get(&k))) {
                    Ok(Ok(v)) => v.map(|v| (codec.id)(&v)),
                    _ => {
                        bad(ctx, "oracle", "C15:get-panics", "get panicked or failed".into());
                        continue;
                    }
                };
                if real != oracle.get(&k).cloned() {
                    bad(ctx, "oracle", "C15:get-wrong", format!("get = {:?}, sorted map says {:?}", real, oracle.get(&k)));
                } else if show_opt_v(real.map(|v| v.0)) != spec {
                    bad(ctx, "oracle", "C15:get-wrong", format!("get = {:?}, Lean spec says {spec}", real));
                } else if spec != model {
                    bad(ctx, "model", "C15:get-model", format!("real {:?} model {model}", real));
                }
            }
            "ord" => {
                let k = unhex(parts[1]).unwrap();
                let real = match catch_unwind(AssertUnwindSafe(|| dict.term_ord(&k))) {
                    Ok(Ok(v)) => v,
                    _ => {
                        bad(ctx, "oracle", "C15:term-ord-panics", "term_ord panicked or failed".into());
                        continue;
                    }
                };
                let want = sorted.iter().position(|e| *e.0 == k).map(|i| i as u64);
                let shown = real.map(|v| v.to_string()).unwrap_or("none".into());
                if real != want || shown != spec {
                    bad(ctx, "oracle", "C15:term-ord-wrong", format!("term_ord = {:?}, sorted map says {:?}, Lean spec {spec}", real, want));
                } else if shown != model {
                    bad(ctx, "model", "C15:term-ord-model", format!("real {shown} model {model}"));
                }
            }
            "orn" => {
                let k = unhex(parts[1]).unwrap();
                let real = match catch_unwind(AssertUnwindSafe(|| dict.term_ord_or_next(&k))) {
                    Ok(Ok(v)) => v,
                    _ => {
                        bad(ctx, "oracle", "C15:term-ord-or-next-panics", "term_ord_or_next panicked or failed".into());
                        continue;
                    }
                };
                let rank = sorted.iter().filter(|e| e.0.as_slice() < k.as_slice()).count() as u64;
                let exact = oracle.contains_key(&k);
                let ok = match &real {
                    TermOrdHit::Exact(o) => exact && *o == rank,
                    // no successor: the code documents "may not exist" (n or u64::MAX)
                    TermOrdHit::Next(o) => !exact && (*o == rank || (rank == keys.len() as u64 && *o >= rank)),
                };
                let shown = show_hit(&real);
                let spec_ok = shown == spec || (spec == format!("n{}", keys.len()) && shown == "nmax");
                if !ok || !spec_ok {
                    bad(ctx, "oracle", "C15:term-ord-or-next-wrong", format!("term_ord_or_next = {shown}, sorted map rank {rank} exact {exact}, Lean spec {spec}"));
                } else if shown != model || halves.get(2).copied() != Some(model) {
                    bad(ctx, "model", "C15:term-ord-or-next-model", format!("real {shown} model {model} delta-scan model {:?}", halves.get(2)));
                }
                if shown == "nmax" {
                    ctx.report.count("branch:term_ord_or_next-past-end-u64max");
                }
            }
            "o2t" | "val" => {
                let o: u64 = parts[1].parse().unwrap();
                let want = sorted.get(o as usize);
                if parts[0] == "o2t" {
                    let mut buf = vec![];
                    let real = match catch_unwind(AssertUnwindSafe(|| dict.ord_to_term(o, &mut buf))) {
                        Ok(Ok(f)) => if f { Some(buf.clone()) } else { None },
                        _ => {
                            bad(ctx, "oracle", "C15:ord-to-term-panics", "ord_to_term panicked or failed".into());
                            continue;
                        }
                    };
                    let shown = real.as_ref().map(|k| format!("k{}", hex(k))).unwrap_or("none".into());
                    if real.as_ref() != want.map(|e| e.0) || shown != spec {
                        bad(ctx, "oracle", "C15:ord-to-term-wrong", format!("ord_to_term({o}) = {shown}, Lean spec {spec}"));
                    } else if shown != model {
                        bad(ctx, "model", "C15:ord-to-term-model", format!("real {shown} model {model}"));
                    }
                } else {
                    let real = match catch_unwind(AssertUnwindSafe(|| dict.term_info_from_ord(o))) {
                        Ok(Ok(v)) => v.map(|v| (codec.id)(&v)),
                        _ => {
                            bad(ctx, "oracle", "C15:value-from-ord-panics", "term_info_from_ord panicked or failed".into());
                            continue;
                        }
                    };
                    let shown = show_opt_v(real.map(|v| v.0));
                    if real.as_ref() != want.map(|e| e.1) || shown != spec {
                        bad(ctx, "oracle", "C15:value-from-ord-wrong", format!("term_info_from_ord({o}) = {:?}, Lean spec {spec}", real));
                    } else if shown != model {
                        bad(ctx, "model", "C15:value-from-ord-model", format!("real {shown} model {model}"));
                    }
                }
            }
            "autl" => {
                let aspec = match AutSpec::parse(parts[1]) {
                    Some(a) => a,
                    None => continue,
                };
                let lo = Bnd::parse(parts[2]);
                let hi = Bnd::parse(parts[3]);
                let lim: u64 = parts[4].parse().unwrap_or(0);
                let res: Option<(Result<Vec<(u64, Vec<u8>, V2)>, String>, Vec<bool>)> = c15_with_aut!(&aspec, a, {
                    let acc: Vec<bool> = sorted.iter().map(|e| accepts(&a, e.0)).collect();
                    Some((real_stream(dict, codec, Some(a), &lo, &hi, Some(lim)), acc))
                }, None);
                let (real, acc) = match res {
                    Some(x) => x,
                    None => continue,
                };
                let want: Vec<(Vec<u8>, V2)> = sorted.iter().enumerate().filter(|(i, e)| acc[*i] && lo.lo_ok(e.0) && hi.hi_ok(e.0)).map(|(_, e)| (e.0.clone(), *e.1)).collect();
                match real {
                    Err(e) => bad(ctx, "oracle", "C15:search-limit-panics", format!("automaton stream with limit failed: {e}")),
                    Ok(real) => {
                        let kv: Vec<(Vec<u8>, V2)> = real.iter().map(|e| (e.1.clone(), e.2)).collect();
                        let is_prefix = kv.len() <= want.len() && kv.iter().zip(want.iter()).all(|(a, b)| a == b);
                        let enough = kv.len() as u64 >= lim.min(want.len() as u64);
                        let real_d = digest(&real.iter().map(|e| (e.0, e.1.clone(), e.2 .0)).collect::<Vec<_>>());
                        if !is_prefix || !enough {
                            bad(ctx, "oracle", "C15:search-limit-stream-wrong", format!("automaton stream with limit {lim} returned {} entries, filter-accepts gives {}; prefix={is_prefix} enough={enough}", kv.len(), want.len()));
                        } else if !model.is_empty() && spec != "skip" && real_d != model {
                            bad(ctx, "model", "C15:search-limit-model", format!("real digest {real_d}, model (bounds + limit + automaton) {model}"));
                        }
                    }
                }
            }
            "tbo" => {
                let lo = Bnd::parse(parts[1]);
                let hi = Bnd::parse(parts[2]);
                let own = |b: &Bnd| -> Bound<Vec<u8>> {
                    match b {
                        Bnd::U => Bound::Unbounded,
                        Bnd::I(k) => Bound::Included(k.clone()),
                        Bnd::E(k) => Bound::Excluded(k.clone()),
                    }
                };
                let real = match catch_unwind(AssertUnwindSafe(|| dict.term_bounds_to_ord(own(&lo), own(&hi)))) {
                    Ok(Ok(r)) => r,
                    _ => {
                        bad(ctx, "oracle", "C15:term-bounds-to-ord-panics", "term_bounds_to_ord panicked or failed".into());
                        continue;
                    }
                };
                // oracle: the ordinal bounds select exactly the ordinals whose keys are within the key bounds
                let in_lo = |i: u64| match real.0 { Bound::Unbounded => true, Bound::Included(o) => o <= i, Bound::Excluded(o) => o < i };
                let in_hi = |i: u64| match real.1 { Bound::Unbounded => true, Bound::Included(o) => i <= o, Bound::Excluded(o) => i < o };
                let wrong = sorted.iter().enumerate().find(|(i, e)| (in_lo(*i as u64) && in_hi(*i as u64)) != (lo.lo_ok(e.0) && hi.hi_ok(e.0)));
                let shown = format!("{},{}", show_ord_bound(&real.0), show_ord_bound(&real.1));
                if let Some((i, _)) = wrong {
                    bad(ctx, "oracle", "C15:term-bounds-to-ord-wrong", format!("term_bounds_to_ord = {shown}: ordinal {i} is selected differently from its key"));
                } else if shown != model {
                    bad(ctx, "model", "C15:term-bounds-to-ord-model", format!("real {shown} model {model}"));
                }
            }
            "blk" => {
                let k = unhex(parts[1]).unwrap();
                let real = dict.sstable_index.get_block_with_key(&k).map(|b| b.first_ordinal.to_string()).unwrap_or("none".into());
                if real != *ans {
                    bad(ctx, "model", "C15:block-routing-model", format!("get_block_with_key first ordinal {real}, model {ans}"));
                }
            }
            "sorted" => {
                let ords: Vec<u64> = crate::model::parse_nat_list(&parts[1].replace('_', "-")).unwrap_or_default();
                let mut got: Vec<Vec<u8>> = vec![];
                let real = catch_unwind(AssertUnwindSafe(|| dict.sorted_ords_to_term_cb(&ords, |k| got.push(k.to_vec()))));
                let all_in = ords.iter().all(|o| (*o as usize) < keys.len());
                let want: Vec<Vec<u8>> = ords.iter().filter_map(|o| sorted.get(*o as usize).map(|e| e.0.clone())).collect();
                match real {
                    Ok(Ok(f)) => {
                        let shown = format!("{}/{}", keys_field(&got), if f { 1 } else { 0 });
                        if f != all_in || (f && got != want) || (!f && !want.starts_with(&got)) || shown != spec {
                            bad(ctx, "oracle", "C15:sorted-ords-wrong", format!("sorted_ords_to_term_cb({ords:?}) returned {f} with {} keys; Lean spec {}", got.len(), &spec[..spec.len().min(60)]));
                        } else if shown != model {
                            bad(ctx, "model", "C15:sorted-ords-model", format!("sorted_ords_to_term_cb({ords:?}): real {} model {}", &shown[..shown.len().min(60)], &model[..model.len().min(60)]));
                        }
                    }
                    _ => bad(ctx, "oracle", "C15:sorted-ords-panics", "sorted_ords_to_term_cb panicked or failed".into()),
                }
            }
            "rng" | "pfx" => {
                let (lo, hi, lim, real) = if parts[0] == "rng" {
                    let lo = Bnd::parse(parts[1]);
                    let hi = Bnd::parse(parts[2]);
                    let lim = parts[3].parse::<u64>().ok();
                    let real = real_stream::<T, PrefixAut>(dict, codec, None, &lo, &hi, lim);
                    (lo, hi, lim, real)
                } else {
                    let p = unhex(parts[1]).unwrap();
                    let lim = parts[2].parse::<u64>().ok();
                    let real = catch_unwind(AssertUnwindSafe(|| -> std::io::Result<Vec<(u64, Vec<u8>, V2)>> {
                        let mut b = dict.prefix_range(&p);
                        if let Some(l) = lim {
                            b = b.limit(l);
                        }
                        let mut s = b.into_stream()?;
                        let mut out = vec![];
                        while s.advance() {
                            out.push((s.term_ord(), s.key().to_vec(), (codec.id)(s.value())));
                        }
                        Ok(out)
                    }));
                    let real = match real {
                        Ok(Ok(v)) => Ok(v),
                        Ok(Err(e)) => Err(format!("io:{e}")),
                        Err(_) => Err("panic".to_string()),
                    };
                    // oracle for a prefix: starts_with
                    (Bnd::I(p.clone()), Bnd::U, lim, real)
                };
                let want: Vec<(u64, Vec<u8>, V2)> = sorted.iter().enumerate().filter(|(_, e)| {
                    if parts[0] == "pfx" { e.0.starts_with(match &lo { Bnd::I(p) => p, _ => unreachable!() }) } else { lo.lo_ok(e.0) && hi.hi_ok(e.0) }
                }).map(|(i, e)| (i as u64, e.0.clone(), *e.1)).collect();
                let want_d = digest(&want.iter().map(|e| (e.0, e.1.clone(), e.2 .0)).collect::<Vec<_>>());
                if want_d != spec {
                    bad(ctx, "model", "C15:spec-vs-btreemap", format!("Lean spec digest {spec} != BTreeMap digest {want_d}"));
                    continue;
                }
                match real {
                    Err(e) => {
                        // F-inverted: lower bound routed to a block ≥ 2 after the upper bound's block
                        let inverted = match (&lo, &hi) {
                            (Bnd::I(a) | Bnd::E(a), Bnd::I(b) | Bnd::E(b)) => a > b,
                            _ => false,
                        };
                        if e == "panic" && inverted && model == "panic" && parts[0] == "rng" {
                            bad(ctx, "oracle", KEY_INVERTED, "range with lower bound above upper bound panics (FileSlice::slice assert) instead of yielding an empty stream".into());
                        } else {
                            bad(ctx, "oracle", "C15:range-panics", format!("range stream failed: {e} (model {model})"));
                        }
                    }
                    Ok(real) => {
                        let is_prefix = real.len() <= want.len() && real.iter().zip(want.iter()).all(|(a, b)| a == b);
                        let enough = match lim {
                            None => real.len() == want.len(),
                            Some(l) => real.len() as u64 >= l.min(want.len() as u64),
                        };
                        if lim.is_some() && real.len() > want.len().min(lim.unwrap() as usize) {
                            ctx.report.count("branch:limit-returned-more-than-limit");
                        }
                        let real_d = digest(&real.iter().map(|e| (e.0, e.1.clone(), e.2 .0)).collect::<Vec<_>>());
                        if !is_prefix || !enough {
                            bad(ctx, "oracle", if parts[0] == "pfx" { "C15:prefix-stream-wrong" } else { "C15:range-stream-wrong" },
                                format!("stream returned {} entries (digest {real_d}); sorted map has {} (digest {want_d}); prefix-of-expected={is_prefix} enough-for-limit={enough}", real.len(), want.len()));
                        } else if real_d != model {
                            bad(ctx, "model", "C15:range-stream-model", format!("real digest {real_d}, block model {model}"));
                        }
                    }
                }
            }
            "aut" => {
                // third answer part: the model streamer run on the front-coded entries with the
                // automaton state stack (what `Streamer::advance` does); it is the one compared
                let model = halves.get(2).copied().unwrap_or(model);
                if halves.len() >= 3 {
                    ctx.report.count("aut:state-stack-model-compared");
                }
                let aspec = match AutSpec::parse(parts[1]) {
                    Some(a) => a,
                    None => continue,
                };
                let lo = Bnd::parse(parts[2]);
                let hi = Bnd::parse(parts[3]);
                let res: Option<(Result<Vec<(u64, Vec<u8>, V2)>, String>, Vec<bool>)> = c15_with_aut!(&aspec, a, {
                    let acc: Vec<bool> = sorted.iter().map(|e| accepts(&a, e.0)).collect();
                    Some((real_stream(dict, codec, Some(a), &lo, &hi, None), acc))
                }, None);
                let (real, acc) = match res {
                    Some(x) => x,
                    None => {
                        ctx.report.count("aut:regex-rejected");
                        continue;
                    }
                };
                ctx.report.count(&format!("aut:{}", match &aspec { AutSpec::Prefix(_) => "prefix", AutSpec::Lev { .. } => "levenshtein", AutSpec::Regex(_) => "regex" }));
                // language check of Levenshtein automata against the edit distance
                if let AutSpec::Lev { d, transpose, prefix: false, q } = &aspec {
                    for (i, e) in sorted.iter().enumerate().take(200) {
                        if let Ok(s) = std::str::from_utf8(e.0) {
                            let want = edit_distance(q, s, *transpose) <= *d as usize;
                            if want != acc[i] {
                                bad(ctx, "oracle", "C15:levenshtein-language", format!("Levenshtein automaton ({q:?}, d={d}, transpositions={transpose}) accepts {s:?} = {}, edit distance says {want}", acc[i]));
                                break;
                            }
                        }
                    }
                }
                let want: Vec<(u64, Vec<u8>, V2)> = sorted.iter().enumerate().filter(|(i, e)| acc[*i] && lo.lo_ok(e.0) && hi.hi_ok(e.0)).map(|(i, e)| (i as u64, e.0.clone(), *e.1)).collect();
                if !want.is_empty() && want.len() < keys.len() {
                    ctx.report.count("aut:nontrivial-language");
                }
                let want_d = digest(&want.iter().map(|e| (e.0, e.1.clone(), e.2 .0)).collect::<Vec<_>>());
                if !spec.is_empty() && spec != "skip" && want_d != spec {
                    bad(ctx, "model", "C15:spec-vs-btreemap", format!("Lean spec digest {spec} != filter-accepts digest {want_d}"));
                    continue;
                }
                match real {
                    Err(e) => bad(ctx, "oracle", "C15:search-panics", format!("automaton stream failed: {e}")),
                    Ok(real) => {
                        let kv_ok = real.len() == want.len() && real.iter().zip(want.iter()).all(|(a, b)| a.1 == b.1 && a.2 == b.2);
                        let real_d = digest(&real.iter().map(|e| (e.0, e.1.clone(), e.2 .0)).collect::<Vec<_>>());
                        if !kv_ok {
                            bad(ctx, "oracle", "C15:search-stream-wrong", format!("automaton stream returned {} entries, filter-accepts gives {}", real.len(), want.len()));
                        } else if real_d != want_d {
                            // keys and values right, ordinals wrong
                            // signature of the known defect: entries of pruned blocks are not counted, so
                            // reported ordinals are strictly increasing and never above the true ones
                            let undercount = real.windows(2).all(|w| w[0].0 < w[1].0) && real.iter().zip(want.iter()).all(|(a, b)| a.0 <= b.0);
                            if (!model.is_empty() && real_d == model) || (spec == "skip" && undercount) {
                                bad(ctx, "oracle", KEY_SEARCH_ORD, format!("Streamer::term_ord() of an automaton search is wrong once a block was pruned (keys/values right; first reported ord {:?}, true {:?})", real.first().map(|e| e.0), want.first().map(|e| e.0)));
                            } else {
                                bad(ctx, "oracle", "C15:search-stream-ordinals", format!("automaton stream ordinals differ from the sorted map and from the block model ({real_d} vs {want_d} vs {model})"));
                            }
                        } else if !model.is_empty() && spec != "skip" && real_d != model {
                            bad(ctx, "model", "C15:search-stream-model", format!("real digest {real_d}, block model {model}"));
                        }
                    }
                }
            }
            _ => {}
        }
    }
}

pub fn fnv_keys(keys: &[Vec<u8>]) -> u64 {
    let mut h = 0xcbf29ce484222325u64;
    for k in keys {
        h = fnv_nat(h, k.len() as u64);
        for b in k {
            h = fnv_byte(h, *b);
        }
    }
    h
}

pub fn model_layout(ctx: &mut Ctx, bl: usize, keys: &[Vec<u8>]) -> Vec<(u64, u64, Vec<u8>)> {
    let r = ctx.model.ask(&format!("C15 layout {} {}", bl, keys_field(keys)));
    if r.is_empty() || r == "bad-op" {
        return vec![];
    }
    r.split(';').filter_map(|b| {
        let p: Vec<&str> = b.split(':').collect();
        Some((p.first()?.parse().ok()?, p.get(1)?.parse().ok()?, unhex(p.get(2)?)?))
    }).collect()
}

fn one_dictionary(ctx: &mut Ctx, rng: &mut Rng, n_ops: usize) {
    let (profile, keys) = gen_keys(rng, ctx.thorough());
    let block_len = if keys.len() > 1000 && rng.chance(1, 2) { None } else { gen_block_len(rng) };
    let vk = *rng.pick(&["void", "u64", "range"]);
    let vals = gen_vals(rng, vk, keys.len());
    let layout = model_layout(ctx, block_len.unwrap_or(4000), &keys);
    let seps: Vec<Vec<u8>> = layout.iter().map(|b| b.2.clone()).collect();
    ctx.report.count(&format!("profile:{profile}"));
    ctx.report.count(&format!("values:{vk}"));
    ctx.report.count(&format!("blocks:{}", match layout.len() { 0 => "0", 1 => "1", 2..=9 => "2-9", 10..=127 => "10-127", 128..=129 => "128-129", _ => "130+" }));
    ctx.report.count(&format!("block_len:{}", match block_len { None => "default".to_string(), Some(0) => "0".into(), Some(1) => "1".into(), Some(x) if x < 16 => "2-15".into(), Some(x) if x < 200 => "16-199".into(), Some(_) => "200+".into() }));
    let ops = gen_ops(rng, &keys, &seps, n_ops);
    let case = DictCase { vk: vk.to_string(), block_len, keys, vals, ops, profile };
    if ctx.report.samples.len() < 2 && case.keys.len() >= 3 && case.keys.len() < 12 {
        ctx.report.sample(json!({"dictionary": case.json(""), "model_layout(firstOrd,len,sep)": layout.iter().map(|b| format!("{}:{}:{}", b.0, b.1, hex(&b.2))).collect::<Vec<_>>() }));
    }
    run_case(ctx, &case);
    other::cross_decode(ctx, &case);
}

pub fn run_case(ctx: &mut Ctx, case: &DictCase) {
    match case.vk.as_str() {
        "void" => check_dict(ctx, &void_codec(), case),
        "u64" => check_dict(ctx, &u64_codec(), case),
        _ => check_dict(ctx, &range_codec(), case),
    }
}

pub fn run(ctx: &mut Ctx) {
    ctx.report.rule = "cases = (dictionary, operation) pairs, writer insertion sequences, merges, cross-decoded files; \
        distinct = distinct (value type, block length, key set, operation); non-trivial = dictionary with ≥ 2 keys \
        (insertion sequences: ≥ 2 keys; merges: ≥ 2 inputs)".into();
    ctx.report.correspondence_obligations = vec![
        "get / term_ord / term_ord_or_next / ord_to_term / term_info_from_ord = Lean spec = Lean block model".into(),
        "range / prefix streams (all bound kinds, limits): real = prefix of sorted-map range with ≥ min(limit) entries; real = block model (ordinals, keys, values digest)".into(),
        "automaton streams (prefix, Levenshtein 0..2 ± transpositions, regex): real = filter accepts; real = block model with block pruning; Levenshtein language = edit distance".into(),
        "block routing get_block_with_key = model locateKey (separators incl. probes between last key and separator)".into(),
        "writer acceptance / rejection index = model writer (insert_key assert + find_shorter assert)".into(),
        "cross-decoding: Lean decodes real sstable files (void/u64/range, uncompressed blocks); real Reader decodes Lean-encoded blocks; block bytes equal".into(),
        "sstable merge and columnar merge = Lean mergeSpec = Lean k-way merge incl. ordinal tables".into(),
        "BitPacker::write/flush bytes = Lean bitPack (the packer of the block-address store)".into(),
        "block-address store: Lean decodes the bit-packed index of real files (addresses of every block, ordinal → block search); real routing returns the same addresses".into(),
        "tantivy::termdict (fst backend) and columnar dictionary obey the same ordered-map spec".into(),
    ];
    if let Some(case) = ctx.replay.clone() {
        other::replay(ctx, &case);
        return;
    }
    let mut rng = ctx.rng.fork();
    other::corpus(ctx);
    let dicts = ctx.budget(700, 3000);
    for _ in 0..dicts {
        one_dictionary(ctx, &mut rng, 40);
    }
    let seqs = ctx.budget(1000, 8000);
    for _ in 0..seqs {
        other::insertion_order(ctx, &mut rng);
    }
    let merges = ctx.budget(300, 3000);
    for _ in 0..merges {
        other::merges(ctx, &mut rng);
    }
    let fsts = ctx.budget(150, 1200);
    for _ in 0..fsts {
        other::fst_termdict(ctx, &mut rng);
    }
    let cols = ctx.budget(80, 600);
    for _ in 0..cols {
        other::columnar(ctx, &mut rng);
    }
    let packs = ctx.budget(300, 3000);
    for _ in 0..packs {
        other::bitpacker(ctx, &mut rng);
    }
}
