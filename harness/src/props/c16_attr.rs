// included by c16.rs — mechanism-based attribution of strict/lenient divergences.
//
// A divergence (strict accepts `s` as tree A, lenient returns another tree or errors) is
// attributed to a catalogued lexical difference of the two grammars only through a
// *counterfactual*: the suspected feature is normalised away in the text (one feature at a time,
// in a fixed order), every single edit is accepted only if the strict parse keeps the same tree
// (identical, or — for "trigger" characters/keywords that strict reads as ordinary name
// characters — identical up to exactly that renaming inside string leaves), and the divergence
// counts as explained only when strict and lenient AGREE (same tree, no error) on the normalised
// text. The key is that of the first normaliser that is necessary (leave-one-out). Anything not
// explained this way keeps the generic key and is a VIOLATION.

fn strict_tree(s: &str) -> Option<Value> {
    match catch_unwind(AssertUnwindSafe(|| parse_query(s))) {
        Ok(Ok(ast)) => serde_json::to_value(&ast).ok(),
        _ => None,
    }
}

/// lenient tree and number of errors
fn lenient_tree(s: &str) -> Option<(Value, usize)> {
    match catch_unwind(AssertUnwindSafe(|| parse_query_lenient(s))) {
        Ok((ast, errs)) => serde_json::to_value(&ast).ok().map(|v| (v, errs.len())),
        _ => None,
    }
}

/// can `parse_query_lenient` run into the known endless loop of `set_infallible` on this text.
/// Faithful simulation of that function's loop from every textual `IN` ws* `[` (an
/// over-approximation of where a set can start): an iteration makes no progress — and the state
/// repeats forever — exactly when, after the nom whitespace, the next character is a Unicode
/// White_Space character that nom's `multispace` does not know.
fn set_loop_risk(s: &str) -> bool {
    let cs: Vec<char> = s.chars().collect();
    let nom_ws = |c: char| " \t\r\n".contains(c);
    let mut i = 0;
    while i + 1 < cs.len() {
        if cs[i] == 'I' && cs[i + 1] == 'N' {
            let mut j = i + 2;
            while j < cs.len() && nom_ws(cs[j]) {
                j += 1;
            }
            if j < cs.len() && cs[j] == '[' {
                let mut k = j + 1;
                let mut first = true;
                loop {
                    if !first {
                        while k < cs.len() && nom_ws(cs[k]) {
                            k += 1;
                        }
                    }
                    if k >= cs.len() || cs[k] == ']' {
                        break;
                    }
                    let quoted_start = cs[k] == '"' || cs[k] == '\'';
                    first = false;
                    if quoted_start {
                        let q = cs[k];
                        k += 1;
                        while k < cs.len() && cs[k] != q {
                            if cs[k] == '\\' {
                                k += 1;
                            }
                            k += 1;
                        }
                        k += 1;
                        continue;
                    }
                    while k < cs.len() && nom_ws(cs[k]) {
                        k += 1;
                    }
                    if k >= cs.len() {
                        break;
                    }
                    if cs[k].is_whitespace() {
                        return true;
                    }
                    if cs[k] == ']' {
                        // word_infallible reads nothing: "expected word", the next round sees `]`
                        continue;
                    }
                    while k < cs.len() && !cs[k].is_whitespace() && cs[k] != ']' {
                        if cs[k] == '\\' {
                            k += 1;
                        }
                        k += 1;
                    }
                }
            }
        }
        i += 1;
    }
    false
}

fn agree(model: &mut crate::model::Model, s: &str, a: &Value) -> bool {
    // the textual simulation over-approximates: it also flags an `IN [` that the lenient grammar
    // reads as part of a quoted phrase. When it flags the text, the Lean model of the lenient
    // grammar decides (it is compared with `parse_query_lenient` on every generated string and
    // reads the loop guard from the source): only a text on which the model predicts a tree is
    // handed to the real parser in this process.
    if set_loop_risk(s) {
        if s.len() > 1200 {
            return false;
        }
        let ans = model.ask(&format!("C16 parsel {}", crate::model::hex(s.as_bytes())));
        if !ans.starts_with("tree") {
            return false;
        }
    }
    matches!(lenient_tree(s), Some((l, 0)) if l == *a)
}

/// every string leaf with all occurrences of `from` replaced by `to`
fn rename_all(x: &Value, from: &str, to: &str) -> Value {
    match x {
        Value::String(a) => Value::String(a.replace(from, to)),
        Value::Array(a) => Value::Array(a.iter().map(|v| rename_all(v, from, to)).collect()),
        Value::Object(m) => Value::Object(m.iter().map(|(k, v)| (k.clone(), if k == "type" || k == "delimiter" { v.clone() } else { rename_all(v, from, to) })).collect()),
        v => v.clone(),
    }
}

/// `y` is `x` with, in one or more string leaves, exactly one occurrence of `from` replaced by `to`
fn renamed(x: &Value, y: &Value, from: &str, to: &str) -> Option<usize> {
    match (x, y) {
        (Value::String(a), Value::String(b)) => {
            if a == b {
                return Some(0);
            }
            let mut start = 0;
            while let Some(p) = a[start..].find(from) {
                let i = start + p;
                let cand = format!("{}{}{}", &a[..i], to, &a[i + from.len()..]);
                if cand == *b {
                    return Some(1);
                }
                start = i + from.len().max(1);
                if start > a.len() {
                    break;
                }
            }
            None
        }
        (Value::Array(a), Value::Array(b)) if a.len() == b.len() => {
            let mut n = 0;
            for (p, q) in a.iter().zip(b) {
                n += renamed(p, q, from, to)?;
            }
            Some(n)
        }
        (Value::Object(a), Value::Object(b)) if a.len() == b.len() => {
            let mut n = 0;
            for (k, p) in a {
                n += renamed(p, b.get(k)?, from, to)?;
            }
            Some(n)
        }
        (a, b) if a == b => Some(0),
        _ => None,
    }
}

#[derive(Clone, Copy, PartialEq, Eq, Debug)]
enum Norm {
    SpaceBeforeCloser,
    SpaceAfterOpener,
    NotPlainSpace,
    KeywordAsName,
    RegexTrigger,
    RangeTrigger,
    BoundEscape,
    NegNumberSuffix,
    Touching,
}

const NORMS: &[Norm] = &[
    Norm::SpaceBeforeCloser,
    Norm::SpaceAfterOpener,
    Norm::NotPlainSpace,
    Norm::KeywordAsName,
    Norm::RegexTrigger,
    Norm::RangeTrigger,
    Norm::BoundEscape,
    Norm::NegNumberSuffix,
    Norm::Touching,
];

fn norm_key(n: Norm) -> &'static str {
    match n {
        Norm::SpaceBeforeCloser => KEY_LENIENT_RANGE_SPACE,
        Norm::SpaceAfterOpener => KEY_LENIENT_SET_QUOTE,
        Norm::NotPlainSpace => KEY_LENIENT_NOT,
        Norm::KeywordAsName => KEY_LENIENT_NOT_FIELD,
        Norm::RegexTrigger => KEY_LENIENT_REGEX,
        Norm::RangeTrigger => KEY_LENIENT_RANGE_COMMIT,
        Norm::BoundEscape => KEY_LENIENT_RANGE_ESCAPE,
        Norm::NegNumberSuffix => KEY_LENIENT_NEG_SUFFIX,
        Norm::Touching => KEY_LENIENT_ADJACENT,
    }
}

/// try every single edit of the normaliser, left to right, keeping those the strict grammar
/// confirms as tree-preserving; returns the new text and tree if anything was edited
fn apply_norm(n: Norm, s: &str, a: &Value) -> Option<(String, Value)> {
    let mut cs: Vec<char> = s.chars().collect();
    let mut tree = a.clone();
    let mut changed = false;
    // a letter that does not occur in the text: renamed tokens must not collide with existing ones
    // (identical clauses are deduplicated by rewrite_ast)
    let fresh: char = "xqzkjvwyghmpuf".chars().find(|c| !s.contains(*c)).unwrap_or('x');
    let fresh_s = fresh.to_string();
    let text = |cs: &Vec<char>| cs.iter().collect::<String>();
    match n {
        Norm::SpaceBeforeCloser | Norm::SpaceAfterOpener => {
            let mut i = 0;
            while i < cs.len() {
                let hit = if n == Norm::SpaceBeforeCloser {
                    (cs[i] == ']' || cs[i] == '}') && i > 0 && " \t\r\n".contains(cs[i - 1])
                } else {
                    cs[i] == '[' && i + 1 < cs.len() && " \t\r\n".contains(cs[i + 1])
                };
                if hit {
                    let mut c2 = cs.clone();
                    if n == Norm::SpaceBeforeCloser {
                        let mut j = i;
                        while j > 0 && " \t\r\n".contains(c2[j - 1]) {
                            j -= 1;
                        }
                        c2.drain(j..i);
                        if strict_tree(&text(&c2)).as_ref() == Some(&tree) {
                            cs = c2;
                            changed = true;
                            i = j;
                        }
                    } else {
                        let mut j = i + 1;
                        while j < c2.len() && " \t\r\n".contains(c2[j]) {
                            j += 1;
                        }
                        c2.drain(i + 1..j);
                        if strict_tree(&text(&c2)).as_ref() == Some(&tree) {
                            cs = c2;
                            changed = true;
                        }
                    }
                }
                i += 1;
            }
        }
        Norm::NotPlainSpace => {
            for i in 0..cs.len().saturating_sub(3) {
                if cs[i] == 'N' && cs[i + 1] == 'O' && cs[i + 2] == 'T' && "\t\r\n".contains(cs[i + 3]) {
                    let mut c2 = cs.clone();
                    c2[i + 3] = ' ';
                    if strict_tree(&text(&c2)).as_ref() == Some(&tree) {
                        cs = c2;
                        changed = true;
                    }
                }
            }
        }
        Norm::KeywordAsName => {
            for (kw, repl) in [("NOT", format!("NO{fresh}")), ("AND", format!("AN{fresh}")), ("OR", format!("O{fresh}"))] {
                let repl = repl.as_str();
                let k: Vec<char> = kw.chars().collect();
                let r: Vec<char> = repl.chars().collect();
                let mut i = 0;
                while i + k.len() <= cs.len() {
                    if cs[i..i + k.len()] == k[..] {
                        let mut c2 = cs.clone();
                        c2.splice(i..i + k.len(), r.iter().cloned());
                        if let Some(t2) = strict_tree(&text(&c2)) {
                            // (no edit at all: the name was a group's default field that no leaf took)
                            if renamed(&tree, &t2, kw, repl).is_some() {
                                cs = c2;
                                tree = t2;
                                changed = true;
                            }
                        }
                    }
                    i += 1;
                }
            }
        }
        Norm::BoundEscape => {
            // `\` + the escaped character are replaced together by two fresh letters (replacing the
            // backslash alone can turn `>\:` into the field name `>x:`), then the backslash alone
            let fresh2: char = "xqzkjvwyghmpuf".chars().find(|c| !s.contains(*c) && *c != fresh).unwrap_or('q');
            let mut i = 0;
            while i < cs.len() {
                if cs[i] == '\\' {
                    let mut done = false;
                    if i + 1 < cs.len() {
                        let from: String = [cs[i], cs[i + 1]].iter().collect();
                        let to: String = [fresh, fresh2].iter().collect();
                        let mut c2 = cs.clone();
                        c2[i] = fresh;
                        c2[i + 1] = fresh2;
                        if let Some(t2) = strict_tree(&text(&c2)) {
                            if matches!(renamed(&tree, &t2, &from, &to), Some(m) if m >= 1) {
                                cs = c2;
                                tree = t2;
                                changed = true;
                                done = true;
                            }
                        }
                    }
                    if !done {
                        let mut c2 = cs.clone();
                        c2[i] = fresh;
                        if let Some(t2) = strict_tree(&text(&c2)) {
                            if matches!(renamed(&tree, &t2, "\\", &fresh_s), Some(m) if m >= 1) {
                                cs = c2;
                                tree = t2;
                                changed = true;
                            }
                        }
                    }
                }
                i += 1;
            }
        }
        Norm::RegexTrigger | Norm::RangeTrigger => {
            let triggers: &[char] = match n {
                Norm::RegexTrigger => &['/'],
                _ => &['<', '>'],
            };
            // all occurrences at once (identical clauses are deduplicated by rewrite_ast, so a
            // per-occurrence edit of one of two equal clauses changes the shape of the tree)
            for t in triggers {
                if cs.contains(t) {
                    let c2: Vec<char> = cs.iter().map(|c| if c == t { fresh } else { *c }).collect();
                    if let Some(t2) = strict_tree(&text(&c2)) {
                        if rename_all(&tree, &t.to_string(), &fresh_s) == t2 && t2 != tree {
                            cs = c2;
                            tree = t2;
                            changed = true;
                        }
                    }
                }
            }
            for i in 0..cs.len() {
                if triggers.contains(&cs[i]) {
                    let from = cs[i].to_string();
                    let mut c2 = cs.clone();
                    c2[i] = fresh;
                    if let Some(t2) = strict_tree(&text(&c2)) {
                        if matches!(renamed(&tree, &t2, &from, &fresh_s), Some(m) if m >= 1) {
                            cs = c2;
                            tree = t2;
                            changed = true;
                        }
                    }
                }
            }
        }
        Norm::NegNumberSuffix => {
            // an elastic range whose bound is a negative number followed by `^…` (">-2.2^5"): strict
            // ends the bound with its number rule, lenient reads the relaxed word "-2.2^5".
            // Counterfactual: the equivalent bracket range ("{-2.2 TO *}^5"), same strict tree.
            {
                let mut i = 0;
                while i < cs.len() {
                    if cs[i] == '>' || cs[i] == '<' {
                        let gt = cs[i] == '>';
                        let mut j = i + 1;
                        let incl = j < cs.len() && cs[j] == '=';
                        if incl {
                            j += 1;
                        }
                        while j < cs.len() && " \t\r\n".contains(cs[j]) {
                            j += 1;
                        }
                        if j + 1 < cs.len() && cs[j] == '-' && cs[j + 1].is_ascii_digit() {
                            let mut k = j + 1;
                            while k < cs.len() && cs[k].is_ascii_digit() {
                                k += 1;
                            }
                            if k + 1 < cs.len() && cs[k] == '.' && cs[k + 1].is_ascii_digit() {
                                k += 1;
                                while k < cs.len() && cs[k].is_ascii_digit() {
                                    k += 1;
                                }
                            }
                            if k < cs.len() && cs[k] == '^' {
                                let num: String = cs[j..k].iter().collect();
                                let repl: String = match (gt, incl) {
                                    (true, false) => format!("{{{num} TO *}}"),
                                    (true, true) => format!("[{num} TO *]"),
                                    (false, false) => format!("{{* TO {num}}}"),
                                    (false, true) => format!("{{* TO {num}]"),
                                };
                                let mut c2 = cs.clone();
                                c2.splice(i..k, repl.chars());
                                if strict_tree(&text(&c2)).as_ref() == Some(&tree) {
                                    cs = c2;
                                    changed = true;
                                    i += repl.chars().count();
                                    continue;
                                }
                            }
                        }
                    }
                    i += 1;
                }
            }
            // `-1~2`, `-1*`: strict reads the number, then the slop / prefix mark; lenient has no
            // number rule and reads one word. Counterfactual: quote the number (the tree may differ
            // only in that literal's delimiter).
            let mut i = 0;
            while i + 1 < cs.len() {
                if cs[i] == '-' && cs[i + 1].is_ascii_digit() {
                    let mut j = i + 1;
                    while j < cs.len() && (cs[j].is_ascii_digit() || cs[j] == '.') {
                        j += 1;
                    }
                    if j < cs.len() && (cs[j] == '~' || cs[j] == '*') {
                        let mut c2 = cs.clone();
                        c2.insert(j, '"');
                        c2.insert(i, '"');
                        if let Some(t2) = strict_tree(&text(&c2)) {
                            if matches!(renamed(&tree, &t2, "none", "double_quotes"), Some(m) if m >= 1) {
                                cs = c2;
                                tree = t2;
                                changed = true;
                                j += 2;
                            }
                        }
                    }
                    i = j;
                } else {
                    i += 1;
                }
            }
        }
        Norm::Touching => {
          // several passes: an accepted edit can leave a touching pair to its left when the strict
          // tree tolerated it only because rewrite_ast deduplicates equal clauses ("^0.0" with the
          // clauses `.` and `0` present elsewhere: "^0. 0" is accepted, "^0 . 0" only afterwards)
          for _pass in 0..4 {
            let before = cs.len();
            let mut i = 1;
            while i < cs.len() {
                let (mut p, c) = (cs[i - 1], cs[i]);
                // an escaped whitespace character is a word character
                let mut bs = 0;
                while i >= 2 + bs && cs[i - 2 - bs] == '\\' {
                    bs += 1;
                }
                if bs % 2 == 1 {
                    p = 'a';
                }
                if !" \t\r\n".contains(p) && !" \t\r\n".contains(c) && !"]}".contains(c) && !"[{".contains(p) {
                    let mut c2 = cs.clone();
                    c2.insert(i, ' ');
                    if strict_tree(&text(&c2)).as_ref() == Some(&tree) {
                        cs = c2;
                        changed = true;
                        i += 1;
                    }
                }
                i += 1;
            }
            if cs.len() == before {
                break;
            }
          }
        }
    }
    if changed {
        Some((text(&cs), tree))
    } else {
        None
    }
}

/// run the normalisers of `order` that are not in `skip`; stop as soon as the grammars agree
fn normalise(model: &mut crate::model::Model, s: &str, a: &Value, skip: Option<Norm>, only: Option<&[Norm]>) -> (bool, Vec<Norm>) {
    let mut text = s.to_string();
    let mut tree = a.clone();
    let mut applied = vec![];
    if agree(model, &text, &tree) {
        return (true, applied);
    }
    for n in NORMS {
        if Some(*n) == skip {
            continue;
        }
        if let Some(o) = only {
            if !o.contains(n) {
                continue;
            }
        }
        if let Some((t2, a2)) = apply_norm(*n, &text, &tree) {
            text = t2;
            tree = a2;
            applied.push(*n);
            if agree(model, &text, &tree) {
                return (true, applied);
            }
        }
    }
    (false, applied)
}

/// the key of a strict/lenient divergence on `s` (strict accepted it)
fn attribute_divergence(model: &mut crate::model::Model, s: &str) -> &'static str {
    const GENERIC: &str = "C16:lenient-differs-from-strict";
    if s.chars().count() > 1500 {
        return GENERIC;
    }
    let a = match strict_tree(s) {
        Some(a) => a,
        None => return GENERIC,
    };
    let (ok, applied) = normalise(model, s, &a, None, None);
    if !ok || applied.is_empty() {
        return GENERIC;
    }
    // necessity: the first normaliser without which the others do not explain the divergence
    for n in &applied {
        let (still, _) = normalise(model, s, &a, Some(*n), Some(&applied));
        if !still {
            return norm_key(*n);
        }
    }
    norm_key(applied[0])
}
