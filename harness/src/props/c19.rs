//! C19 — tokens and snippets always point inside the text, on character boundaries.
//!
//! Ties `Model/Tokenizer/*.lean` + `Model/Snippet.lean` to `src/tokenizer/*.rs` and
//! `src/snippet/mod.rs`:
//!  * oracle (implementation alone): every token of every tokenizer × filter chain is in bounds,
//!    on char boundaries, positions never decrease, un-normalised text = slice, filters never move
//!    offsets; snippets never panic, the fragment is a substring no longer than max_num_chars,
//!    highlights are sorted / disjoint / inside / on boundaries / cover a query term, the HTML
//!    un-escapes back to the fragment and has no raw special character outside the tags;
//!  * model: (from, to, position) of the mirrored tokenizers, full token lists of filter chains
//!    (Unicode / stemmer / dictionary functions sent as tables), fragment + raw highlights +
//!    HTML bytes of the snippet, `collapse_overlapped_ranges`.
use crate::model::{hex, nat_list};
use crate::rng::Rng;
use crate::Ctx;
use serde::{Deserialize, Serialize};
use serde_json::json;
use std::collections::{BTreeMap, BTreeSet};
use std::ops::Range;
use std::panic::{catch_unwind, AssertUnwindSafe};
use tantivy::query::{BooleanQuery, Occur, PhraseQuery, Query, TermQuery};
use tantivy::schema::{IndexRecordOption, Schema, TextFieldIndexing, TextOptions};
use tantivy::snippet::{collapse_overlapped_ranges, Snippet, SnippetGenerator};
use tantivy::tokenizer::*;
use tantivy::{doc, Index, IndexWriter, Term};

const K_LONG: &str = "C19:fragment-longer-than-max-when-first-token-long";
const K_FACET: &str = "C19:facet-tokens-carry-no-offsets";
const K_OVERLAP: &str = "C19:raw-highlights-overlap-with-overlapping-tokens";
const K_OUTSIDE: &str = "C19:highlight-outside-fragment-when-token-end-offsets-decrease";

// ------------------------------------------------------------------------------------------
// analyzers
// ------------------------------------------------------------------------------------------
#[derive(Clone, Debug, Serialize, Deserialize, PartialEq)]
enum Tk {
    Simple,
    Whitespace,
    Raw,
    Ngram { min: usize, max: usize, prefix: bool },
    Facet,
    Regex { pat: String },
}

#[derive(Clone, Debug, Serialize, Deserialize, PartialEq)]
enum Fl {
    Lower,
    Fold,
    RemoveLong(usize),
    AlnumOnly,
    Stop(Vec<String>),
    StopEnglish,
    Stem(String),
    Split(Vec<String>),
}

impl Fl {
    /// the filter may change the token text (text = slice is then not promised)
    fn normalising(&self) -> bool {
        matches!(self, Fl::Lower | Fl::Fold | Fl::Stem(_) | Fl::Split(_))
    }
}

fn language(name: &str) -> Language {
    match name {
        "German" => Language::German,
        "French" => Language::French,
        "Russian" => Language::Russian,
        "Greek" => Language::Greek,
        "Turkish" => Language::Turkish,
        "Arabic" => Language::Arabic,
        "Tamil" => Language::Tamil,
        _ => Language::English,
    }
}

fn build(tk: &Tk, fls: &[Fl]) -> TextAnalyzer {
    let mut b = match tk {
        Tk::Simple => TextAnalyzer::builder(SimpleTokenizer::default()).dynamic(),
        Tk::Whitespace => TextAnalyzer::builder(WhitespaceTokenizer::default()).dynamic(),
        Tk::Raw => TextAnalyzer::builder(RawTokenizer::default()).dynamic(),
        Tk::Facet => TextAnalyzer::builder(FacetTokenizer::default()).dynamic(),
        Tk::Ngram { min, max, prefix } => TextAnalyzer::builder(NgramTokenizer::new(*min, *max, *prefix).unwrap()).dynamic(),
        Tk::Regex { pat } => TextAnalyzer::builder(RegexTokenizer::new(pat).unwrap()).dynamic(),
    };
    for f in fls {
        b = match f {
            Fl::Lower => b.filter_dynamic(LowerCaser),
            Fl::Fold => b.filter_dynamic(AsciiFoldingFilter),
            Fl::RemoveLong(n) => b.filter_dynamic(RemoveLongFilter::limit(*n)),
            Fl::AlnumOnly => b.filter_dynamic(AlphaNumOnlyFilter),
            Fl::Stop(ws) => b.filter_dynamic(StopWordFilter::remove(ws.clone())),
            Fl::StopEnglish => b.filter_dynamic(StopWordFilter::new(Language::English).unwrap()),
            Fl::Stem(l) => b.filter_dynamic(Stemmer::new(language(l))),
            Fl::Split(d) => b.filter_dynamic(SplitCompoundWords::from_dictionary(d.iter()).unwrap()),
        };
    }
    b.build()
}

fn tokens_of(an: &mut TextAnalyzer, text: &str) -> Result<Vec<Token>, ()> {
    catch_unwind(AssertUnwindSafe(|| {
        let mut out = vec![];
        let mut ts = an.token_stream(text);
        while ts.advance() {
            out.push(ts.token().clone());
        }
        out
    }))
    .map_err(|_| ())
}

const ENGLISH_STOP: [&str; 33] = [
    "a", "an", "and", "are", "as", "at", "be", "but", "by", "for", "if", "in", "into", "is", "it", "no", "not", "of", "on", "or", "such",
    "that", "the", "their", "then", "there", "these", "they", "this", "to", "was", "will", "with",
];

// ------------------------------------------------------------------------------------------
// text generation
// ------------------------------------------------------------------------------------------
const ASCII_WORDS: [&str; 22] = [
    "the", "running", "flies", "Hello", "WORLD", "tax", "payer", "dampf", "schiff", "fahrt", "dampfschifffahrt", "a", "I", "and", "x1",
    "42", "abcdefghij", "klm", "rust", "Rusty", "is", "ponies",
];
const UNI_WORDS: [&str; 24] = [
    "café", "Straße", "İstanbul", "ǅemal", "ΣΊΣΥΦΟΣ", "ὈΔΥΣΣΕΎΣ", "naïve", "Ærøskøbing", "日本語", "テキスト", "한국어", "привет", "Привет",
    "مرحبا", "हिन्दी", "ﬁnal", "ẞ", "𝒜𝒷𝒸", "𐐀𐐨", "e\u{301}cole", "a\u{20dd}", "ก\u{e31}น", "Ⅻ", "ǆ",
];
const EMOJI: [&str; 8] = ["😀", "👨\u{200d}👩\u{200d}👧", "👍🏽", "🇩🇪", "❤\u{fe0f}", "🏳\u{fe0f}\u{200d}🌈", "💣", "☃"];
const SPACES: [&str; 12] = [" ", " ", " ", "\t", "\n", "\r\n", "\u{c}", "\u{b}", "\u{a0}", "\u{2003}", "\u{3000}", "\u{85}"];
const PUNCT: [&str; 16] = ["<", ">", "&", "\"", "'", ",", ".", "-", "/", "!", "<b>", "</b>", "&amp;", "_", "(", ";"];
const CONTROL: [&str; 9] = ["\0", "\u{1}", "\u{7f}", "\u{80}", "\u{9f}", "\u{feff}", "\u{200b}", "\u{2028}", "\u{1b}"];

fn random_scalar(rng: &mut Rng) -> char {
    loop {
        let c = match rng.below(5) {
            0 => rng.below(0x80) as u32,
            1 => 0x80 + rng.below(0x800 - 0x80) as u32,
            2 => 0x800 + rng.below(0x10000 - 0x800) as u32,
            3 => 0x10000 + rng.below(0x110000 - 0x10000) as u32,
            // boundaries of the UTF-8 width classes
            _ => *rng.pick(&[0x7f, 0x80, 0x7ff, 0x800, 0xffff, 0x10000, 0x10ffff, 0xd7ff, 0xe000]),
        };
        if let Some(ch) = char::from_u32(c) {
            return ch;
        }
    }
}

fn gen_text(rng: &mut Rng) -> String {
    let profile = rng.below(100);
    let mut s = String::new();
    if profile < 3 {
        return s; // empty text
    }
    if profile < 6 {
        // one very long token (1, 2, 3 or 4-byte code points), possibly with a short neighbour
        let unit = *rng.pick(&["a", "é", "日", "𝒜", "Z", "İ"]);
        let n = *rng.pick(&[39usize, 40, 41, 254, 255, 256, 1000, 5000, 20000]);
        if rng.chance(1, 2) {
            s.push_str("ab ");
        }
        for _ in 0..n {
            s.push_str(unit);
        }
        if rng.chance(1, 2) {
            s.push_str(" cd");
        }
        return s;
    }
    let pieces = match rng.below(6) {
        0 => 1,
        1 => 2,
        2 => 3 + rng.usize_below(4),
        3 => 8 + rng.usize_below(12),
        4 => 20 + rng.usize_below(40),
        _ => 1 + rng.usize_below(8),
    };
    let ascii_only = profile < 20;
    let no_space = (20..26).contains(&profile);
    for i in 0..pieces {
        let k = rng.below(20);
        if ascii_only {
            s.push_str(if k < 12 { *rng.pick(&ASCII_WORDS) } else if k < 17 { *rng.pick(&SPACES[..7]) } else { *rng.pick(&PUNCT) });
            if k < 8 {
                s.push(' ');
            }
            continue;
        }
        match k {
            0..=4 => s.push_str(*rng.pick(&ASCII_WORDS)),
            5..=9 => s.push_str(*rng.pick(&UNI_WORDS)),
            10..=11 => s.push_str(*rng.pick(&EMOJI)),
            12 => s.push_str(*rng.pick(&PUNCT)),
            13 => s.push_str(*rng.pick(&CONTROL)),
            14..=15 => {
                for _ in 0..1 + rng.usize_below(4) {
                    s.push(random_scalar(rng));
                }
            }
            _ => {}
        }
        if !no_space && i + 1 < pieces {
            match rng.below(6) {
                0 => {}
                1 => s.push_str(*rng.pick(&PUNCT)),
                _ => s.push_str(*rng.pick(&SPACES)),
            }
        }
    }
    s
}

fn gen_tokenizer(rng: &mut Rng) -> Tk {
    match rng.below(12) {
        0..=2 => Tk::Simple,
        3 => Tk::Whitespace,
        4 => Tk::Raw,
        5..=7 => {
            let (min, max) = *rng.pick(&[(1usize, 1usize), (1, 2), (1, 3), (2, 3), (2, 5), (3, 3), (1, 5), (4, 7), (2, 2), (1, 40), (5, 1000)]);
            Tk::Ngram { min, max, prefix: rng.chance(1, 3) }
        }
        8 => Tk::Facet,
        _ => Tk::Regex {
            pat: rng
                .pick(&[r"\w+", r"[^\s]+", r"'(?:\w*)'", r"\p{L}+", r"[a-z]*", r".", r"(?s).{1,3}", r"\b\w", r"^\w+", r"\d+|[A-Z]\w*", r"[^a-z]+"])
                .to_string(),
        },
    }
}

fn gen_filter(rng: &mut Rng) -> Fl {
    match rng.below(9) {
        0 | 1 => Fl::Lower,
        2 => Fl::Fold,
        3 => Fl::RemoveLong(*rng.pick(&[1usize, 2, 4, 6, 40, 255, 256])),
        4 => Fl::AlnumOnly,
        5 => {
            if rng.chance(1, 2) {
                Fl::StopEnglish
            } else {
                Fl::Stop(vec!["the".into(), "café".into(), "a".into(), "日本語".into(), "is".into(), "ab".into(), "c".into(), "d".into(), "cd".into()])
            }
        }
        6 => Fl::Stem(rng.pick(&["English", "German", "French", "Russian", "Greek", "Turkish", "Arabic"]).to_string()),
        7 => Fl::Split(vec!["dampf".into(), "schiff".into(), "fahrt".into(), "tax".into(), "payer".into(), "日本".into(), "語".into(), "caf".into(), "é".into(), "ab".into(), "c".into()]),
        _ => Fl::Lower,
    }
}

fn gen_chain(rng: &mut Rng) -> Vec<Fl> {
    let n = match rng.below(8) {
        0 | 1 => 0,
        2 | 3 | 4 => 1,
        5 | 6 => 2,
        _ => 3 + rng.usize_below(2),
    };
    (0..n).map(|_| gen_filter(rng)).collect()
}

// ------------------------------------------------------------------------------------------
// model encoding
// ------------------------------------------------------------------------------------------
fn enc_text(text: &str) -> String {
    if text.is_empty() {
        return "- -".into();
    }
    let mut codes = String::with_capacity(text.len() * 4);
    let mut bits = String::with_capacity(text.len() * 2);
    for (i, c) in text.chars().enumerate() {
        if i > 0 {
            codes.push(',');
            bits.push(',');
        }
        codes.push_str(&(c as u32).to_string());
        bits.push(if c.is_alphanumeric() { '1' } else { '0' });
    }
    format!("{codes} {bits}")
}

fn dots(s: &str) -> String {
    s.chars().map(|c| (c as u32).to_string()).collect::<Vec<_>>().join(".")
}

fn enc_tokens(ts: &[Token]) -> String {
    if ts.is_empty() {
        return "-".into();
    }
    ts.iter().map(|t| format!("{}:{}:{}:{}", t.offset_from, t.offset_to, t.position, dots(&t.text))).collect::<Vec<_>>().join(";")
}

fn flat_offsets(ts: &[Token]) -> String {
    let mut v = vec![];
    for t in ts {
        v.push(t.offset_from);
        v.push(t.offset_to);
        v.push(t.position);
    }
    nat_list(&v)
}

/// successive `regex.find(rest)` results relative to the rest, obtained from a *fresh*
/// RegexTokenizer on each suffix (its first token has cursor 0, so no cursor arithmetic is involved)
fn regex_matches(pat: &str, text: &str) -> Vec<usize> {
    let mut out = vec![];
    let mut cursor = 0;
    loop {
        let mut tk = RegexTokenizer::new(pat).unwrap();
        let mut ts = tk.token_stream(&text[cursor..]);
        if !ts.advance() {
            break;
        }
        let (a, b) = (ts.token().offset_from, ts.token().offset_to);
        out.push(a);
        out.push(b);
        if b == 0 || cursor + b > text.len() || !text.is_char_boundary(cursor + b) {
            break;
        }
        cursor += b;
    }
    out
}

fn model_tok_request(tk: &Tk, text: &str, op: &str) -> String {
    let t = enc_text(text);
    match tk {
        Tk::Simple => format!("C19 {op} simple {t}"),
        Tk::Whitespace => format!("C19 {op} whitespace {t}"),
        Tk::Raw => format!("C19 {op} raw {t}"),
        Tk::Facet => format!("C19 {op} facet {t}"),
        Tk::Ngram { min, max, prefix } => format!("C19 {op} ngram {min} {max} {} {t}", *prefix as u8),
        Tk::Regex { pat } => format!("C19 {op} regex {} {t}", nat_list(&regex_matches(pat, text))),
    }
}

/// the single-filter analyzer over RawTokenizer evaluates a text-level function at one point
fn raw_with(f: &Fl, text: &str) -> Vec<String> {
    let mut an = build(&Tk::Raw, std::slice::from_ref(f));
    tokens_of(&mut an, text).unwrap_or_default().into_iter().map(|t| t.text).collect()
}

/// filter spec for the model, with the parameter tables evaluated on the token texts that reach it
fn filter_spec(f: &Fl, reaching: &[Token]) -> String {
    let texts: BTreeSet<&str> = reaching.iter().map(|t| t.text.as_str()).collect();
    filter_spec_texts(f, &texts)
}

/// FacetTokenizer appends to the token's text buffer, which in-place filters rewrite: the texts
/// that reach each filter of the chain, obtained by threading the buffer through the *real*
/// single-filter analyzers (the Lean model does the same threading with these tables)
fn facet_reaching(fls: &[Fl], text: &str) -> Vec<BTreeSet<String>> {
    let mut reach: Vec<BTreeSet<String>> = vec![BTreeSet::new(); fls.len()];
    let bytes = text.as_bytes();
    let mut pieces: Vec<&str> = vec![""];
    if !text.is_empty() {
        let mut start = 0;
        for i in 1..bytes.len() {
            if bytes[i] == 0 {
                pieces.push(&text[start..i]);
                start = i;
            }
        }
        pieces.push(&text[start..]);
    }
    let mut cur = String::new();
    for p in pieces {
        cur.push_str(p);
        let mut parts: Option<Vec<String>> = None; // None = the tokenizer's own token is exposed
        for (k, f) in fls.iter().enumerate() {
            match parts.as_mut() {
                None => {
                    reach[k].insert(cur.clone());
                    let r = raw_with(f, &cur);
                    match f {
                        Fl::Lower | Fl::Fold | Fl::Stem(_) => cur = r.into_iter().next().unwrap_or_default(),
                        Fl::RemoveLong(_) | Fl::AlnumOnly | Fl::Stop(_) | Fl::StopEnglish => {
                            if r.is_empty() {
                                break;
                            }
                        }
                        Fl::Split(d) => {
                            // a text that is itself one dictionary word is "split" into one detached
                            // part (a clone): outer filters then no longer touch the buffer
                            if r.len() >= 2 || (r.len() == 1 && !cur.is_empty() && d.contains(&cur)) {
                                parts = Some(r);
                            }
                        }
                    }
                }
                Some(ps) => {
                    let mut next = vec![];
                    for q in ps.iter() {
                        reach[k].insert(q.clone());
                        next.extend(raw_with(f, q));
                    }
                    *ps = next;
                }
            }
        }
    }
    reach
}

fn filter_spec_texts(f: &Fl, texts: &BTreeSet<&str>) -> String {
    let chars: BTreeSet<char> = texts.iter().flat_map(|t| t.chars()).filter(|c| !c.is_ascii()).collect();
    match f {
        Fl::Lower => format!("lower={}", chars.iter().map(|c| format!("{}>{}", *c as u32, dots(&c.to_lowercase().collect::<String>()))).collect::<Vec<_>>().join("/")),
        Fl::Fold => {
            let mut e = vec![];
            for c in &chars {
                let s = c.to_string();
                let r = raw_with(&Fl::Fold, &s);
                if r.len() == 1 && r[0] != s {
                    e.push(format!("{}>{}", *c as u32, dots(&r[0])));
                }
            }
            format!("fold={}", e.join("/"))
        }
        Fl::RemoveLong(n) => format!("rl={n}"),
        Fl::AlnumOnly => "an".into(),
        Fl::Stop(ws) => format!("stop={}", ws.iter().map(|w| dots(w)).collect::<Vec<_>>().join("/")),
        Fl::StopEnglish => format!("stop={}", ENGLISH_STOP.iter().map(|w| dots(w)).collect::<Vec<_>>().join("/")),
        Fl::Stem(_) => {
            let mut e = vec![];
            for t in texts {
                let r = raw_with(f, t);
                if r.len() == 1 {
                    e.push(format!("{}>{}", dots(t), dots(&r[0])));
                }
            }
            format!("stem={}", e.join("/"))
        }
        Fl::Split(d) => {
            let mut e = vec![];
            for t in texts {
                let r = raw_with(f, t);
                if r.len() >= 2 || (r.len() == 1 && !t.is_empty() && d.iter().any(|w| w == t)) {
                    e.push(format!("{}>{}", dots(t), r.iter().map(|p| dots(p)).collect::<Vec<_>>().join("+")));
                }
            }
            format!("split={}", e.join("/"))
        }
    }
}

// ------------------------------------------------------------------------------------------
// tokenizer cases
// ------------------------------------------------------------------------------------------
fn tok_case(tk: &Tk, fls: &[Fl], text: &str) -> serde_json::Value {
    json!({"kind": "tok", "tokenizer": tk, "filters": fls, "text": text})
}

fn short(text: &str) -> String {
    let s: String = text.chars().take(60).collect();
    format!("{:?}{}", s, if text.chars().count() > 60 { "…" } else { "" })
}

fn check_tokens(ctx: &mut Ctx, tk: &Tk, fls: &[Fl], text: &str) {
    let case = tok_case(tk, fls, text);
    let desc = format!("{:?}+{:?} on {}", tk, fls, short(text));
    let mut an = build(tk, fls);
    let toks = match tokens_of(&mut an, text) {
        Ok(t) => t,
        Err(_) => {
            ctx.report.violation("oracle", "C19:tokenizer-panic", format!("token_stream panicked: {desc}"), case);
            return;
        }
    };
    let base = match tokens_of(&mut build(tk, &[]), text) {
        Ok(t) => t,
        Err(_) => {
            ctx.report.violation("oracle", "C19:tokenizer-panic", format!("token_stream of the bare tokenizer panicked: {desc}"), case);
            return;
        }
    };
    let multibyte = !text.is_ascii();
    ctx.report.case(&format!("tok|{:?}|{:?}|{}", tk, fls, text), !toks.is_empty() && (multibyte || toks.len() >= 2));
    ctx.report.count(&format!("tokenizer:{}", match tk { Tk::Simple => "simple", Tk::Whitespace => "whitespace", Tk::Raw => "raw", Tk::Ngram { .. } => "ngram", Tk::Facet => "facet", Tk::Regex { .. } => "regex" }));
    ctx.report.count(&format!("chain-len:{}", fls.len()));
    for f in fls {
        ctx.report.count(&format!("filter:{}", match f { Fl::Lower => "lower", Fl::Fold => "fold", Fl::RemoveLong(_) => "remove-long", Fl::AlnumOnly => "alnum-only", Fl::Stop(_) | Fl::StopEnglish => "stop", Fl::Stem(_) => "stem", Fl::Split(_) => "split" }));
    }
    ctx.report.count(if text.is_empty() { "text:empty" } else if multibyte { "text:multibyte" } else { "text:ascii" });
    ctx.report.count_n("tokens", toks.len() as u64);
    if text.chars().any(|c| c.len_utf8() == 4) {
        ctx.report.count("text:has-4-byte");
    }
    if toks.iter().any(|t| t.offset_to - t.offset_from.min(t.offset_to) >= 255) {
        ctx.report.count("token:>=255-bytes");
    }

    // ---- O5: the property's own predicates on every emitted token -------------------------
    let normalising = fls.iter().any(|f| f.normalising());
    let mut last_pos: Option<usize> = None;
    let mut facet_reported = false;
    for (i, t) in toks.iter().enumerate() {
        if !(t.offset_from <= t.offset_to && t.offset_to <= text.len()) {
            ctx.report.violation("oracle", "C19:token-out-of-bounds", format!("token {i} has offsets {}..{} in a text of {} bytes: {desc}", t.offset_from, t.offset_to, text.len()), case.clone());
            return;
        }
        if !text.is_char_boundary(t.offset_from) || !text.is_char_boundary(t.offset_to) {
            ctx.report.violation("oracle", "C19:token-off-char-boundary", format!("token {i} offsets {}..{} are not on character boundaries: {desc}", t.offset_from, t.offset_to), case.clone());
            return;
        }
        if let Some(p) = last_pos {
            if t.position < p {
                ctx.report.violation("oracle", "C19:position-decreases", format!("token {i} position {} after {p}: {desc}", t.position), case.clone());
                return;
            }
        }
        last_pos = Some(t.position);
        if !normalising && t.text != text[t.offset_from..t.offset_to] {
            // the facet tokenizer never assigns offsets: its tokens carry 0..0 and a growing text
            let facet_signature = *tk == Tk::Facet && t.offset_from == 0 && t.offset_to == 0 && text.starts_with(t.text.as_str())
                && (t.text.len() == text.len() || text.as_bytes()[t.text.len()] == 0);
            if facet_signature {
                if !facet_reported {
                    ctx.report.violation("oracle", K_FACET, format!("facet token {i} has text {:?} but offsets 0..0: {desc}", t.text), case.clone());
                    facet_reported = true;
                }
            } else {
                ctx.report.violation("oracle", "C19:token-text-not-slice", format!("token {i} text {:?} != text[{}..{}] = {:?}: {desc}", short(&t.text), t.offset_from, t.offset_to, short(&text[t.offset_from..t.offset_to])), case.clone());
                return;
            }
        }
    }
    // filters never move offsets or positions: the filtered (from,to,pos) sequence is the bare
    // tokenizer's sequence with entries dropped or repeated
    if !fls.is_empty() {
        let mut j = 0usize;
        let mut ok = true;
        for t in &toks {
            let key = (t.offset_from, t.offset_to, t.position);
            while j < base.len() && (base[j].offset_from, base[j].offset_to, base[j].position) != key {
                j += 1;
            }
            if j == base.len() {
                ok = false;
                break;
            }
        }
        if !ok {
            ctx.report.violation("oracle", "C19:filter-changed-offsets", format!("the filtered stream carries offsets/positions the bare tokenizer never emitted: {desc}"), case.clone());
            return;
        }
    }

    // ---- O4: correspondence with the model --------------------------------------------------
    let m = ctx.model.ask(&model_tok_request(tk, text, "tok"));
    let r = flat_offsets(&base);
    if m != r {
        ctx.report.violation("model", "C19:tokenizer-offsets-mismatch", format!("bare tokenizer (from,to,pos): real {} model {}: {desc}", &r[..r.len().min(120)], &m[..m.len().min(120)]), case.clone());
        return;
    }
    if !fls.is_empty() {
        // run the chain in the model, stage by stage tables from the real prefix analyzers
        let mut specs = vec![];
        for k in 0..fls.len() {
            let reaching = if k == 0 { base.clone() } else { tokens_of(&mut build(tk, &fls[..k]), text).unwrap_or_default() };
            specs.push(filter_spec(&fls[k], &reaching));
        }
        let m = if *tk == Tk::Facet {
            let reach = facet_reaching(fls, text);
            let specs: Vec<String> = fls.iter().zip(&reach).map(|(f, r)| filter_spec_texts(f, &r.iter().map(|s| s.as_str()).collect())).collect();
            ctx.report.count("facet-chain(buffer threaded through in-place filters)");
            ctx.model.ask(&format!("C19 chainfacet {} {}", specs.join("|"), enc_text(text)))
        } else {
            ctx.model.ask(&format!("C19 chain {} {}", specs.join("|"), enc_tokens(&base)))
        };
        let r = enc_tokens(&toks);
        if m != r {
            ctx.report.violation("model", "C19:filter-chain-mismatch", format!("filter chain output: real {} model {}: {desc}", &r[..r.len().min(160)], &m[..m.len().min(160)]), case.clone());
            return;
        }
    } else if (toks.len() as u64) * (text.len() as u64) <= 3_000_000 && (*tk != Tk::Facet || toks.len() <= 64) {
        let m = ctx.model.ask(&model_tok_request(tk, text, "tokt"));
        let r = enc_tokens(&toks);
        if m != r {
            ctx.report.violation("model", "C19:tokenizer-text-mismatch", format!("token texts: real {} model {}: {desc}", &r[..r.len().min(160)], &m[..m.len().min(160)]), case.clone());
        }
    }
    if ctx.report.samples.len() < 2 && multibyte && toks.len() >= 2 && toks.len() <= 8 {
        ctx.report.sample(json!({"tokenizer": tk, "filters": fls, "text": text, "tokens": toks.iter().map(|t| json!([t.offset_from, t.offset_to, t.position, t.text])).collect::<Vec<_>>()}));
    }
}

// ------------------------------------------------------------------------------------------
// snippets
// ------------------------------------------------------------------------------------------
/// un-escape `encode_minimal` output and strip `<b>`/`</b>`; Err = a raw special character
fn unescape_strip(html: &str) -> Result<(String, Vec<String>), String> {
    let mut out = String::new();
    let mut tagged: Vec<String> = vec![];
    let mut open: Option<String> = None;
    let mut rest = html;
    while let Some(c) = rest.chars().next() {
        let mut adv = c.len_utf8();
        if rest.starts_with("<b>") && open.is_none() {
            open = Some(String::new());
            adv = 3;
        } else if rest.starts_with("</b>") && open.is_some() {
            tagged.push(open.take().unwrap());
            adv = 4;
        } else {
            let mut lit: Option<char> = None;
            for (e, ch) in [("&quot;", '"'), ("&amp;", '&'), ("&#x27;", '\''), ("&lt;", '<'), ("&gt;", '>')] {
                if rest.starts_with(e) {
                    lit = Some(ch);
                    adv = e.len();
                }
            }
            let ch = match lit {
                Some(ch) => ch,
                None => {
                    if matches!(c, '<' | '>' | '&' | '"' | '\'') {
                        return Err(format!("raw {c:?} at byte {}", html.len() - rest.len()));
                    }
                    c
                }
            };
            out.push(ch);
            if let Some(o) = open.as_mut() {
                o.push(ch);
            }
        }
        rest = &rest[adv..];
    }
    if open.is_some() {
        return Err("unclosed <b>".into());
    }
    Ok((out, tagged))
}

fn snip_case(tk: &Tk, fls: &[Fl], text: &str, terms: &BTreeMap<String, f32>, m: usize) -> serde_json::Value {
    json!({"kind": "snip", "tokenizer": tk, "filters": fls, "text": text, "max_num_chars": m,
           "terms": terms.iter().map(|(k, v)| (k.clone(), json!(v.to_bits()))).collect::<serde_json::Map<_, _>>()})
}

struct SnipOut {
    fragment: String,
    highlighted: Vec<Range<usize>>,
    html: Result<String, ()>,
}

fn real_snippet(gen: &SnippetGenerator, text: &str) -> Result<SnipOut, ()> {
    let sn: Snippet = catch_unwind(AssertUnwindSafe(|| gen.snippet(text))).map_err(|_| ())?;
    let html = catch_unwind(AssertUnwindSafe(|| sn.to_html())).map_err(|_| ());
    Ok(SnipOut { fragment: sn.fragment().to_string(), highlighted: sn.highlighted().to_vec(), html })
}

fn score_units(s: f32) -> Option<u64> {
    // exact multiples of 2^-10 below 2: sums of a few thousand of them are exact in f32
    let x = s as f64 * 1024.0;
    if s >= 0.0 && s <= 1.0 && x.fract() == 0.0 { Some(x as u64) } else { None }
}

fn check_snippet(ctx: &mut Ctx, tk: &Tk, fls: &[Fl], text: &str, terms: &BTreeMap<String, f32>, max_chars: usize, via: &str, gen: Option<&SnippetGenerator>) {
    let case = snip_case(tk, fls, text, terms, max_chars);
    let desc = format!("{:?}+{:?} terms {:?} max_num_chars {max_chars} on {}", tk, fls, terms.keys().take(6).collect::<Vec<_>>(), short(text));
    let own;
    let gen = match gen {
        Some(g) => g,
        None => {
            own = SnippetGenerator::new(terms.clone(), build(tk, fls), tantivy::schema::Field::from_field_id(0), max_chars);
            &own
        }
    };
    let toks = tokens_of(&mut build(tk, fls), text).unwrap_or_default();
    let overlapping_tokens = toks.windows(2).any(|w| w[1].offset_from < w[0].offset_to) ;
    let to_decreases = toks.windows(2).any(|w| w[1].offset_to < w[0].offset_to);
    let matched: Vec<bool> = toks.iter().map(|t| terms.contains_key(&t.text.to_lowercase())).collect();
    let n_matched = matched.iter().filter(|b| **b).count();
    ctx.report.count(&format!("snippet:via-{via}"));
    ctx.report.count(match n_matched { 0 => "snippet:matches-0", 1 => "snippet:matches-1", _ => "snippet:matches-many" });
    ctx.report.count(if max_chars <= 3 { "snippet:max-tiny" } else if max_chars >= 100_000 { "snippet:max-huge" } else { "snippet:max-mid" });
    if text.chars().any(|c| matches!(c, '<' | '>' | '&' | '"' | '\'')) {
        ctx.report.count("snippet:text-has-html-special");
    }
    ctx.report.case(&format!("snip|{:?}|{:?}|{}|{:?}|{max_chars}", tk, fls, text, terms.keys().collect::<Vec<_>>()), n_matched >= 1);

    // ---- model answer (computed first: it also tells where the model expects a panic) -------
    let units: Option<Vec<Option<u64>>> = toks.iter().map(|t| match terms.get(&t.text.to_lowercase()) { None => Some(None), Some(s) => score_units(*s).map(Some) }).collect();
    let model = units.as_ref().map(|u| {
        let st = if toks.is_empty() { "-".to_string() } else {
            toks.iter().zip(u).map(|(t, s)| format!("{}:{}:{}", t.offset_from, t.offset_to, s.map(|v| v.to_string()).unwrap_or("n".into()))).collect::<Vec<_>>().join(";")
        };
        ctx.model.ask(&format!("C19 snippet {max_chars} {} {st}", enc_text(text)))
    });
    if model.is_none() {
        ctx.report.count("snippet:scores-not-dyadic(model-skipped)");
    }

    let real = real_snippet(gen, text);
    let out = match real {
        Err(_) => {
            ctx.report.violation("oracle", "C19:snippet-panic", format!("SnippetGenerator::snippet panicked: {desc}"), case);
            return;
        }
        Ok(o) => o,
    };
    // fragment: a substring of the text (both are valid UTF-8, so a match is on char boundaries)
    let starts: Vec<usize> = if out.fragment.is_empty() { vec![0] } else { text.match_indices(out.fragment.as_str()).map(|(i, _)| i).collect() };
    if starts.is_empty() {
        ctx.report.violation("oracle", "C19:fragment-not-substring", format!("fragment {:?} is not a substring of the text: {desc}", short(&out.fragment)), case);
        return;
    }
    let nchars = out.fragment.chars().count();
    if nchars > max_chars {
        // S7 signature: the fragment is exactly one token, and that token alone is longer than the limit
        let single = starts.iter().any(|a| toks.iter().any(|t| t.offset_from == *a && t.offset_to == *a + out.fragment.len() && t.offset_to - t.offset_from > max_chars));
        let key = if single { K_LONG } else { "C19:fragment-longer-than-max" };
        ctx.report.violation("oracle", key, format!("fragment of {nchars} chars with max_num_chars = {max_chars}{}: {desc}", if single { " (a single token longer than the limit)" } else { "" }), case.clone());
        if !single {
            return;
        }
    }
    // highlights
    let hl = &out.highlighted;
    let mut outside = false;
    for h in hl.iter() {
        if !(h.start <= h.end && h.end <= out.fragment.len()) {
            outside = true;
        } else if !out.fragment.is_char_boundary(h.start) || !out.fragment.is_char_boundary(h.end) {
            ctx.report.violation("oracle", "C19:highlight-off-char-boundary", format!("highlight {h:?} of fragment {:?}: {desc}", short(&out.fragment)), case.clone());
            return;
        }
    }
    if outside {
        // signature of the separate defect: the analyzer's end offsets are not monotone, so the
        // fragment's stop offset (the *last* token's end) is smaller than an earlier term token's end
        // precisely: every offending highlight is a term token t of the stream, and a *later* token u
        // of the same fragment ends where the fragment ends, before t ends
        let flen = out.fragment.len();
        let signature = to_decreases && hl.iter().filter(|h| !(h.start <= h.end && h.end <= flen)).all(|h| {
            h.start <= h.end && starts.iter().any(|a| {
                toks.iter().enumerate().any(|(i, t)| matched[i] && t.offset_from == a + h.start && t.offset_to == a + h.end
                    && toks[i + 1..].iter().any(|u| u.offset_to == a + flen && u.offset_from >= *a))
            })
        });
        let to_decreases = signature;
        let key = if signature { K_OUTSIDE } else { "C19:highlight-outside-fragment" };
        ctx.report.violation("oracle", key, format!("highlights {:?} not inside the fragment of {} bytes (to_html {}): {desc}", hl, out.fragment.len(), if out.html.is_err() { "panics" } else { "does not panic" }), case.clone());
        if !to_decreases {
            return;
        }
    } else if out.html.is_err() {
        ctx.report.violation("oracle", "C19:to-html-panic", format!("to_html panicked with highlights {:?} in a fragment of {} bytes: {desc}", hl, out.fragment.len()), case.clone());
        return;
    }
    let sorted_disjoint = |v: &[Range<usize>]| v.windows(2).all(|w| w[0].end <= w[1].start);
    if !outside && !sorted_disjoint(hl) {
        // raw ranges overlap: only tolerated (as a recorded finding) when the two ranges are the
        // ranges of two overlapping *tokens* of the analyzer that both are query terms
        let from_tokens = hl.windows(2).filter(|w| w[0].end > w[1].start).all(|w| {
            starts.iter().any(|a| {
                let has = |r: &Range<usize>| toks.iter().zip(&matched).any(|(t, m)| *m && t.offset_from == a + r.start && t.offset_to == a + r.end);
                has(&w[0]) && has(&w[1])
            })
        }) && hl.windows(2).all(|w| w[0].start <= w[1].start);
        let key = if overlapping_tokens && from_tokens { K_OVERLAP } else { "C19:highlights-not-sorted-disjoint" };
        ctx.report.violation("oracle", key, format!("raw highlighted() ranges {:?} overlap: {desc}", &hl[..hl.len().min(8)]), case.clone());
        if key != K_OVERLAP {
            return;
        }
    }
    if !outside {
        let collapsed = collapse_overlapped_ranges(hl);
        if !sorted_disjoint(&collapsed) || collapsed.iter().any(|r| r.start > r.end) {
            ctx.report.violation("oracle", "C19:collapsed-highlights-overlap", format!("collapse_overlapped_ranges({:?}) = {:?}: {desc}", hl, collapsed), case.clone());
            return;
        }
        // every highlight covers text whose analysis yields a query term
        let context_free = !matches!(tk, Tk::Regex { pat } if pat.contains("\\b") || pat.contains('^') || pat.contains("'"));
        if context_free {
            for h in hl.iter() {
                let covered = &out.fragment[h.clone()];
                let yields = tokens_of(&mut build(tk, fls), covered).unwrap_or_default().iter().any(|t| terms.contains_key(&t.text.to_lowercase()));
                if !yields {
                    ctx.report.violation("oracle", "C19:highlight-not-a-term", format!("highlight {h:?} covers {:?}, whose analysis yields no query term: {desc}", short(covered)), case.clone());
                    return;
                }
            }
        }
        // html
        if let Ok(html) = &out.html {
            match unescape_strip(html) {
                Err(e) => {
                    ctx.report.violation("oracle", "C19:html-raw-special", format!("to_html() = {:?}: {e}: {desc}", short(html)), case.clone());
                    return;
                }
                Ok((plain, tagged)) => {
                    let expect: Vec<String> = collapsed.iter().map(|r| out.fragment[r.clone()].to_string()).collect();
                    if plain != out.fragment {
                        ctx.report.violation("oracle", "C19:html-roundtrip", format!("to_html() un-escaped and stripped is {:?}, fragment is {:?}: {desc}", short(&plain), short(&out.fragment)), case.clone());
                        return;
                    }
                    if tagged != expect {
                        ctx.report.violation("oracle", "C19:html-tags-misplaced", format!("text inside the tags {:?}, collapsed highlights cover {:?}: {desc}", tagged, expect), case.clone());
                        return;
                    }
                }
            }
        }
    }
    // the model's reader of the HTML (the `unescapeChars` of C19_html_roundtrip) on the real rendering
    if let (Ok(html), false) = (&out.html, outside) {
        if html.len() <= 4000 {
            let arg = if html.is_empty() { "-".to_string() } else { dots(html) };
            let m = ctx.model.ask(&format!("C19 unesc {arg}"));
            let expect = if out.fragment.is_empty() { "-".to_string() } else { dots(&out.fragment) };
            ctx.report.count("snippet:model-unescape-of-real-html");
            if m != expect {
                ctx.report.violation("model", "C19:model-unescape-mismatch", format!("the model's unescape of the real to_html() {:?} is not the fragment {:?}: {desc}", short(html), short(&out.fragment)), case.clone());
                return;
            }
        }
    }
    // ---- O4: model ----------------------------------------------------------------------------
    if let Some(m) = model {
        let frag = if out.fragment.is_empty() { "-".to_string() } else { dots(&out.fragment) };
        let mut flat = vec![];
        for h in hl {
            flat.push(h.start);
            flat.push(h.end);
        }
        let r = format!("ok {frag} {} {}", nat_list(&flat), match &out.html { Ok(h) => hex(h.as_bytes()), Err(_) => "panic".into() });
        if m != r {
            ctx.report.violation("model", "C19:snippet-mismatch", format!("real {} model {}: {desc}", &r[..r.len().min(200)], &m[..m.len().min(200)]), case.clone());
            return;
        }
    }
    if ctx.report.samples.len() < 5 && n_matched >= 2 && text.len() < 80 && !text.is_ascii() {
        ctx.report.sample(json!({"snippet_of": text, "tokenizer": tk, "filters": fls, "terms": terms.keys().collect::<Vec<_>>(), "max_num_chars": max_chars,
            "fragment": out.fragment, "highlighted": hl.iter().map(|r| json!([r.start, r.end])).collect::<Vec<_>>(), "html": out.html.clone().unwrap_or("panic".into())}));
    }
}

fn gen_snippet_analyzer(rng: &mut Rng) -> (Tk, Vec<Fl>) {
    let tk = match rng.below(10) {
        0..=3 => Tk::Simple,
        4 => Tk::Whitespace,
        5..=7 => {
            let (min, max) = *rng.pick(&[(1usize, 2usize), (1, 3), (2, 3), (2, 4), (3, 3), (1, 1)]);
            Tk::Ngram { min, max, prefix: rng.chance(1, 6) }
        }
        8 => Tk::Regex { pat: rng.pick(&[r"\w+", r"[^\s]+", r"\p{L}+"]).to_string() },
        _ => Tk::Raw,
    };
    let fls = match rng.below(8) {
        0 | 1 => vec![],
        2 | 3 => vec![Fl::RemoveLong(40), Fl::Lower],
        4 => vec![Fl::Lower, Fl::Stem("English".into())],
        5 => vec![Fl::Lower, Fl::Split(vec!["dampf".into(), "schiff".into(), "fahrt".into(), "tax".into(), "payer".into()])],
        6 => vec![Fl::Fold, Fl::Lower],
        _ => vec![gen_filter(rng)],
    };
    (tk, fls)
}

fn gen_max_chars(rng: &mut Rng, text: &str) -> usize {
    match rng.below(10) {
        0 => 0,
        1 => 1,
        2 => 2 + rng.usize_below(3),
        3 => 150,
        4 => usize::MAX,
        5 => 1_000_000,
        6 => text.len(),
        7 => text.len().saturating_sub(1),
        _ => 5 + rng.usize_below(40),
    }
}

fn gen_snippet_text(rng: &mut Rng) -> String {
    let mut t = gen_text(rng);
    if t.len() > 3000 {
        let mut cut = 3000;
        while !t.is_char_boundary(cut) {
            cut -= 1;
        }
        t.truncate(cut);
    }
    t
}

/// snippets through `SnippetGenerator::new` (scores chosen by the harness, exact dyadic)
fn snippet_direct(ctx: &mut Ctx) {
    let mut rng = ctx.rng.fork();
    let (tk, fls) = gen_snippet_analyzer(&mut rng);
    let text = gen_snippet_text(&mut rng);
    let toks = tokens_of(&mut build(&tk, &fls), &text).unwrap_or_default();
    let mut terms: BTreeMap<String, f32> = BTreeMap::new();
    let want = match rng.below(6) { 0 => 0, 1 | 2 => 1, 3 => 2, _ => 3 + rng.usize_below(4) };
    for _ in 0..want {
        if toks.is_empty() {
            break;
        }
        // adjacent tokens on purpose half of the time
        let i = rng.usize_below(toks.len());
        let score = *rng.pick(&[0.5f32, 0.25, 0.125, 1.0, 0.0625, 0.5, 0.25]);
        terms.insert(toks[i].text.to_lowercase(), score);
        if rng.chance(1, 2) && i + 1 < toks.len() {
            terms.insert(toks[i + 1].text.to_lowercase(), *rng.pick(&[0.5f32, 0.25]));
        }
    }
    if rng.chance(1, 5) {
        terms.insert("zzz-not-in-text".into(), 0.5);
    }
    if rng.chance(1, 25) {
        if let Some(t) = toks.first() {
            terms.insert(t.text.to_lowercase(), 0.0);
        }
    }
    let m = gen_max_chars(&mut rng, &text);
    check_snippet(ctx, &tk, &fls, &text, &terms, m, "new", None);
}

/// snippets through a real index: `SnippetGenerator::create(searcher, query, field)`
fn snippet_index(ctx: &mut Ctx) {
    let mut rng = ctx.rng.fork();
    let (tk, fls) = gen_snippet_analyzer(&mut rng);
    let mut sb = Schema::builder();
    let opts = TextOptions::default()
        .set_indexing_options(TextFieldIndexing::default().set_tokenizer("c19").set_index_option(IndexRecordOption::WithFreqsAndPositions))
        .set_stored();
    let body = sb.add_text_field("body", opts);
    let index = Index::create_in_ram(sb.build());
    index.tokenizers().register("c19", build(&tk, &fls));
    let text = gen_snippet_text(&mut rng);
    let copies = *rng.pick(&[1usize, 1, 3, 7]);
    let others: Vec<String> = (0..rng.usize_below(3)).map(|_| gen_snippet_text(&mut rng)).collect();
    let built = catch_unwind(AssertUnwindSafe(|| -> tantivy::Result<()> {
        let mut w: IndexWriter = index.writer_with_num_threads(1, 20_000_000)?;
        for _ in 0..copies {
            w.add_document(doc!(body => text.clone()))?;
        }
        for o in &others {
            w.add_document(doc!(body => o.clone()))?;
        }
        w.commit()?;
        Ok(())
    }));
    if !matches!(built, Ok(Ok(()))) {
        ctx.report.violation("oracle", "C19:indexing-panic", format!("indexing {:?}+{:?} on {} failed", tk, fls, short(&text)), tok_case(&tk, &fls, &text));
        return;
    }
    let searcher = index.reader().unwrap().searcher();
    // query terms: tokens of the text (present), plus an absent one
    let toks = tokens_of(&mut build(&tk, &fls), &text).unwrap_or_default();
    let mut qterms: Vec<String> = vec![];
    let want = match rng.below(5) { 0 => 0, 1 | 2 => 1, _ => 2 + rng.usize_below(3) };
    for _ in 0..want {
        if toks.is_empty() {
            break;
        }
        let i = rng.usize_below(toks.len());
        qterms.push(toks[i].text.clone());
        if rng.chance(1, 2) && i + 1 < toks.len() {
            qterms.push(toks[i + 1].text.clone());
        }
    }
    if rng.chance(1, 4) {
        qterms.push("absentterm".into());
    }
    qterms.retain(|t| t.len() < 60000);
    let terms_v: Vec<Term> = qterms.iter().map(|t| Term::from_field_text(body, t)).collect();
    let query: Box<dyn Query> = if terms_v.len() >= 2 && rng.chance(1, 3) {
        Box::new(PhraseQuery::new(terms_v.clone()))
    } else {
        Box::new(BooleanQuery::new(terms_v.iter().map(|t| (Occur::Should, Box::new(TermQuery::new(t.clone(), IndexRecordOption::Basic)) as Box<dyn Query>)).collect()))
    };
    let mut gen = match catch_unwind(AssertUnwindSafe(|| SnippetGenerator::create(&searcher, &*query, body))) {
        Ok(Ok(g)) => g,
        _ => {
            ctx.report.violation("oracle", "C19:snippet-create-failed", format!("SnippetGenerator::create failed for terms {:?}", qterms), tok_case(&tk, &fls, &text));
            return;
        }
    };
    // what `create` must have computed: score = 1 / (1 + doc_freq) for terms with doc_freq > 0
    let mut terms: BTreeMap<String, f32> = BTreeMap::new();
    for (s, t) in qterms.iter().zip(&terms_v) {
        let df = searcher.doc_freq(t).unwrap_or(0);
        if df > 0 {
            terms.insert(s.clone(), 1.0 / (1.0 + df as f32));
        }
    }
    let m = if rng.chance(1, 4) { 150 } else { gen_max_chars(&mut rng, &text) };
    if m != 150 || rng.chance(1, 2) {
        gen.set_max_num_chars(m);
    }
    let m_eff = if m == 150 { 150 } else { m };
    let subject = if rng.chance(3, 4) || others.is_empty() { text.clone() } else { others[0].clone() };
    check_snippet(ctx, &tk, &fls, &subject, &terms, m_eff, "index", Some(&gen));
    // snippet_from_doc joins the values of the field with ' ' and trims
    if !others.is_empty() {
        let d = doc!(body => subject.clone(), body => others[0].clone());
        let joined = format!(" {} {}", subject, others[0]);
        let a = catch_unwind(AssertUnwindSafe(|| { let s = gen.snippet_from_doc(&d); (s.fragment().to_string(), s.highlighted().to_vec()) }));
        let b = catch_unwind(AssertUnwindSafe(|| { let s = gen.snippet(joined.trim()); (s.fragment().to_string(), s.highlighted().to_vec()) }));
        ctx.report.count("snippet:from-doc");
        if a.as_ref().ok() != b.as_ref().ok() {
            ctx.report.violation("oracle", "C19:snippet-from-doc-differs", format!("snippet_from_doc of two values differs from snippet of the joined, trimmed text {}", short(joined.trim())), snip_case(&tk, &fls, joined.trim(), &terms, m_eff));
        } else if let Ok((frag, hl)) = &a {
            // and its own snippet obeys the oracle too
            let _ = (frag, hl);
            check_snippet(ctx, &tk, &fls, joined.trim(), &terms, m_eff, "from-doc", Some(&gen));
        }
    }
    // the generator built by hand from the same terms behaves identically (replays rely on this)
    let own = SnippetGenerator::new(terms.clone(), build(&tk, &fls), body, m_eff);
    let a = real_snippet(&gen, &subject);
    let b = real_snippet(&own, &subject);
    let same = match (&a, &b) {
        (Ok(x), Ok(y)) => x.fragment == y.fragment && x.highlighted == y.highlighted && x.html == y.html,
        (Err(_), Err(_)) => true,
        _ => false,
    };
    if !same {
        ctx.report.violation("model", "C19:create-differs-from-new", format!("SnippetGenerator::create and ::new with terms {:?} give different snippets on {}", terms, short(&subject)), snip_case(&tk, &fls, &subject, &terms, m_eff));
    }
}

/// one step of a history: analyze `text` on the reused analyzer; `take = Some(k)` abandons the
/// stream after k tokens (the stream is dropped without being drained)
#[derive(Clone, Debug, Serialize, Deserialize)]
struct Step {
    text: String,
    take: Option<usize>,
}

fn tokens_prefix(an: &mut TextAnalyzer, text: &str, take: Option<usize>) -> Result<Vec<Token>, ()> {
    catch_unwind(AssertUnwindSafe(|| {
        let mut out = vec![];
        let mut ts = an.token_stream(text);
        loop {
            if let Some(k) = take {
                if out.len() >= k {
                    break; // dropped here, mid-stream
                }
            }
            if !ts.advance() {
                break;
            }
            out.push(ts.token().clone());
        }
        out
    }))
    .map_err(|_| ())
}

/// "the tokens of a text do not depend on what the analyzer processed before": ONE analyzer
/// instance is reused over a sequence of texts, some streams abandoned after k tokens; every
/// stream must give exactly (a prefix of) what a fresh analyzer gives for that text.
fn check_history(ctx: &mut Ctx, tk: &Tk, fls: &[Fl], steps: &[Step]) {
    let case = json!({"kind": "history", "tokenizer": tk, "filters": fls, "steps": steps});
    let mut reused = build(tk, fls);
    ctx.report.count("history:sequences");
    let mut abandoned_before = false;
    let mut nontrivial = false;
    let mut gots: Vec<Vec<Token>> = vec![];
    for (i, st) in steps.iter().enumerate() {
        let fresh = match tokens_of(&mut build(tk, fls), &st.text) {
            Ok(t) => t,
            Err(_) => {
                ctx.report.violation("oracle", "C19:tokenizer-panic", format!("token_stream of a fresh analyzer panicked: {:?}+{:?} on {}", tk, fls, short(&st.text)), tok_case(tk, fls, &st.text));
                return;
            }
        };
        let got = match tokens_prefix(&mut reused, &st.text, st.take) {
            Ok(t) => t,
            Err(_) => {
                ctx.report.violation("oracle", "C19:tokens-depend-on-analyzer-history", format!("step {i}: the reused analyzer panicked on {} ({:?}+{:?}, earlier steps {:?})", short(&st.text), tk, fls, steps[..i].iter().map(|s| (short(&s.text), s.take)).collect::<Vec<_>>()), case);
                return;
            }
        };
        let expect: &[Token] = match st.take {
            Some(k) => &fresh[..k.min(fresh.len())],
            None => &fresh[..],
        };
        ctx.report.count(if st.take.is_some() { "history:stream-abandoned" } else { "history:stream-drained" });
        if abandoned_before {
            ctx.report.count("history:stream-after-an-abandoned-one");
            nontrivial = nontrivial || !fresh.is_empty();
        }
        if got.as_slice() != expect {
            // the contract on the text at hand, for the message
            let bad = got.iter().find(|t| !(t.offset_from <= t.offset_to && t.offset_to <= st.text.len() && st.text.is_char_boundary(t.offset_from) && st.text.is_char_boundary(t.offset_to)));
            ctx.report.violation("oracle", "C19:tokens-depend-on-analyzer-history",
                format!("step {i}: the reused analyzer gives {} for {} but a fresh one gives {}{} ({:?}+{:?}, earlier steps {:?})",
                    &enc_tokens(&got)[..enc_tokens(&got).len().min(120)], short(&st.text), &enc_tokens(expect)[..enc_tokens(expect).len().min(120)],
                    match bad { Some(t) => format!("; token {}..{} is out of bounds or off a character boundary of the {}-byte text", t.offset_from, t.offset_to, st.text.len()), None => String::new() },
                    tk, fls, steps[..i].iter().map(|s| (short(&s.text), s.take)).collect::<Vec<_>>()),
                case);
            return;
        }
        gots.push(got.clone());
        if let Some(k) = st.take {
            if k < fresh.len() {
                abandoned_before = true;
                // abandoned inside a run of tokens that share their offsets = inside a split compound
                if k > 0 && fresh[k - 1].offset_from == fresh[k].offset_from && fresh[k - 1].offset_to == fresh[k].offset_to {
                    ctx.report.count("history:abandoned-mid-compound");
                }
            }
        }
    }
    ctx.report.case(&format!("history|{:?}|{:?}|{:?}", tk, fls, steps.iter().map(|s| (&s.text, s.take)).collect::<Vec<_>>()), nontrivial);
    // the stateful model of SplitCompoundWords (buffer threaded through the streams, cleared as the
    // source says) against the reused analyzer, when the compound splitter is the outermost filter
    if let (Some(split @ Fl::Split(_)), true) = (fls.last(), *tk != Tk::Facet) {
        let prefix = &fls[..fls.len() - 1];
        let inners: Vec<Vec<Token>> = steps.iter().map(|s| tokens_of(&mut build(tk, prefix), &s.text).unwrap_or_default()).collect();
        let all: Vec<Token> = inners.iter().flatten().cloned().collect();
        let spec = filter_spec(split, &all);
        let arg = inners.iter().zip(steps).map(|(inner, s)| format!("{}@{}", enc_tokens(inner), s.take.unwrap_or(usize::MAX / 2))).collect::<Vec<_>>().join("#");
        let m = ctx.model.ask(&format!("C19 splithist {spec} {arg}"));
        let r = gots.iter().map(|g| enc_tokens(g)).collect::<Vec<_>>().join("#");
        ctx.report.count("history:stateful-split-model-compared");
        if m != r {
            ctx.report.violation("model", "C19:split-history-model-mismatch", format!("reused analyzer {:?}+{:?}: real {} stateful model {}", tk, fls, &r[..r.len().min(200)], &m[..m.len().min(200)]), case.clone());
            return;
        }
    }
    // the fresh-analyzer token list of the last text against the model (and the full oracle)
    if let Some(last) = steps.last() {
        if last.text.len() <= 400 {
            check_tokens(ctx, tk, fls, &last.text);
        }
    }
}

fn history_text(rng: &mut Rng) -> String {
    if rng.chance(1, 4) {
        let mut t = gen_text(rng);
        let mut cut = t.len().min(200);
        while !t.is_char_boundary(cut) {
            cut -= 1;
        }
        t.truncate(cut);
        return t;
    }
    // short texts around words that the dictionaries split completely
    let n = 1 + rng.usize_below(4);
    let mut s = String::new();
    for i in 0..n {
        if i > 0 {
            s.push_str(*rng.pick(&[" ", " ", "\0", "-", "\t"]));
        }
        s.push_str(match rng.below(10) {
            0..=2 => *rng.pick(&["dampfschifffahrt", "Dampfschifffahrt", "taxpayer", "schifffahrt", "abc", "cab", "café", "日本語", "dampfschiff"]),
            3..=5 => *rng.pick(&ASCII_WORDS),
            6..=7 => *rng.pick(&UNI_WORDS),
            8 => *rng.pick(&EMOJI),
            _ => "über",
        });
    }
    s
}

fn history_case(ctx: &mut Ctx) {
    let mut rng = ctx.rng.fork();
    let mut tk = gen_tokenizer(&mut rng);
    if let Tk::Ngram { min, max, prefix } = &tk {
        if *max > 5 {
            tk = Tk::Ngram { min: (*min).min(5), max: 5, prefix: *prefix };
        }
    }
    let mut fls = gen_chain(&mut rng);
    // the compound splitter keeps buffers in the tokenizer: make it frequent, in every position
    if rng.chance(1, 2) {
        let split = Fl::Split(vec!["dampf".into(), "schiff".into(), "fahrt".into(), "tax".into(), "payer".into(), "日本".into(), "語".into(), "caf".into(), "é".into(), "ab".into(), "c".into(), "über".into()]);
        let at = rng.usize_below(fls.len() + 1);
        fls.insert(at, split);
        if rng.chance(1, 2) {
            fls.insert(0, Fl::Lower);
        }
    }
    let n = 2 + rng.usize_below(4);
    let mut steps = vec![];
    for _ in 0..n {
        let text = history_text(&mut rng);
        let ntok = tokens_of(&mut build(&tk, &fls), &text).map(|t| t.len()).unwrap_or(0);
        let take = if rng.chance(1, 2) { Some(rng.usize_below(ntok + 2)) } else { None };
        steps.push(Step { text, take });
    }
    check_history(ctx, &tk, &fls, &steps);
}

/// `PreTokenizedStream` hands the stored tokens through unchanged
fn pretokenized_case(ctx: &mut Ctx) {
    let mut rng = ctx.rng.fork();
    let text = gen_snippet_text(&mut rng);
    let tk = gen_tokenizer(&mut rng);
    let tk = if let Tk::Ngram { min, max, prefix } = tk { Tk::Ngram { min: min.min(3), max: max.min(4).max(min.min(3)), prefix } } else { tk };
    let toks = tokens_of(&mut build(&tk, &[]), &text).unwrap_or_default();
    let pts = PreTokenizedString { text: text.clone(), tokens: toks.clone() };
    let got = catch_unwind(AssertUnwindSafe(|| {
        let mut st = PreTokenizedStream::from(pts);
        let mut out = vec![];
        while st.advance() {
            out.push(st.token().clone());
        }
        out
    }));
    ctx.report.case(&format!("pretok|{:?}|{}", tk, text), toks.len() >= 2);
    ctx.report.count("pretokenized");
    if got.as_ref().ok() != Some(&toks) {
        ctx.report.violation("oracle", "C19:pretokenized-stream-changes-tokens", format!("PreTokenizedStream over {} tokens of {} returned something else", toks.len(), short(&text)), tok_case(&tk, &[], &text));
    }
}

fn collapse_case(ctx: &mut Ctx) {
    let mut rng = ctx.rng.fork();
    let n = rng.usize_below(9);
    let span = *rng.pick(&[4usize, 10, 30]);
    let ranges: Vec<Range<usize>> = (0..n)
        .map(|_| {
            let a = rng.usize_below(span);
            let b = a + rng.usize_below(span / 2 + 1);
            a..b
        })
        .collect();
    let real = collapse_overlapped_ranges(&ranges);
    let mut flat = vec![];
    for r in &ranges {
        flat.push(r.start);
        flat.push(r.end);
    }
    let mut rflat = vec![];
    for r in &real {
        rflat.push(r.start);
        rflat.push(r.end);
    }
    ctx.report.case(&format!("collapse|{:?}", ranges), n >= 2);
    ctx.report.count("collapse");
    let case = json!({"kind": "collapse", "ranges": flat});
    let covered = |v: &[Range<usize>], x: usize| v.iter().any(|r| r.start <= x && x < r.end);
    if !real.windows(2).all(|w| w[0].end <= w[1].start) || (0..span * 2).any(|x| covered(&ranges, x) != covered(&real, x)) {
        ctx.report.violation("oracle", "C19:collapse-wrong", format!("collapse_overlapped_ranges({:?}) = {:?}", ranges, real), case);
        return;
    }
    let m = ctx.model.ask(&format!("C19 collapse {}", nat_list(&flat)));
    if m != nat_list(&rflat) {
        ctx.report.violation("model", "C19:collapse-mismatch", format!("collapse_overlapped_ranges({:?}) = {:?}, model {m}", ranges, real), case);
    }
}

// ------------------------------------------------------------------------------------------
fn replay(ctx: &mut Ctx, case: &serde_json::Value) {
    let kind = case["kind"].as_str().unwrap_or("");
    match kind {
        "tok" | "snip" => {
            let tk: Tk = serde_json::from_value(case["tokenizer"].clone()).expect("tokenizer");
            let fls: Vec<Fl> = serde_json::from_value(case["filters"].clone()).expect("filters");
            let text = case["text"].as_str().unwrap_or("").to_string();
            if kind == "tok" {
                check_tokens(ctx, &tk, &fls, &text);
            } else {
                let mut terms = BTreeMap::new();
                if let Some(m) = case["terms"].as_object() {
                    for (k, v) in m {
                        terms.insert(k.clone(), f32::from_bits(v.as_u64().unwrap_or(0) as u32));
                    }
                }
                let m = case["max_num_chars"].as_u64().unwrap_or(150) as usize;
                check_snippet(ctx, &tk, &fls, &text, &terms, m, "replay", None);
            }
        }
        "history" => {
            let tk: Tk = serde_json::from_value(case["tokenizer"].clone()).expect("tokenizer");
            let fls: Vec<Fl> = serde_json::from_value(case["filters"].clone()).expect("filters");
            let steps: Vec<Step> = serde_json::from_value(case["steps"].clone()).expect("steps");
            check_history(ctx, &tk, &fls, &steps);
        }
        "collapse" => {
            ctx.report.notes.push("collapse cases are regenerated from the seed".into());
        }
        _ => ctx.report.notes.push(format!("unknown replay kind {kind}")),
    }
}

pub fn run(ctx: &mut Ctx) {
    ctx.report.rule = "cases = (tokenizer, filter chain, text) triples, (analyzer, text, terms, max_num_chars) snippet requests and range lists; \
        non-trivial = tokenizer case with ≥1 token and (a multi-byte text or ≥2 tokens); snippet case where ≥1 token is a query term; collapse with ≥2 ranges".into();
    ctx.report.correspondence_obligations = vec![
        "bare tokenizer (simple, whitespace, raw, ngram, facet, regex): (from,to,position) list = model".into(),
        "token texts of the bare tokenizer = model slices".into(),
        "filter chain output (offsets, positions, texts) = model chain with std/stemmer/dictionary functions as tables".into(),
        "FacetTokenizer + filter chain (text buffer rewritten in place by filters) = model facetChain".into(),
        "SnippetGenerator::snippet: fragment, raw highlighted(), to_html() bytes (or panic) = model".into(),
        "collapse_overlapped_ranges = model collapse".into(),
        "model unescapeChars(real to_html()) = real fragment()".into(),
        "NgramTokenizer::new accepts / rejects (min, max) as the model's extracted guards do".into(),
        "SplitCompoundWords as the outermost filter of a reused analyzer = stateful model (parts buffer threaded through abandoned streams, cleared per the extracted token_stream shape)".into(),
        "history independence: one analyzer reused over a sequence of texts, streams abandoned after k tokens, gives for every text (a prefix of) the fresh-analyzer token list, which is the stateless model's".into(),
        "SnippetGenerator::create over a real index = SnippetGenerator::new with 1/(1+doc_freq) scores".into(),
    ];
    if let Some(case) = ctx.replay.clone() {
        replay(ctx, &case);
        return;
    }
    // corpus first: DESIGN S7 and neighbours
    {
        let mut terms = BTreeMap::new();
        terms.insert("abcdefghij".to_string(), 0.5f32);
        check_snippet(ctx, &Tk::Simple, &[], "abcdefghij klm", &terms, 3, "corpus", None);
        check_snippet(ctx, &Tk::Simple, &[], "abcdefghij klm", &terms, 10, "corpus", None);
        check_snippet(ctx, &Tk::Simple, &[Fl::RemoveLong(40), Fl::Lower], "xy abcdefghij klm", &terms, 9, "corpus", None);
        let mut t2 = BTreeMap::new();
        for k in ["a", "ab", "abc", "b", "bc"] {
            t2.insert(k.to_string(), 0.5f32);
        }
        for m in [0usize, 1, 2, 3, 150] {
            check_snippet(ctx, &Tk::Ngram { min: 1, max: 3, prefix: false }, &[], "abcd", &t2, m, "corpus", None);
        }
        // second route to the highlight-outside-fragment finding: a stop-word filter drops the last
        // n-grams, with the default max_num_chars
        let mut t3 = BTreeMap::new();
        t3.insert("bcd".to_string(), 0.5f32);
        check_snippet(ctx, &Tk::Ngram { min: 1, max: 3, prefix: false }, &[Fl::Stop(vec!["d".into(), "cd".into()])], "abcd", &t3, 150, "corpus", None);
        check_tokens(ctx, &Tk::Facet, &[], "top\0a\0b");
        // found by the thorough tier: in-place filters rewrite the buffer the facet tokenizer appends to
        check_tokens(ctx, &Tk::Facet, &[Fl::Stem("Turkish".into()), Fl::Stem("French".into())], "👨\u{200d}👩\u{200d}👧naïve\0fahrtRusty");
        check_tokens(ctx, &Tk::Facet, &[Fl::Lower, Fl::Stem("English".into()), Fl::RemoveLong(40)], "Running\0flies\0PONIES\0Straße");
        check_tokens(ctx, &Tk::Facet, &[Fl::Split(vec!["dampf".into(), "schiff".into()]), Fl::Stem("German".into())], "dampfschiff\0fahrten");
        check_tokens(ctx, &Tk::Facet, &[Fl::Split(vec!["payer".into(), "fahrt".into()]), Fl::Stem("German".into())], "payer\0fahrtthe\0klmrunning\0is\0\0");
        check_tokens(ctx, &Tk::Ngram { min: 1, max: 2, prefix: false }, &[], "a😀é");
    }
    let t0 = std::time::Instant::now();
    let mut slowest: (f64, String) = (0.0, String::new());
    let texts = ctx.budget(3000, 45_000);
    for _ in 0..texts {
        let mut rng = ctx.rng.fork();
        let text = gen_text(&mut rng);
        let n_an = if text.len() > 4000 { 2 } else { 4 };
        for _ in 0..n_an {
            let mut tk = gen_tokenizer(&mut rng);
            // keep the quadratic blow-up of wide n-grams (tokens × token length) and the per-suffix
            // regex evaluation away from long texts
            if let Tk::Ngram { min, max, prefix } = &tk {
                if *max > 5 && text.len() > 150 {
                    tk = Tk::Ngram { min: (*min).min(5), max: 5, prefix: *prefix };
                }
            }
            if text.len() > 4000 && matches!(tk, Tk::Regex { .. }) {
                tk = Tk::Whitespace;
            }
            let fls = gen_chain(&mut rng);
            let t1 = std::time::Instant::now();
            // facet paths: most of the time turn the spaces into the facet separator (byte 0)
            let facet_text;
            let text: &String = if tk == Tk::Facet && rng.chance(2, 3) {
                facet_text = text.replace(' ', "\0");
                &facet_text
            } else {
                &text
            };
            check_tokens(ctx, &tk, &fls, text);
            let dt = t1.elapsed().as_secs_f64();
            if dt > slowest.0 {
                slowest = (dt, format!("{:?}+{:?} on {} bytes", tk, fls, text.len()));
            }
        }
    }
    ctx.report.notes.push(format!("timing (informative only): tokenizer cases {:.1}s, slowest {:.2}s: {}", t0.elapsed().as_secs_f64(), slowest.0, slowest.1));
    let t0 = std::time::Instant::now();
    for _ in 0..ctx.budget(10_000, 200_000) {
        snippet_direct(ctx);
    }
    for _ in 0..ctx.budget(600, 10_000) {
        snippet_index(ctx);
    }
    for _ in 0..ctx.budget(1500, 30_000) {
        collapse_case(ctx);
    }
    for _ in 0..ctx.budget(300, 5_000) {
        pretokenized_case(ctx);
    }
    // NgramTokenizer::new accepts exactly what the model's guards (read from the source) accept
    for (mn, mx) in [(0usize, 0usize), (0, 1), (1, 1), (1, 2), (2, 1), (3, 3), (4, 3), (5, 1000), (1, usize::MAX)] {
        let real = if NgramTokenizer::new(mn, mx, false).is_ok() && NgramTokenizer::new(mn, mx, true).is_ok() { "ok" } else { "err" };
        let m = ctx.model.ask(&format!("C19 ngramnew {mn} {mx}"));
        ctx.report.case(&format!("ngramnew|{mn}|{mx}"), true);
        ctx.report.count("ngram-constructor");
        if m != real {
            ctx.report.violation("model", "C19:ngram-constructor-guards-mismatch", format!("NgramTokenizer::new({mn}, {mx}, _) is {real}, the model's guards say {m}"), json!({"kind": "ngramnew", "min": mn, "max": mx}));
        }
    }
    // corpus: a reused analyzer after a stream abandoned inside a split compound
    {
        let fls = vec![Fl::Lower, Fl::Split(vec!["dampf".into(), "schiff".into(), "fahrt".into(), "über".into()])];
        let steps = vec![Step { text: "Dampfschifffahrt".into(), take: Some(1) }, Step { text: "über".into(), take: None }, Step { text: "x dampfschiff".into(), take: Some(2) }, Step { text: "".into(), take: None }];
        check_history(ctx, &Tk::Simple, &fls, &steps);
    }
    for _ in 0..ctx.budget(4_000, 40_000) {
        history_case(ctx);
    }
    ctx.report.notes.push(format!("timing (informative only): snippet + collapse cases {:.1}s", t0.elapsed().as_secs_f64()));
}
